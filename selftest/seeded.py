#!/usr/bin/env python3
"""Evaluate the independently produced property-breaking changes kept under /verif/seeded/<id>/ .

For every seeded/<id>/patch_<n>.diff: a scratch copy of the /repo working tree (src + tests) is made outside /repo and /verif, the patch is
applied, then  (1) the demonstration script must print VIOLATED (exit 1) on the patched copy,  (2) optionally the repository's full test
suite must still pass,  (3) ./check <id> --src-root <copy>/src must exit 1 with a VIOLATION line.  Results go to seeded/results.json.
usage: seeded.py [--only C05[,C06]] [--nums 7,8,9] [--results FILE] [--merge FILE...] [--suite] [--repo]      (--repo: apply with `git -C /repo apply` instead of a scratch copy)"""
import glob
import json
import os
import re
import shutil
import subprocess
import sys
import tempfile
import time

VERIF = os.path.dirname(os.path.dirname(os.path.abspath(__file__)))
REPO = '/repo'


def sh(cmd, **kw):
    return subprocess.run(cmd, capture_output=True, text=True, **kw)


def main():
    only = None
    if '--only' in sys.argv:
        only = set(sys.argv[sys.argv.index('--only') + 1].split(','))
    suite = '--suite' in sys.argv
    in_repo = '--repo' in sys.argv
    res_path = os.path.join(VERIF, 'seeded', 'results.json')
    if '--results' in sys.argv:          # separate result file (parallel runs over different properties; merge with --merge)
        res_path = sys.argv[sys.argv.index('--results') + 1]
    nums = set(sys.argv[sys.argv.index('--nums') + 1].split(',')) if '--nums' in sys.argv else None
    if '--merge' in sys.argv:
        merged = json.load(open(os.path.join(VERIF, 'seeded', 'results.json')))
        for f in sys.argv[sys.argv.index('--merge') + 1:]:
            merged.update(json.load(open(f)))
        json.dump(merged, open(os.path.join(VERIF, 'seeded', 'results.json'), 'w'), indent=1, sort_keys=True)
        return
    results = json.load(open(res_path)) if os.path.exists(res_path) else {}
    for pdir in sorted(glob.glob(os.path.join(VERIF, 'seeded', 'C*'))):
        pid = os.path.basename(pdir)
        if only and pid not in only:
            continue
        for patch in sorted(glob.glob(os.path.join(pdir, 'patch_*.diff'))):
            n = re.search(r'patch_(\d+)\.diff', patch).group(1)
            if nums and n not in nums:
                continue
            key = f'{pid}/{n}'
            demo = os.path.join(pdir, f'demo_{n}.py')
            meta = json.load(open(os.path.join(pdir, f'meta_{n}.json'))) if os.path.exists(os.path.join(pdir, f'meta_{n}.json')) else {}
            tmp = tempfile.mkdtemp(prefix='seeded_')
            t0 = time.time()
            try:
                if in_repo:
                    root = REPO
                    r = sh(['git', '-C', REPO, 'apply', patch])
                else:
                    root = tmp
                    shutil.copytree(os.path.join(REPO, 'src'), os.path.join(tmp, 'src'))
                    shutil.copytree(os.path.join(REPO, 'tests'), os.path.join(tmp, 'tests'))
                    for f in ('pyproject.toml', 'setup.cfg', 'pytest.ini', 'tox.ini'):
                        if os.path.exists(os.path.join(REPO, f)):
                            shutil.copy(os.path.join(REPO, f), tmp)
                    r = sh(['patch', '-p1', '-d', tmp, '-i', patch])
                entry = {'title': meta.get('title', ''), 'applied': r.returncode == 0}
                if r.returncode != 0:
                    entry['error'] = (r.stdout + r.stderr)[-400:]
                    results[key] = entry
                    print(f'{key}: PATCH-FAILED {entry["error"][:150]}')
                    continue
                env = dict(os.environ, PYTHONPATH=os.path.join(root, 'src'))
                # the demo scripts refer to their own worktree: rewrite the path to the copy
                dtxt = open(demo).read().replace(f'/tmp/wt/{pid}', root)
                dcopy = os.path.join(tmp, f'demo_{n}.py')
                open(dcopy, 'w').write(dtxt)
                try:
                    d = sh(['/venv/bin/python', dcopy], env=env, timeout=240, cwd=root)
                    entry['demo_exit'] = d.returncode
                    entry['demo_violated'] = 'VIOLATED' in d.stdout
                    entry['demo_line'] = next((ln for ln in d.stdout.splitlines() if ln.startswith('VIOLATED')), d.stdout[-200:] + d.stderr[-200:])[:300]
                except subprocess.TimeoutExpired:
                    entry['demo_exit'] = None
                    entry['demo_violated'] = False
                    entry['demo_line'] = 'demonstration script did not finish within 240 s on this machine (it uses real-time waits)'
                # the demonstration must pass on the UNCHANGED tree (the current /repo working tree)
                try:
                    dtxt0 = open(demo).read().replace(f'/tmp/wt/{pid}', REPO)
                    d0copy = os.path.join(tmp, f'demo_{n}_unchanged.py')
                    open(d0copy, 'w').write(dtxt0)
                    d0 = sh(['/venv/bin/python', d0copy], env=dict(os.environ, PYTHONPATH=os.path.join(REPO, 'src')), timeout=240, cwd=REPO)
                    entry['demo_unchanged_holds'] = d0.returncode == 0 and 'VIOLATED' not in d0.stdout
                except subprocess.TimeoutExpired:
                    entry['demo_unchanged_holds'] = None
                if suite:
                    import fcntl                      # the e2e tests bind fixed ports: one suite at a time on this machine
                    with open('/tmp/aioslsk_suite.lock', 'w') as lk:
                        fcntl.flock(lk, fcntl.LOCK_EX)
                        s = sh(['/venv/bin/python', '-m', 'pytest', '-q', '-p', 'no:cacheprovider', '--timeout=900', '-x', 'tests'], env=env, cwd=root, timeout=3000)
                    entry['suite'] = s.stdout.strip().splitlines()[-1][:120] if s.stdout.strip() else s.stderr[-120:]
                c = sh([os.path.join(VERIF, 'check'), pid, '--src-root', os.path.join(root, 'src'), '--no-evidence'], timeout=7200, cwd=VERIF)
                entry['check_exit'] = c.returncode
                viol = [ln for ln in c.stdout.splitlines() if ln.startswith('VIOLATION')]
                entry['violations'] = len(viol)
                entry['obligations'] = sorted({re.search(r'obligation=(\S+)', ln).group(1) for ln in viol if 'obligation=' in ln})[:6]
                entry['replayed'] = sum(1 for ln in viol if 'no-failing-input-found' not in ln)
                entry['summary'] = c.stdout.strip().splitlines()[-1][:200] if c.stdout.strip() else c.stderr[-200:]
                entry['seconds'] = round(time.time() - t0, 1)
                entry['caught'] = c.returncode == 1 and bool(viol)
                results[key] = entry
                print(f'{key}: unchanged={"HOLDS" if entry.get("demo_unchanged_holds") else "??"} suite={entry.get("suite", "-")[:22]!r} demo={"VIOLATED" if entry["demo_violated"] else "??"} check_exit={c.returncode} '
                      f'{"CAUGHT" if entry["caught"] else "MISSED"} {entry["obligations"][:3]} ({entry["seconds"]}s)', flush=True)
            finally:
                if in_repo:
                    sh(['git', '-C', REPO, 'checkout', '--', '.'])
                shutil.rmtree(tmp, ignore_errors=True)
                json.dump(results, open(res_path, 'w'), indent=1, sort_keys=True)


if __name__ == '__main__':
    main()
