#!/usr/bin/env python3
"""False-alarm probe: behaviour-preserving refactorings produced independently (seeded/<id>/harmless_n.diff) are applied to a scratch
copy of the /repo working tree; ./check <id> must not report a violation (exit 0 expected; exit 2 = UNDECIDED is recorded, exit 1 or a
VIOLATION line is a FALSE ALARM).  Results: seeded/harmless_results.json.   usage: harmless.py [--only C05,C07] [--nums 7,8,9] [--results FILE] [--merge FILE...]"""
import glob
import json
import os
import re
import shutil
import subprocess
import sys
import tempfile

VERIF = os.path.dirname(os.path.dirname(os.path.abspath(__file__)))
REPO = '/repo'


def main():
    only = set(sys.argv[sys.argv.index('--only') + 1].split(',')) if '--only' in sys.argv else None
    res_path = os.path.join(VERIF, 'seeded', 'harmless_results.json')
    if '--results' in sys.argv:          # separate result file (parallel runs over different properties; merge with --merge)
        res_path = sys.argv[sys.argv.index('--results') + 1]
    nums = set(sys.argv[sys.argv.index('--nums') + 1].split(',')) if '--nums' in sys.argv else None
    if '--merge' in sys.argv:
        main_path = os.path.join(VERIF, 'seeded', 'harmless_results.json')
        merged = json.load(open(main_path)) if os.path.exists(main_path) else {}
        for f in sys.argv[sys.argv.index('--merge') + 1:]:
            merged.update(json.load(open(f)))
        json.dump(merged, open(main_path, 'w'), indent=1, sort_keys=True)
        return
    results = json.load(open(res_path)) if os.path.exists(res_path) else {}
    for pdir in sorted(glob.glob(os.path.join(VERIF, 'seeded', 'C*'))):
        pid = os.path.basename(pdir)
        if only and pid not in only:
            continue
        for patch in sorted(glob.glob(os.path.join(pdir, 'harmless_*.diff'))):
            n = re.search(r'harmless_(\d+)\.diff', patch).group(1)
            if nums and n not in nums:
                continue
            key = f'{pid}/h{n}'
            meta_p = os.path.join(pdir, f'harmless_{n}.json')
            meta = json.load(open(meta_p)) if os.path.exists(meta_p) else {}
            tmp = tempfile.mkdtemp(prefix='harmless_')
            try:
                shutil.copytree(os.path.join(REPO, 'src'), os.path.join(tmp, 'src'))
                r = subprocess.run(['patch', '-p1', '-d', tmp, '-i', patch], capture_output=True, text=True)
                entry = {'title': meta.get('title', ''), 'kind': meta.get('kind', ''), 'applied': r.returncode == 0}
                if r.returncode != 0:
                    entry['error'] = (r.stdout + r.stderr)[-300:]
                    results[key] = entry
                    print(f'{key}: PATCH-FAILED')
                    continue
                c = subprocess.run([os.path.join(VERIF, 'check'), pid, '--src-root', os.path.join(tmp, 'src'), '--no-evidence'], capture_output=True, text=True, cwd=VERIF, timeout=7200)
                viol = [ln for ln in c.stdout.splitlines() if ln.startswith('VIOLATION')]
                und = [ln for ln in c.stdout.splitlines() if ln.startswith(('UNDECIDED', 'CHECKER-ERROR'))]
                entry.update(check_exit=c.returncode, violations=[re.search(r'obligation=(\S+)', v).group(1) for v in viol if 'obligation=' in v][:5],
                             undecided=[u[:160] for u in und[:3]],
                             verdict='QUIET' if c.returncode == 0 and not viol else 'FALSE-ALARM' if viol or c.returncode == 1 else 'UNDECIDED' if c.returncode == 2 else 'CHECKER-ERROR')
                results[key] = entry
                print(f'{key}: {entry["verdict"]} exit={c.returncode} {entry["violations"][:2] or entry["undecided"][:1]} - {entry["title"][:70]}', flush=True)
            finally:
                shutil.rmtree(tmp, ignore_errors=True)
                json.dump(results, open(res_path, 'w'), indent=1, sort_keys=True)


if __name__ == '__main__':
    main()
