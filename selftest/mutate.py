#!/usr/bin/env python3
"""Seeded-mutant / harmless-edit runner.

usage: mutate.py <table.json> [--only NAME]
table entries: {name, prop, file (relative to src/aioslsk), old, new, expect: 'fail'|'pass', obligation: substring?}
Each edit is applied to a scratch copy of /repo/src in a mktemp directory outside /repo and /verif,
the check is run with --src-root, and the copy is deleted."""
import json
import os
import shutil
import subprocess
import sys
import tempfile

VERIF = os.path.dirname(os.path.dirname(os.path.abspath(__file__)))


def run_one(m, repo_src='/repo/src'):
    tmp = tempfile.mkdtemp(prefix='pyvc-mut-')
    try:
        dst = os.path.join(tmp, 'src')
        shutil.copytree(repo_src, dst, ignore=shutil.ignore_patterns('__pycache__', '*.egg-info'))
        edits = m.get('edits') or [m]
        for ed in edits:
            path = os.path.join(dst, 'aioslsk', ed['file'])
            s = open(path).read()
            if s.count(ed['old']) < 1:
                return 'SKIP', f'pattern not found in {ed["file"]}: {ed["old"][:50]!r}'
            s = s.replace(ed['old'], ed['new'], ed.get('count', 1))
            open(path, 'w').write(s)
        env = dict(os.environ, VERIF_NO_EVIDENCE='1')
        r = subprocess.run([os.path.join(VERIF, 'check'), m['prop'], '--src-root', dst, '--no-evidence'],
                           capture_output=True, text=True, cwd=VERIF, env=env, timeout=1800)
        out = r.stdout + r.stderr
        viol = [l for l in out.splitlines() if l.startswith('VIOLATION')]
        und = [l for l in out.splitlines() if l.startswith(('UNDECIDED', 'CHECKER-ERROR'))]
        if m['expect'] == 'fail':
            if r.returncode == 1 and (not m.get('obligation') or any(m['obligation'] in v for v in viol)):
                conf = sum(1 for v in viol if 'no-failing-input-found' not in v)
                first = [v for v in viol if not m.get('obligation') or m['obligation'] in v][0]
                return 'KILLED', f'{len(viol)} violations ({conf} replayed natively); ' + first.split('obligation=')[-1][:120]
            if r.returncode in (2, 3):
                return 'UNDECIDED', (und[0][:200] if und else out[-300:])
            if r.returncode == 1:
                return 'KILLED-OTHER', f'expected obligation ~{m.get("obligation")} but got: ' + '; '.join(v.split('obligation=')[-1][:70] for v in viol[:4])
            return 'SURVIVED', f'exit {r.returncode}: ' + (viol[0][:200] if viol else out[-200:])
        else:
            if r.returncode == 0:
                return 'OK', ''
            return 'FALSE-ALARM', (viol + und + [out[-300:]])[0][:300]
    finally:
        shutil.rmtree(tmp, ignore_errors=True)


def main():
    table = json.load(open(sys.argv[1]))
    only = sys.argv[sys.argv.index('--only') + 1] if '--only' in sys.argv else None
    bad = 0
    for m in table:
        if only and only not in m['name']:
            continue
        st, info = run_one(m)
        print(f'{st:12} {m["prop"]} {m["name"]}: {info}')
        if st in ('SURVIVED', 'FALSE-ALARM', 'SKIP'):
            bad += 1
    sys.exit(1 if bad else 0)


if __name__ == '__main__':
    main()
