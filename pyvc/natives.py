"""Builtins, operators and extern contracts of the standard library.

Every function here is part of the *trusted base*: it states what the engine
assumes about Python / the standard library (A-struct, A-utf8, A-zlib ...)."""
from __future__ import annotations
import ast
import operator
import struct as _struct

import z3

from .ctx import Unsupported, PathAbort
from .values import (
    Sym, Boxed, Obj, EnumMember, PyFunc, Bound, Native, ClassVal, BuiltinClass, BUILTIN_CLASSES,
    ExcVal, ModuleVal, SuperVal, Opaque, PyRaise, z3int, z3real, z3str, unbox,
)
from .rope import (Rope, Lit, LE, Blob, ByteArr, SymList, SymElem, ArrSeg, BVSeg, bv_of_int, bv_backing,
                   seg_byte, rope_bytes_bv)

EXTERNS_USED: set[str] = set()     # names of extern contracts exercised in this process (reported in evidence)


def _used(name: str):
    EXTERNS_USED.add(name)


# ---------------------------------------------------------------------------
# helpers

def is_sym(v) -> bool:
    return isinstance(unbox(v), Sym)


def sym_bool(t):
    if t is True or t is False:
        return t
    t = z3.simplify(t)
    if z3.is_true(t):
        return True
    if z3.is_false(t):
        return False
    return Sym(t, 'bool')


def sym_int(t):
    t = z3.simplify(t)
    if z3.is_int_value(t):
        return t.as_long()
    return Sym(t, 'int')


def to_rope(it, v) -> Rope:
    v = unbox(v)
    if isinstance(v, Rope):
        return v
    if isinstance(v, ByteArr):
        return v.rope
    if isinstance(v, bytes):
        return Rope.lit(v)
    if isinstance(v, Reversed):
        return v.to_rope(it)
    if isinstance(v, list) and all(isinstance(x, int) and not isinstance(x, bool) for x in v):
        return Rope.lit(bytes(v))
    raise Unsupported(f'not bytes-like: {v!r}')


def int_or_sym(v):
    v = unbox(v)
    if isinstance(v, EnumMember) and isinstance(v.value, int):
        return v.value
    return v


# ---------------------------------------------------------------------------
# operators

_OPS = {
    ast.Add: operator.add, ast.Sub: operator.sub, ast.Mult: operator.mul, ast.Div: operator.truediv,
    ast.FloorDiv: operator.floordiv, ast.Mod: operator.mod, ast.Pow: operator.pow,
    ast.LShift: operator.lshift, ast.RShift: operator.rshift, ast.BitOr: operator.or_,
    ast.BitAnd: operator.and_, ast.BitXor: operator.xor,
}


def _is_num(v):
    return isinstance(v, (int, float)) or (isinstance(v, Sym) and v.k in ('int', 'real', 'bool'))


def _is_strlike(v):
    return isinstance(v, str) or (isinstance(v, Sym) and v.k == 'str')


def _is_byteslike(v):
    return isinstance(v, (Rope, ByteArr, bytes))


def binop(it, op, a, b):
    if hasattr(a, 'pyvc_binop'):
        r = a.pyvc_binop(it, op, b, False)
        if r is not NotImplemented:
            return r
    if hasattr(b, 'pyvc_binop'):
        r = b.pyvc_binop(it, op, a, True)
        if r is not NotImplemented:
            return r
    a0, b0 = a, b
    a, b = unbox(a), unbox(b)
    # flags
    if isinstance(a, EnumMember) and isinstance(b, EnumMember) and getattr(a.cls, 'is_flag', False):
        f = _OPS[type(op)]
        return it.flag_value(a.cls, f(a.value, b.value))
    if (isinstance(a, Sym) and a.k == 'enum') or (isinstance(b, Sym) and b.k == 'enum'):
        return flag_binop(it, op, a, b)
    if _is_byteslike(a) and _is_byteslike(b) and isinstance(op, ast.Add):
        return to_rope(it, a) + to_rope(it, b)
    if isinstance(a, list) and isinstance(b, list) and isinstance(op, ast.Add):
        return a + b
    if isinstance(a, tuple) and isinstance(b, tuple) and isinstance(op, ast.Add):
        return a + b
    if isinstance(a, (set, frozenset)) and isinstance(b, (set, frozenset)):
        return _OPS[type(op)](a, b)
    if isinstance(a, dict) and isinstance(b, dict) and isinstance(op, ast.BitOr):
        return {**a, **b}
    if _is_strlike(a) and _is_strlike(b) and isinstance(op, ast.Add):
        if isinstance(a, str) and isinstance(b, str):
            return a + b
        return Sym(z3.Concat(z3str(a), z3str(b)), 'str')
    if isinstance(a, str) and isinstance(op, ast.Mod):
        if isinstance(b, tuple) and all(isinstance(x, (int, str, float)) for x in b) or isinstance(b, (int, str, float)):
            return a % b
        return Sym(it.ctx.fresh_str('fmt'), 'str')
    if (isinstance(a, (str, list, tuple)) and isinstance(b, int) or isinstance(b, (str, list, tuple)) and isinstance(a, int)) \
            and isinstance(op, ast.Mult):
        return a * b
    if _is_num(a) and _is_num(b):
        if not isinstance(a, Sym) and not isinstance(b, Sym):
            try:
                return _OPS[type(op)](a, b)
            except ZeroDivisionError:
                it.throw('ZeroDivisionError', 'division by zero')
            except OverflowError:
                it.throw('OverflowError')
            except (TypeError, ValueError) as e:
                it.throw(type(e).__name__, str(e))
        return sym_arith(it, op, a, b)
    if isinstance(a, Opaque) or isinstance(b, Opaque):
        raise Unsupported(f'operator on opaque value {a!r} {b!r}')
    raise Unsupported(f'binop {type(op).__name__} on {a0!r}, {b0!r}')


def _kind(v):
    if isinstance(v, Sym):
        return v.k
    if isinstance(v, bool):
        return 'bool'
    if isinstance(v, int):
        return 'int'
    return 'real'


def sym_arith(it, op, a, b):
    ka, kb = _kind(a), _kind(b)
    real = 'real' in (ka, kb) or isinstance(op, ast.Div)
    if real:
        x, y = z3real(a), z3real(b)
        if isinstance(op, ast.Add):
            return Sym(x + y, 'real')
        if isinstance(op, ast.Sub):
            return Sym(x - y, 'real')
        if isinstance(op, ast.Mult):
            return Sym(x * y, 'real')
        if isinstance(op, ast.Div):
            if it.ctx.branch(y == 0):
                it.throw('ZeroDivisionError', 'division by zero')
            return Sym(x / y, 'real')
        raise Unsupported(f'real op {type(op).__name__}')
    x, y = z3int(a), z3int(b)
    if isinstance(op, ast.Add):
        return sym_int(x + y)
    if isinstance(op, ast.Sub):
        return sym_int(x - y)
    if isinstance(op, ast.Mult):
        return sym_int(x * y)
    if isinstance(op, (ast.FloorDiv, ast.Mod)):
        if it.ctx.branch(y == 0):
            it.throw('ZeroDivisionError', 'integer division or modulo by zero')
        # a divisor that is provably one constant is replaced by it (keeps the query linear)
        if not z3.is_int_value(y):
            mdl = it.ctx._model_of_pc()
            if mdl is not None:
                try:
                    s_ = z3.Solver()
                    s_.add(*it.ctx.pc)
                    if s_.check() == z3.sat:
                        yv = s_.model().eval(y, model_completion=True)
                        if z3.is_int_value(yv) and it.ctx.valid(y == yv):
                            y = yv
                except z3.Z3Exception:
                    pass
        if not z3.is_int_value(y) and it.ctx.valid(z3.And(x >= 0, x < y)):
            return sym_int(x) if isinstance(op, ast.Mod) else 0
        # Python floor semantics; z3 div/mod are Euclidean: identical for y > 0
        if it.ctx.valid(y > 0):
            return sym_int(x / y) if isinstance(op, ast.FloorDiv) else sym_int(x % y)
        q = z3.If(y > 0, x / y, -((-x) / (-y)) if False else z3.If(x % y == 0, x / y, x / y + z3.If(y < 0, 1, 0) - 1 + 1 - 1))
        raise Unsupported('floor division by possibly negative symbolic divisor')
    if isinstance(op, (ast.BitAnd, ast.BitOr, ast.BitXor, ast.LShift, ast.RShift)):
        return bit_arith(it, op, a, b, x, y)
    if isinstance(op, ast.Pow):
        if isinstance(b, int) and 0 <= b <= 4:
            r = z3.IntVal(1)
            for _ in range(b):
                r = r * x
            return sym_int(r)
    raise Unsupported(f'int op {type(op).__name__}')


BV_WIDTH = 72   # enough for (uint32 << 32) and uint64 values


def bit_arith(it, op, a, b, x, y):
    """Bit operations on non-negative ints via bit-vectors of BV_WIDTH bits.
    Operands must be provably within [0, 2^64); the result of << must fit BV_WIDTH."""
    ctx = it.ctx
    lim = 1 << 64
    if bv_backing(x) is not None or bv_backing(y) is not None:
        r = bv_domain_op(it, op, a, b, x, y)
        if r is not None:
            return r
    if isinstance(op, (ast.LShift, ast.RShift)):
        if not ctx.valid(z3.And(x >= 0, x < lim, y >= 0, y <= 64)):
            raise Unsupported('shift operands out of the modelled range')
        if isinstance(b, int):
            if isinstance(op, ast.LShift):
                return sym_int(x * (1 << b))
            return sym_int(x / (1 << b))
        w = 136
        r = (z3.Int2BV(x, w) << z3.Int2BV(y, w)) if isinstance(op, ast.LShift) else z3.LShR(z3.Int2BV(x, w), z3.Int2BV(y, w))
        return sym_int(z3.BV2Int(r))
    # & | ^
    if isinstance(op, ast.BitAnd):
        # x & (2^k - 1) == x mod 2^k for x >= 0
        for (s, c, cc) in ((x, b, y), (y, a, x)):
            if isinstance(c, int) and c >= 0 and (c & (c + 1)) == 0 and ctx.valid(s >= 0):
                return sym_int(s % (c + 1))
    if not ctx.valid(z3.And(x >= 0, y >= 0, x < (1 << BV_WIDTH), y < (1 << BV_WIDTH))):
        raise Unsupported('bit operation on possibly negative / too large ints')
    bx, by = z3.Int2BV(x, BV_WIDTH), z3.Int2BV(y, BV_WIDTH)
    r = {ast.BitAnd: bx & by, ast.BitOr: bx | by, ast.BitXor: bx ^ by}[type(op)]
    return sym_int(z3.BV2Int(r))


def bv_domain_op(it, op, a, b, x, y):
    """Bit operation when an operand is bit-vector backed (BV2Int(e)); other operand: such a term or a
    non-negative constant.  Result width grows for << so no bits are lost (Python ints do not wrap)."""
    def width(t, c):
        bk = bv_backing(t)
        if bk is not None:
            return bk.size()
        if isinstance(c, int) and not isinstance(c, bool) and c >= 0:
            return max(1, c.bit_length())
        return None
    wx, wy = width(x, a), width(y, b)
    if wx is None or wy is None:
        return None
    if isinstance(op, ast.LShift):
        if not isinstance(b, int) or b < 0 or b > 64:
            return None
        w = wx + b
        return Sym(z3.BV2Int(z3.simplify(bv_of_int(x, w) << b)), 'int')
    if isinstance(op, ast.RShift):
        if not isinstance(b, int) or b < 0:
            return None
        return Sym(z3.BV2Int(z3.simplify(z3.LShR(bv_of_int(x, wx), min(b, wx)) if b < wx else z3.BitVecVal(0, wx))), 'int')
    w = max(wx, wy)
    bx, by = bv_of_int(x, w), bv_of_int(y, w)
    if isinstance(op, ast.BitAnd):
        r = bx & by
        # narrow to the constant mask width (x & 0xFFFFFFFF fits 32 bits)
        for c, cw in ((a, wx), (b, wy)):
            if isinstance(c, int) and c >= 0 and c.bit_length() < w:
                r = z3.Extract(max(1, c.bit_length()) - 1, 0, r)
                break
    elif isinstance(op, ast.BitOr):
        r = bx | by
    elif isinstance(op, ast.BitXor):
        r = bx ^ by
    else:
        return None
    return Sym(z3.BV2Int(z3.simplify(r)), 'int')


def flag_binop(it, op, a, b):
    def bits(v):
        if isinstance(v, EnumMember):
            return v.value, v.cls
        if isinstance(v, Sym) and v.k == 'enum':
            return v.t, v.enum
        raise Unsupported(f'flag op on {v!r}')
    (x, ca), (y, cb) = bits(a), bits(b)
    cls = ca
    if not getattr(cls, 'is_flag', False):
        raise Unsupported('binary op on non-flag enum')
    nbits = len(cls.enum_members)
    bx = z3.Int2BV(x, nbits) if z3.is_expr(x) else z3.BitVecVal(x, nbits)
    by = z3.Int2BV(y, nbits) if z3.is_expr(y) else z3.BitVecVal(y, nbits)
    r = {ast.BitAnd: lambda: bx & by, ast.BitOr: lambda: bx | by, ast.BitXor: lambda: bx ^ by}.get(type(op))
    if r is None:
        raise Unsupported('flag operator')
    return Sym(z3.BV2Int(r()), 'enum', cls)


def _eq(it, a, b):
    """Python == as python bool or z3 Bool."""
    if hasattr(a, 'pyvc_eq'):
        r = a.pyvc_eq(it, b)
        if r is not NotImplemented:
            return r
    if hasattr(b, 'pyvc_eq'):
        r = b.pyvc_eq(it, a)
        if r is not NotImplemented:
            return r
    a, b = unbox(a), unbox(b)
    if a is b:
        if isinstance(a, float) and a != a:
            return False
        return True
    if isinstance(a, Sym) or isinstance(b, Sym):
        s, o = (a, b) if isinstance(a, Sym) else (b, a)
        if s.k == 'enum':
            if isinstance(o, EnumMember):
                if o.cls is not s.enum:
                    return False
                return s.t == (o.value if getattr(o.cls, 'is_flag', False) else o.index)
            if isinstance(o, Sym) and o.k == 'enum':
                return s.t == o.t if s.enum is o.enum else False
            return False
        if s.k in ('int', 'bool', 'real'):
            if isinstance(o, (Sym,)) and o.k in ('int', 'bool', 'real') or isinstance(o, (int, float)):
                if s.k == 'real' or _kind(o) == 'real':
                    return z3real(s) == z3real(o)
                if s.k == 'bool' and _kind(o) == 'bool':
                    return s.t == (o.t if isinstance(o, Sym) else z3.BoolVal(o))
                return z3int(s) == z3int(o)
            return False
        if s.k == 'str':
            if _is_strlike(o):
                return s.t == z3str(o)
            return False
        if s.k == 'ustr':
            if isinstance(o, Sym) and o.k == 'ustr':
                return s.t == o.t
            if isinstance(o, str) or (isinstance(o, Sym) and o.k == 'str'):
                raise Unsupported('comparison of an uninterpreted string with an interpreted one')
            return False
    if isinstance(a, EnumMember) or isinstance(b, EnumMember):
        if isinstance(a, EnumMember) and isinstance(b, EnumMember):
            return a.cls is b.cls and a.value == b.value
        return False
    if _is_byteslike(a) and _is_byteslike(b):
        ra, rb = to_rope(it, a), to_rope(it, b)
        ca, cb = ra.concrete(), rb.concrete()
        if ca is not None and cb is not None:
            return ca == cb
        from .rope import rope_equal
        ok, _ = rope_equal(it.ctx, ra, rb)
        if ok:
            return True
        raise Unsupported('equality of symbolic byte strings not provable')
    if isinstance(a, (tuple, list)) and type(a) == type(b):
        if len(a) != len(b):
            return False
        conj = []
        for x, y in zip(a, b):
            e = _eq(it, x, y)
            if e is False:
                return False
            if e is not True:
                conj.append(e)
        return z3.And(*conj) if conj else True
    if isinstance(a, Obj) and isinstance(b, Obj):
        try:
            it.class_attr_raw(a.cls, '__eq__')
            return it.truth(it.call(it.getattr(a, '__eq__'), [b], {}))
        except KeyError:
            pass
        if a.cls.is_dataclass and a.cls is b.cls and a.cls.dc_params.get('eq', True):
            conj = []
            for f in it.dataclass_fields(a.cls):
                e = _eq(it, it.getattr(a, f.name), it.getattr(b, f.name))
                if e is False:
                    return False
                if e is not True:
                    conj.append(e)
            return z3.And(*conj) if conj else True
        return a is b
    if isinstance(a, (Obj, ClassVal, BuiltinClass, PyFunc, ExcVal)) or isinstance(b, (Obj, ClassVal, BuiltinClass, PyFunc, ExcVal)):
        return a is b
    if isinstance(a, Bound) and isinstance(b, Bound):
        return a.func is b.func and a.self_val is b.self_val
    if isinstance(a, (Opaque,)) or isinstance(b, (Opaque,)):
        if a is b:
            return True
        raise Unsupported('== on opaque value')
    if a is None or b is None:
        return a is b
    try:
        return a == b
    except Exception:
        raise Unsupported(f'== on {a!r}, {b!r}')


def compare(it, op, a, b):
    if isinstance(op, ast.Eq):
        return sym_bool(_eq(it, a, b))
    if isinstance(op, ast.NotEq):
        e = _eq(it, a, b)
        return (not e) if isinstance(e, bool) else sym_bool(z3.Not(e))
    if isinstance(op, (ast.Is, ast.IsNot)):
        r = _is(it, a, b)
        if isinstance(op, ast.IsNot):
            r = (not r) if isinstance(r, bool) else z3.Not(r)
        return sym_bool(r)
    if isinstance(op, (ast.In, ast.NotIn)):
        r = contains(it, b, a)
        if isinstance(op, ast.NotIn):
            r = (not r) if isinstance(r, bool) else z3.Not(r)
        return sym_bool(r)
    if hasattr(a, 'pyvc_cmp'):
        r = a.pyvc_cmp(it, op, b)
        if r is not NotImplemented:
            return r
    a, b = unbox(a), unbox(b)
    f = {ast.Lt: operator.lt, ast.LtE: operator.le, ast.Gt: operator.gt, ast.GtE: operator.ge}[type(op)]
    if _is_num(a) and _is_num(b):
        if not isinstance(a, Sym) and not isinstance(b, Sym):
            return f(a, b)
        if 'real' in (_kind(a), _kind(b)):
            return sym_bool(f(z3real(a), z3real(b)))
        return sym_bool(f(z3int(a), z3int(b)))
    if isinstance(a, (str, bytes, tuple, list)) and type(a) == type(b):
        try:
            return f(a, b)
        except TypeError:
            pass
    if a is None or b is None:
        it.throw('TypeError', 'ordering comparison with None')
    raise Unsupported(f'comparison {type(op).__name__} on {a!r}, {b!r}')


def _is(it, a, b):
    if hasattr(a, 'pyvc_is'):
        r = a.pyvc_is(it, b)
        if r is not NotImplemented:
            return r
    if hasattr(b, 'pyvc_is'):
        r = b.pyvc_is(it, a)
        if r is not NotImplemented:
            return r
    if a is None or b is None:
        if a is None and b is None:
            return True
        other = b if a is None else a
        return False if other is not None else True
    if isinstance(a, Sym) and a.k == 'enum' or isinstance(b, Sym) and b.k == 'enum':
        return _eq(it, a, b)
    if isinstance(a, Sym) and a.k == 'bool' or isinstance(b, Sym) and b.k == 'bool':
        s, o = (a, b) if isinstance(a, Sym) else (b, a)
        if isinstance(o, bool) or (isinstance(o, Sym) and o.k == 'bool'):
            return _eq(it, s, o)
        return False
    if isinstance(a, EnumMember) and isinstance(b, EnumMember):
        return a.cls is b.cls and a.value == b.value
    if isinstance(a, bool) and isinstance(b, bool):
        return a == b
    if isinstance(a, (Sym, Rope)) or isinstance(b, (Sym, Rope)):
        raise Unsupported(f'`is` on value types {a!r}, {b!r}')
    return a is b


def contains(it, container, item):
    if hasattr(container, 'pyvc_contains'):
        return container.pyvc_contains(it, item)
    c = unbox(container)
    if isinstance(c, dict):
        item = unbox(item)
        if isinstance(item, Sym):
            disj = []
            for k in c:
                e = _eq(it, k, item)
                if e is True:
                    return True
                if e is not False:
                    disj.append(e)
            return z3.Or(*disj) if disj else False
        try:
            return item in c
        except TypeError:
            raise Unsupported('unhashable dict key')
    if isinstance(c, (list, tuple, set, frozenset)):
        disj = []
        for x in c:
            e = _eq(it, x, item)
            if e is True:
                return True
            if e is not False:
                disj.append(e)
        return z3.Or(*disj) if disj else False
    if _is_strlike(c):
        item = unbox(item)
        if isinstance(c, str) and isinstance(item, str):
            return item in c
        return z3.Contains(z3str(c), z3str(item))
    from .interp import DictView
    if isinstance(c, DictView):
        return item in c.obj.attrs
    # enum.Flag containment: `member in flags` <=> every bit of member is set in flags
    ci, ii = unbox(item), c
    if isinstance(ii, EnumMember) and isinstance(ci, EnumMember) and isinstance(ii.value, int) and isinstance(ci.value, int) and ii.cls is ci.cls:
        return (ci.value & ii.value) == ci.value
    raise Unsupported(f'`in` on {container!r}')


# ---------------------------------------------------------------------------
# subscripts / iteration

def _concrete_index(it, idx):
    idx = unbox(idx)
    if isinstance(idx, bool):
        return int(idx)
    if isinstance(idx, int):
        return idx
    return None


def getitem(it, o, idx):
    from .interp import SliceVal, DictView
    if hasattr(o, 'pyvc_getitem'):
        return o.pyvc_getitem(it, idx)
    o = unbox(o) if not isinstance(o, Boxed) or not isinstance(o.val, list) else o.val
    if isinstance(o, dict):
        k = unbox(idx)
        if isinstance(k, Sym):
            for key, val in o.items():
                e = _eq(it, key, k)
                if e is True or (e is not False and it.ctx.branch(e)):
                    return val
            it.throw('KeyError', idx)
        try:
            if k in o:
                return o[k]
        except TypeError:
            raise Unsupported('unhashable key')
        it.throw('KeyError', idx)
    if isinstance(o, DictView):
        if idx in o.obj.attrs:
            return o.obj.attrs[idx]
        it.throw('KeyError', idx)
    if isinstance(o, (list, tuple, str)):
        if isinstance(idx, SliceVal):
            lo, hi, st = (_concrete_index(it, x) if x is not None else None for x in (idx.lo, idx.hi, idx.step))
            if any(x is None and y is not None for x, y in ((lo, idx.lo), (hi, idx.hi), (st, idx.step))):
                if isinstance(o, (list, tuple)) and idx.lo is None and idx.step is None and is_sym(idx.hi):
                    # xs[:k] with symbolic k: case split on the clamped value of k
                    kt = z3int(idx.hi)
                    if it.ctx.branch(kt < 0):
                        raise Unsupported('negative symbolic slice bound')
                    for c in range(len(o)):
                        if it.ctx.branch(kt == c):
                            return o[:c]
                    return o[:]
                raise Unsupported('symbolic slice of concrete sequence')
            return o[lo:hi:st]
        i = _concrete_index(it, idx)
        if i is None:
            if isinstance(o, (list, tuple)) and is_sym(idx):
                # case split over the (concrete) positions
                n = len(o)
                x = z3int(idx)
                for j in range(n):
                    if it.ctx.branch(z3.Or(x == j, x == j - n)):
                        return o[j]
                it.throw('IndexError', 'index out of range')
            raise Unsupported(f'symbolic index into {type(o).__name__}')
        try:
            return o[i]
        except IndexError:
            it.throw('IndexError', 'index out of range')
    if isinstance(o, (Rope, ByteArr, bytes)):
        r = to_rope(it, o)
        if isinstance(idx, SliceVal):
            return rope_slice(it, r, idx)
        return rope_index(it, r, idx)
    if isinstance(o, Sym) and o.k == 'str':
        if isinstance(idx, SliceVal):
            if idx.step is not None:
                raise Unsupported('str slice step')
            n = z3.Length(o.t)

            def norm(v, default):
                if v is None:
                    return default
                t = z3int(v)
                return z3.If(t < 0, z3.If(n + t < 0, z3.IntVal(0), n + t), z3.If(t > n, n, t))
            lo, hi = norm(idx.lo, z3.IntVal(0)), norm(idx.hi, n)
            return Sym(z3.SubString(o.t, lo, z3.If(hi - lo < 0, z3.IntVal(0), hi - lo)), 'str')
        t = z3int(idx)
        n = z3.Length(o.t)
        if not it.ctx.branch(z3.And(t >= -n, t < n)):
            it.throw('IndexError', 'string index out of range')
        return Sym(z3.SubString(o.t, z3.If(t < 0, n + t, t), 1), 'str')
    if isinstance(o, ClassVal) and o.enum_members is not None:
        for m in o.enum_members:
            if m.name == idx:
                return m
        it.throw('KeyError', idx)
    raise Unsupported(f'subscript of {o!r}')


def rope_index(it, r: Rope, idx):
    """data[i] -> int 0..255"""
    c = r.concrete()
    i = _concrete_index(it, idx)
    if c is not None and i is not None:
        try:
            return c[i]
        except IndexError:
            it.throw('IndexError', 'index out of range')
    n = r.length()
    t = z3int(idx)
    if not it.ctx.branch(z3.And(t >= -n, t < n)):
        it.throw('IndexError', 'index out of range')
    if len(r.segs) == 1 and isinstance(r.segs[0], BVSeg) and it.ctx.valid(t >= 0):
        return Sym(z3.BV2Int(r.segs[0].byte(t)), 'int')
    if any(isinstance(s, (BVSeg, LE)) for s in r.segs) and it.ctx.valid(t >= 0):
        bs = rope_bytes_bv(it.ctx, r)
        if bs is not None and len(bs) <= 16:
            e = bs[-1]
            for k in range(len(bs) - 2, -1, -1):
                e = z3.If(t == k, bs[k], e)
            return Sym(z3.BV2Int(e), 'int')
    # aligned literal byte?
    if it.ctx.valid(t >= 0):
        loc = r.locate(it.ctx, t)
        if loc is not None:
            si, d = loc
            if si < len(r.segs) and isinstance(r.segs[si], Lit) and d < len(r.segs[si].data):
                return r.segs[si].data[d]
    v = it.ctx.fresh_int('byte')
    it.ctx.assume(z3.And(v >= 0, v <= 255))
    return Sym(v, 'int')


def _clamp(t, n):
    """Python slice bound normalisation for bound t on a sequence of length n."""
    return z3.If(t < 0, z3.If(n + t < 0, z3.IntVal(0), n + t), z3.If(t > n, n, t))


def rope_slice(it, r: Rope, sl) -> Rope:
    if sl.step is not None:
        raise Unsupported('bytes slice with step')
    c = r.concrete()
    lo_c = _concrete_index(it, sl.lo) if sl.lo is not None else None
    hi_c = _concrete_index(it, sl.hi) if sl.hi is not None else None
    if c is not None and (sl.lo is None or lo_c is not None) and (sl.hi is None or hi_c is not None):
        return Rope.lit(c[lo_c:hi_c])
    ctx = it.ctx
    n = r.length()
    lo = _clamp(z3int(sl.lo), n) if sl.lo is not None else z3.IntVal(0)
    hi = _clamp(z3int(sl.hi), n) if sl.hi is not None else n
    lo = z3.simplify(lo)
    hi = z3.simplify(hi)
    # Try exact alignment: decide ordering facts by proof, else fork on them.
    # (the forks are on the *clamping* conditions, which are the natural case split of slicing)
    if sl.lo is not None:
        t = z3int(sl.lo)
        if not ctx.valid(z3.And(t >= 0, t <= n)):
            if ctx.branch(t < 0):
                raise Unsupported('negative symbolic slice bound')
            if ctx.branch(t > n):
                return Rope()
        lo = t
    if sl.hi is not None:
        t = z3int(sl.hi)
        if not ctx.valid(z3.And(t >= 0, t <= n)):
            if ctx.branch(t < 0):
                raise Unsupported('negative symbolic slice bound')
            if ctx.branch(t > n):
                t = n
        hi = t
    if not ctx.valid(lo <= hi):
        if ctx.branch(lo > hi):
            return Rope()
    a = r.split_at(ctx, lo)
    if a is not None:
        _, rest = a
        b = rest.split_at(ctx, z3.simplify(hi - lo))
        if b is not None:
            return b[0]
    # unaligned: opaque sub-blob of the right length
    key = ('slice', ctx.fresh_name('sub'))
    return Rope([Blob(key, z3.simplify(hi - lo))])


def setitem(it, o, idx, v):
    if it.write_log is not None:
        it.write_log.append((o, '[]'))
    if hasattr(o, 'pyvc_setitem'):
        return o.pyvc_setitem(it, idx, v)
    from .interp import DictView
    if isinstance(o, DictView):
        return it.setattr(o.obj, idx, v)
    if isinstance(o, dict):
        o[it.hashable(idx)] = v
        return
    if isinstance(o, ByteArr):
        r = o.rope
        if len(r.segs) == 1 and isinstance(r.segs[0], BVSeg):
            seg = r.segs[0]
            t = z3int(idx)
            if not it.ctx.branch(z3.And(t >= 0, t < seg.ln)):
                if it.ctx.branch(t < 0):
                    raise Unsupported('negative index store')
                it.throw('IndexError', 'bytearray index out of range')
            vt = z3int(v)
            bk = bv_backing(vt)
            if not (bk is not None and bk.size() <= 8) and not it.ctx.branch(z3.And(vt >= 0, vt <= 255)):
                it.throw('ValueError', 'byte must be in range(0, 256)')
            o.rope = Rope([BVSeg(z3.Store(seg.arr, z3.simplify(seg.off + t), bv_of_int(vt, 8)), seg.off, seg.ln)])
            return
        raise Unsupported('item assignment on structured bytearray')
    if isinstance(o, list):
        i = _concrete_index(it, idx)
        if i is None:
            raise Unsupported('symbolic list index store')
        try:
            o[i] = v
        except IndexError:
            it.throw('IndexError', 'list assignment index out of range')
        return
    raise Unsupported(f'item assignment on {o!r}')


def delitem(it, o, idx):
    if it.write_log is not None:
        it.write_log.append((o, '[]'))
    if hasattr(o, 'pyvc_delitem'):
        return o.pyvc_delitem(it, idx)
    from .interp import DictView
    if isinstance(o, DictView):
        if idx in o.obj.attrs:
            del o.obj.attrs[idx]
            if it.write_log is not None:
                it.write_log.append((o.obj, idx))
            return
        it.throw('KeyError', idx)
    if isinstance(o, dict):
        k = unbox(idx)
        if isinstance(k, Sym):
            for key in list(o):
                e = _eq(it, key, k)
                if e is True or (e is not False and it.ctx.branch(e)):
                    del o[key]
                    return
            it.throw('KeyError', idx)
        if k in o:
            del o[k]
            return
        it.throw('KeyError', idx)
    if isinstance(o, list):
        i = _concrete_index(it, idx)
        if i is None:
            raise Unsupported('symbolic del index')
        try:
            del o[i]
        except IndexError:
            it.throw('IndexError', 'index out of range')
        return
    raise Unsupported(f'del item on {o!r}')


class Reversed:
    def __init__(self, v):
        self.v = v

    def to_rope(self, it) -> Rope:
        r = to_rope(it, self.v)
        c = r.concrete()
        if c is not None:
            return Rope.lit(bytes(reversed(c)))
        if len(r.segs) == 1 and isinstance(r.segs[0], Blob):
            s = r.segs[0]
            k = s.key
            if isinstance(k, tuple) and k and k[0] == 'rev':
                return Rope([Blob(k[1], s.ln)]) if not isinstance(k[1], Rope) else k[1]
            return Rope([Blob(('rev', k), s.ln)])
        raise Unsupported('reversed() of structured bytes')


def iterate(it, v, loop=None) -> list:
    from .interp import DictView
    if hasattr(v, 'pyvc_iter'):
        return v.pyvc_iter(it, loop)
    if isinstance(v, Boxed):
        v = v.val
    if isinstance(v, (list, tuple)):
        return list(v)
    if isinstance(v, dict):
        return list(v.keys())
    if isinstance(v, (set, frozenset)):
        try:
            return sorted(v, key=repr)
        except Exception:
            return list(v)
    if isinstance(v, str):
        return list(v)
    if isinstance(v, range):
        return list(v)
    if isinstance(v, Reversed):
        inner = v.v
        if isinstance(inner, (list, tuple)):
            return list(reversed(inner))
        r = v.to_rope(it)
        c = r.concrete()
        if c is not None:
            return list(c)
        raise Unsupported('iteration over symbolic reversed bytes')
    if isinstance(v, (Rope, ByteArr, bytes)):
        c = to_rope(it, v).concrete()
        if c is not None:
            return list(c)
        raise Unsupported('iteration over symbolic bytes (needs a loop contract)')
    if isinstance(v, ClassVal) and v.enum_members is not None:
        return list(v.enum_members)
    if isinstance(v, DictView):
        return list(v.obj.attrs.keys())
    raise Unsupported(f'iteration over {v!r}')


# ---------------------------------------------------------------------------
# struct (A-struct)

_FMT = {'B': (1, False), 'H': (2, False), 'I': (4, False), 'L': (4, False), 'Q': (8, False),
        'b': (1, True), 'h': (2, True), 'i': (4, True), 'l': (4, True), 'q': (8, True), '?': (1, False)}


class StructVal:
    """struct.Struct(fmt) -- extern contract A-struct: little-endian standard sizes only."""

    def __init__(self, fmt: str):
        self.fmt = fmt
        if not fmt or fmt[0] not in '<':
            raise Unsupported(f'struct format {fmt!r}: only little-endian standard formats are modelled')
        self.items = []
        body = fmt[1:]
        i = 0
        while i < len(body):
            cnt = ''
            while body[i].isdigit():
                cnt += body[i]
                i += 1
            ch = body[i]
            i += 1
            if ch == 's':
                self.items.append(('s', int(cnt or '1')))
            elif ch == 'x':
                self.items.append(('x', int(cnt or '1')))
            elif ch in _FMT:
                for _ in range(int(cnt or '1')):
                    self.items.append((ch,) + _FMT[ch])
            else:
                raise Unsupported(f'struct format char {ch!r}')
        self.size = sum(x[1] for x in self.items)
        assert self.size == _struct.calcsize(fmt)

    def pyvc_getattr(self, it, name):
        if name == 'size':
            return self.size
        if name == 'pack':
            return Native('Struct.pack', lambda it2, a, k: self.pack(it2, a))
        if name == 'unpack_from':
            return Native('Struct.unpack_from', lambda it2, a, k: self.unpack_from(it2, a[0], k.get('offset', a[1] if len(a) > 1 else 0)))
        if name == 'unpack':
            return Native('Struct.unpack', lambda it2, a, k: self.unpack(it2, a[0]))
        raise Unsupported(f'Struct.{name}')

    def pack(self, it, args):
        _used('struct.Struct.pack')
        if len(args) != len([x for x in self.items if x[0] != 'x']):
            it.throw('struct.error', f'pack expected {len(self.items)} items')
        segs = []
        args = list(args)
        for item in self.items:
            if item[0] == 'x':          # pad bytes: zeros, no argument
                segs.append(Lit(b'\x00' * item[1]))
                continue
            v = unbox(args.pop(0))
            if item[0] == 's':
                r = to_rope(it, v)
                if not it.ctx.valid(r.length() == item[1]):
                    raise Unsupported("'s' pack with length != count")
                segs.extend(r.segs)
                continue
            ch, w, signed = item
            if ch == '?':
                t = it.truth(v)
                if isinstance(t, bool):
                    segs.append(Lit(b'\x01' if t else b'\x00'))
                else:
                    segs.append(LE(1, z3.If(t, z3.IntVal(1), z3.IntVal(0))))
                continue
            if v is None or isinstance(v, (str, float, Rope)) or (isinstance(v, Sym) and v.k not in ('int', 'bool')):
                it.throw('struct.error', 'required argument is not an integer')
            if isinstance(v, EnumMember):
                it.throw('struct.error', 'required argument is not an integer')
            lo, hi = (-(1 << (8 * w - 1)), (1 << (8 * w - 1)) - 1) if signed else (0, (1 << (8 * w)) - 1)
            if isinstance(v, (int, bool)):
                if not (lo <= int(v) <= hi):
                    it.throw('struct.error', 'argument out of range')
                segs.append(Lit(int(v).to_bytes(w, 'little', signed=signed)))
            else:
                t = z3int(v)
                if not it.ctx.branch(z3.And(t >= lo, t <= hi)):
                    it.throw('struct.error', 'argument out of range')
                segs.append(LE(w, t, signed))
        return Rope(segs)

    def unpack_from(self, it, data, offset):
        _used('struct.Struct.unpack_from')
        r = to_rope(it, data)
        off = unbox(offset)
        n = r.length()
        ot = z3int(off)
        if not it.ctx.valid(ot >= 0):
            if it.ctx.branch(ot < 0):
                raise Unsupported('negative offset in unpack_from')
        if not it.ctx.branch(ot + self.size <= n):
            it.throw('struct.error', 'unpack_from requires a larger buffer')
        out = []
        pos = ot
        for item in self.items:
            if item[0] == 'x':          # pad bytes: skipped, no value
                pos = pos + item[1]
                continue
            if item[0] == 's':
                from .interp import SliceVal
                out.append(rope_slice(it, r, SliceVal(sym_int(pos), sym_int(pos + item[1]), None)))
                pos = pos + item[1]
                continue
            ch, w, signed = item
            out.append(read_int(it, r, z3.simplify(pos), w, signed, boolean=(ch == '?')))
            pos = pos + w
        return tuple(out)

    def unpack(self, it, data):
        _used('struct.Struct.unpack')
        r = to_rope(it, data)
        if not it.ctx.branch(r.length() == self.size):
            it.throw('struct.error', f'unpack requires a buffer of {self.size} bytes')
        return self.unpack_from(it, r, 0)


def read_int(it, r: Rope, pos, w: int, signed: bool, boolean: bool = False):
    """Decode a w-byte little-endian integer at offset pos of rope r (pos+w <= len proved by caller)."""
    ctx = it.ctx
    c = r.concrete()
    if c is not None and z3.is_int_value(pos):
        p = pos.as_long()
        v = int.from_bytes(c[p:p + w], 'little', signed=signed)
        return bool(v) if boolean else v
    loc = r.locate(ctx, pos)
    if loc is not None:
        si, d = loc
        if si < len(r.segs):
            s = r.segs[si]
            if isinstance(s, Lit) and len(s.data) - d >= w:
                v = int.from_bytes(s.data[d:d + w], 'little', signed=signed)
                return bool(v) if boolean else v
            if isinstance(s, LE) and d == 0:
                if s.w == w:
                    if s.signed == signed:
                        val = s.t
                    elif signed:     # written unsigned, read signed
                        val = z3.If(s.t >= (1 << (8 * w - 1)), s.t - (1 << (8 * w)), s.t)
                    else:            # written signed, read unsigned
                        val = z3.If(s.t < 0, s.t + (1 << (8 * w)), s.t)
                    if boolean:
                        return sym_bool(val != 0)
                    return sym_int(val)
                if s.w > w and not s.signed and not signed:
                    val = s.t % (1 << (8 * w))
                    return sym_bool(val != 0) if boolean else sym_int(val)
    v = ctx.fresh_int('rd')
    lo, hi = (-(1 << (8 * w - 1)), (1 << (8 * w - 1)) - 1) if signed else (0, (1 << (8 * w)) - 1)
    ctx.assume(z3.And(v >= lo, v <= hi))
    if boolean:
        return sym_bool(v != 0)
    return Sym(v, 'int')


# ---------------------------------------------------------------------------
# text codecs (A-utf8): utf8(s) is an injective function str -> bytes; decode
# of utf8(s) gives s; decode of arbitrary bytes may raise UnicodeDecodeError.

USTR = z3.DeclareSort('UStr')     # strings whose content never matters (wire codec proofs)


def utf8_len(s_term):
    if s_term.sort() == USTR:
        return z3.Function('utf8len_u', USTR, z3.IntSort())(s_term)
    return z3.Function('utf8len', z3.StringSort(), z3.IntSort())(s_term)


def str_encode(it, s, encoding='utf-8'):
    _used('str.encode')
    s = unbox(s)
    enc = unbox(encoding)
    if isinstance(s, str) and isinstance(enc, str):
        try:
            return Rope.lit(s.encode(enc))
        except UnicodeEncodeError:
            it.throw('UnicodeEncodeError', enc)
    if isinstance(s, Sym) and s.k == 'ustr':
        if enc not in ('utf-8', 'utf8'):
            raise Unsupported(f'symbolic encode with {enc!r}')
        ln = utf8_len(s.t)
        it.ctx.assume(ln >= 0)
        return Rope([Blob(('utf8', s.t), ln)])
    if isinstance(s, Sym) and s.k == 'str':
        if enc not in ('utf-8', 'utf8'):
            raise Unsupported(f'symbolic encode with {enc!r}')
        ln = utf8_len(s.t)
        it.ctx.assume(ln >= z3.Length(s.t))
        it.ctx.assume(ln <= 4 * z3.Length(s.t))
        # A-utf8: strings in the wire domain contain no lone surrogates, so encoding does not raise
        return Rope([Blob(('utf8', s.t), ln)])
    it.throw('AttributeError', 'encode')


def bytes_decode(it, b, encoding='utf-8', errors='strict'):
    _used('bytes.decode')
    r = to_rope(it, b)
    enc = unbox(encoding)
    c = r.concrete()
    if c is not None and isinstance(enc, str):
        try:
            return c.decode(enc)
        except UnicodeDecodeError:
            it.throw('UnicodeDecodeError', enc)
    if len(r.segs) == 1 and isinstance(r.segs[0], Blob) and isinstance(r.segs[0].key, tuple) \
            and r.segs[0].key[0] == 'utf8' and enc in ('utf-8', 'utf8'):
        t = r.segs[0].key[1]
        return Sym(t, 'ustr' if t.sort() == USTR else 'str')
    # arbitrary bytes: decoding may fail; on success the text is unconstrained
    ok = it.ctx.fresh_bool(f'decodes_{enc}')
    if it.ctx.branch(ok):
        s = it.ctx.fresh_str('decoded')
        if enc in ('cp1252', 'latin-1'):
            it.ctx.assume(z3.Length(s) == r.length())
        else:
            it.ctx.assume(z3.Length(s) <= r.length())
        return Sym(s, 'str')
    it.throw('UnicodeDecodeError', enc)


# ---------------------------------------------------------------------------
# builtin methods on builtin values

def builtin_method(it, obj, name):
    o = obj
    if isinstance(o, (Rope, bytes)):
        if name == 'decode':
            return Native('bytes.decode', lambda it2, a, k: bytes_decode(it2, o, *(a or [k.get('encoding', 'utf-8')])))
        if name == 'hex':
            c = to_rope(it, o).concrete()
            if c is not None:
                return Native('bytes.hex', lambda it2, a, k: c.hex())
    if isinstance(o, ByteArr):
        if name == 'extend':
            def ext(it2, a, k):
                add = to_rope(it2, a[0])
                if len(o.rope.segs) == 1 and isinstance(o.rope.segs[0], BVSeg):
                    bs = rope_bytes_bv(it2.ctx, add)
                    if bs is not None and len(bs) <= 16:
                        seg = o.rope.segs[0]
                        arr = seg.arr
                        for j, bj in enumerate(bs):
                            arr = z3.Store(arr, z3.simplify(seg.off + seg.ln + j), bj)
                        o.rope = Rope([BVSeg(arr, seg.off, z3.simplify(seg.ln + len(bs)))])
                        return
                o.rope = o.rope + add
            return Native('bytearray.extend', ext)
        if name == 'append':
            def app(it2, a, k):
                v = unbox(a[0])
                if isinstance(v, int):
                    if not 0 <= v <= 255:
                        it2.throw('ValueError', 'byte must be in range(0, 256)')
                    o.rope = o.rope + Rope.lit(bytes([v]))
                else:
                    t = z3int(v)
                    bk = bv_backing(t)
                    if not (bk is not None and bk.size() <= 8) and not it2.ctx.branch(z3.And(t >= 0, t <= 255)):
                        it2.throw('ValueError', 'byte must be in range(0, 256)')
                    if len(o.rope.segs) == 1 and isinstance(o.rope.segs[0], BVSeg):
                        seg = o.rope.segs[0]
                        o.rope = Rope([BVSeg(z3.Store(seg.arr, z3.simplify(seg.off + seg.ln), bv_of_int(t, 8)), seg.off,
                                             z3.simplify(seg.ln + 1))])
                    else:
                        o.rope = o.rope + Rope([LE(1, t)])
            return Native('bytearray.append', app)
        if name == 'decode':
            return Native('bytearray.decode', lambda it2, a, k: bytes_decode(it2, o, *(a or ['utf-8'])))
    if isinstance(o, Sym) and o.k == 'ustr':
        if name == 'encode':
            return Native('str.encode', lambda it2, a, k: str_encode(it2, o, *(a or [k.get('encoding', 'utf-8')])))
        raise Unsupported(f'str.{name} on an uninterpreted string')
    if _is_strlike(o):
        if name == 'encode':
            return Native('str.encode', lambda it2, a, k: str_encode(it2, o, *(a or [k.get('encoding', 'utf-8')])))
        from .strings import str_method
        return str_method(it, o, name)
    if isinstance(o, list):
        return list_method(it, o, name)
    from .interp import DictView
    if isinstance(o, DictView):
        if name == 'copy':
            return Native('__dict__.copy', lambda it2, a, k: dict(o.obj.attrs))
        if name == 'update':
            def upd(it2, a, k):
                for kk, v in (a[0].items() if a else []):
                    it2.setattr(o.obj, kk, v)
            return Native('__dict__.update', upd)
        return dict_method(it, o.obj.attrs, name)
    if isinstance(o, dict):
        return dict_method(it, o, name)
    if isinstance(o, (set,)):
        return set_method(it, o, name)
    if isinstance(o, tuple):
        if name == 'index':
            return Native('tuple.index', lambda it2, a, k: o.index(a[0]))
        if name == 'count':
            return Native('tuple.count', lambda it2, a, k: o.count(a[0]))
    if isinstance(o, int) and not isinstance(o, bool):
        if name == 'to_bytes':
            def tb(it2, a, k):
                ln = unbox(a[0]) if a else k.get('length', 1)
                order = unbox(a[1]) if len(a) > 1 else k.get('byteorder', 'big')
                try:
                    return Rope.lit(o.to_bytes(ln, order, signed=k.get('signed', False)))
                except OverflowError:
                    it2.throw('OverflowError', 'int too big to convert')
            return Native('int.to_bytes', tb)
        if name == 'bit_length':
            return Native('int.bit_length', lambda it2, a, k: o.bit_length())
    if isinstance(o, Sym) and o.k == 'int' and name == 'to_bytes':
        def tb(it2, a, k):
            ln = unbox(a[0]) if a else k.get('length', 1)
            order = unbox(a[1]) if len(a) > 1 else k.get('byteorder', 'big')
            if order != 'little' or not isinstance(ln, int):
                raise Unsupported('to_bytes big-endian/symbolic length')
            bk = bv_backing(o.t)
            if bk is not None:
                fits = True if bk.size() <= 8 * ln else (z3.Extract(bk.size() - 1, 8 * ln, bk) == 0)
                if not it2.ctx.branch(fits):
                    it2.throw('OverflowError', 'int too big to convert')
                return Rope([LE(ln, z3.BV2Int(bv_of_int(o.t, 8 * ln)))])
            if not it2.ctx.branch(z3.And(o.t >= 0, o.t < (1 << (8 * ln)))):
                it2.throw('OverflowError', 'int too big to convert')
            return Rope([LE(ln, o.t)])
        return Native('int.to_bytes', tb)
    if isinstance(o, Opaque):
        raise Unsupported(f'attribute {name} of opaque value ({o.why})')
    if isinstance(o, Sym) and o.k == 'enum':
        if name == 'name':
            return Sym(it.ctx.fresh_str('enumname'), 'str')
        if name == 'value':
            if getattr(o.enum, 'is_flag', False):
                return Sym(o.t, 'int')
            r = z3.IntVal(0)
            for m in o.enum.enum_members:
                if not isinstance(m.value, int):
                    raise Unsupported('non-int enum value')
                r = z3.If(o.t == m.index, z3.IntVal(m.value), r)
            return Sym(r, 'int')
    if obj is None:
        it.throw('AttributeError', f"'NoneType' object has no attribute {name!r}")
    raise Unsupported(f'attribute {name} of {obj!r}')


def list_method(it, o: list, name):
    def log():
        if it.write_log is not None:
            it.write_log.append((o, name))
    if name == 'append':
        return Native('list.append', lambda it2, a, k: (log(), o.append(a[0]))[1])
    if name == 'extend':
        return Native('list.extend', lambda it2, a, k: (log(), o.extend(it2.iterate(a[0])))[1])
    if name == 'insert':
        return Native('list.insert', lambda it2, a, k: (log(), o.insert(unbox(a[0]), a[1]))[1])
    if name == 'clear':
        return Native('list.clear', lambda it2, a, k: (log(), o.clear())[1])
    if name == 'copy':
        return Native('list.copy', lambda it2, a, k: list(o))
    if name == 'pop':
        def pop(it2, a, k):
            log()
            try:
                return o.pop(*[unbox(x) for x in a])
            except IndexError:
                it2.throw('IndexError', 'pop from empty list')
        return Native('list.pop', pop)
    if name in ('remove', 'index', 'count'):
        def find(it2, a, k):
            cnt = 0
            for i, x in enumerate(o):
                e = _eq(it2, x, a[0])
                if e is True or (e is not False and it2.ctx.branch(e)):
                    if name == 'remove':
                        log()
                        del o[i]
                        return None
                    if name == 'index':
                        return i
                    cnt += 1
            if name == 'count':
                return cnt
            it2.throw('ValueError', 'x not in list')
        return Native('list.' + name, find)
    if name == 'sort':
        def sort(it2, a, k):
            log()
            key = k.get('key')
            rev = k.get('reverse', False)
            keys = [it2.call(key, [x], {}) if key is not None else x for x in o]
            if any(isinstance(unbox(x), Sym) for kk in keys for x in (kk if isinstance(kk, tuple) else (kk,))):
                # stable insertion sort; every comparison of symbolic keys is a case split (A-sort: list.sort is stable)
                if rev:
                    raise Unsupported('reverse sort with symbolic keys')
                order = []
                for i in range(len(o)):
                    pos = len(order)
                    while pos > 0 and it2.decide(compare(it2, ast.Lt(), keys[i], keys[order[pos - 1]])):
                        pos -= 1
                    order.insert(pos, i)
                o[:] = [o[i] for i in order]
                return None
            order = sorted(range(len(o)), key=lambda i: keys[i], reverse=bool(rev))
            o[:] = [o[i] for i in order]
        return Native('list.sort', sort)
    if name == 'reverse':
        return Native('list.reverse', lambda it2, a, k: (log(), o.reverse())[1])
    raise Unsupported(f'list.{name}')


def dict_method(it, o: dict, name):
    def log():
        if it.write_log is not None:
            it.write_log.append((o, name))
    if name == 'get':
        def get(it2, a, k):
            try:
                return getitem(it2, o, a[0])
            except PyRaise as pr:
                if pr.exc.cls.name == 'KeyError':
                    return a[1] if len(a) > 1 else k.get('default')
                raise
        return Native('dict.get', get)
    if name == 'items':
        return Native('dict.items', lambda it2, a, k: [(kk, v) for kk, v in o.items()])
    if name == 'keys':
        return Native('dict.keys', lambda it2, a, k: KeysList(o.keys()))
    if name == 'values':
        return Native('dict.values', lambda it2, a, k: list(o.values()))
    if name == 'pop':
        def pop(it2, a, k):
            log()
            try:
                v = getitem(it2, o, a[0])
            except PyRaise as pr:
                if pr.exc.cls.name == 'KeyError' and len(a) > 1:
                    return a[1]
                raise
            delitem(it2, o, a[0])
            return v
        return Native('dict.pop', pop)
    if name == 'update':
        def upd(it2, a, k):
            log()
            if a:
                src = a[0]
                if isinstance(src, dict):
                    o.update(src)
                else:
                    for kk, v in it2.iterate(src):
                        o[it2.hashable(kk)] = v
            o.update(k)
        return Native('dict.update', upd)
    if name == 'setdefault':
        def sd(it2, a, k):
            kk = it2.hashable(a[0])
            if kk not in o:
                log()
                o[kk] = a[1] if len(a) > 1 else None
            return o[kk]
        return Native('dict.setdefault', sd)
    if name == 'clear':
        return Native('dict.clear', lambda it2, a, k: (log(), o.clear())[1])
    if name == 'copy':
        return Native('dict.copy', lambda it2, a, k: dict(o))
    raise Unsupported(f'dict.{name}')


class KeysList(list):
    """dict.keys(): a list (iteration order) that also supports the set operations of a keys view on concrete keys"""

    def pyvc_binop(self, it, op, other, reflected):
        import ast as _ast
        if not isinstance(other, (list, set, frozenset, tuple)):
            return NotImplemented
        a, b = (list(other), list(self)) if reflected else (list(self), list(other))
        try:
            if isinstance(op, _ast.Sub):
                return {x for x in a if x not in b}
            if isinstance(op, _ast.BitAnd):
                return {x for x in a if x in b}
            if isinstance(op, _ast.BitOr):
                return set(a) | set(b)
        except TypeError:
            return NotImplemented
        return NotImplemented


def set_method(it, o: set, name):
    def log():
        if it.write_log is not None:
            it.write_log.append((o, name))
    if name == 'add':
        return Native('set.add', lambda it2, a, k: (log(), o.add(it2.hashable(a[0])))[1])
    if name == 'discard':
        return Native('set.discard', lambda it2, a, k: (log(), o.discard(it2.hashable(a[0])))[1])
    if name == 'remove':
        def rm(it2, a, k):
            log()
            kk = it2.hashable(a[0])
            if kk not in o:
                it2.throw('KeyError', kk)
            o.remove(kk)
        return Native('set.remove', rm)
    if name == 'clear':
        return Native('set.clear', lambda it2, a, k: (log(), o.clear())[1])
    if name == 'pop':
        def pop(it2, a, k):
            if not o:
                it2.throw('KeyError', 'pop from an empty set')
            x = sorted(o, key=repr)[0]
            o.remove(x)
            return x
        return Native('set.pop', pop)
    if name == 'update':
        return Native('set.update', lambda it2, a, k: (log(), [o.update(it2.iterate(x)) for x in a])[1] and None)
    if name == 'copy':
        return Native('set.copy', lambda it2, a, k: set(o))
    if name in ('union', 'intersection', 'difference', 'issubset', 'issuperset', 'symmetric_difference'):
        def setop(it2, a, k):
            ov = getattr(it2, 'set_method_overrides', {}).get(name)
            if ov is not None:
                r = ov(it2, o, a, k)
                if r is not NotImplemented:
                    return r
            return getattr(o, name)(*[set(it2.iterate(x)) for x in a])
        return Native('set.' + name, setop)
    raise Unsupported(f'set.{name}')


# ---------------------------------------------------------------------------
# builtins

def _len(it, a, k):
    (v,) = a
    v = unbox(v)
    if hasattr(v, 'pyvc_len'):
        return v.pyvc_len(it)
    if isinstance(v, (list, tuple, dict, set, frozenset, str, bytes)):
        return len(v)
    if isinstance(v, (Rope, ByteArr)):
        return sym_int(to_rope(it, v).length())
    if isinstance(v, Sym) and v.k == 'str':
        return Sym(z3.Length(v.t), 'int')
    if isinstance(v, Obj):
        return it.call(it.getattr(v, '__len__'), [], {})
    it.throw('TypeError', f'object of type {type(v).__name__} has no len()')


def _isinstance(it, a, k):
    v, t = a
    if isinstance(t, tuple):
        rs = [_isinstance(it, [v, x], {}) for x in t]
        if any(r is True for r in rs):
            return True
        return False
    from .interp import TypingThing
    if isinstance(t, TypingThing):
        if t.name == 'Callable':
            return isinstance(v, (PyFunc, Bound, Native, ClassVal))
        raise Unsupported(f'isinstance with typing.{t.name}')
    if hasattr(v, 'pyvc_isinstance'):
        return v.pyvc_isinstance(it, t)
    t = it.as_class(t)
    if not isinstance(t, (ClassVal, BuiltinClass)):
        raise Unsupported(f'isinstance second arg {t!r}')
    if isinstance(v, (ClassVal, BuiltinClass)):
        return t.name in ('type', 'object')
    c = it.class_of(v)
    return it.is_subclass(c, t)


def _issubclass(it, a, k):
    c, t = a
    if isinstance(t, tuple):
        return any(_issubclass(it, [c, x], {}) for x in t)
    return it.is_subclass(c, t)


def _getattr(it, a, k):
    try:
        return it.getattr(a[0], unbox(a[1]))
    except PyRaise as pr:
        if pr.exc.cls.name == 'AttributeError' and len(a) > 2:
            return a[2]
        raise


def _hasattr(it, a, k):
    try:
        it.getattr(a[0], unbox(a[1]))
        return True
    except PyRaise as pr:
        if pr.exc.cls.name == 'AttributeError':
            return False
        raise


def _int(it, a, k):
    if not a:
        return 0
    v = unbox(a[0])
    if isinstance(v, Sym):
        if v.k == 'int':
            return v
        if v.k == 'bool':
            return Sym(z3int(v), 'int')
        if v.k == 'real':
            # int() truncates toward zero
            f = z3.ToInt(v.t)
            return Sym(z3.If(v.t >= 0, f, z3.If(z3.ToReal(f) == v.t, f, f + 1)), 'int')
        if v.k == 'str':
            from .strings import str_to_int
            return str_to_int(it, v)
    if isinstance(v, EnumMember):
        return v.value
    if isinstance(v, (int, float, str)):
        try:
            return int(v, *[unbox(x) for x in a[1:]]) if isinstance(v, str) else int(v)
        except ValueError:
            it.throw('ValueError', 'invalid literal for int()')
    if v is None:
        it.throw('TypeError', 'int() argument must be a string or a number')
    raise Unsupported(f'int({v!r})')


def _bool(it, a, k):
    if not a:
        return False
    return sym_bool(it.truth(a[0]))


def _str(it, a, k):
    if not a:
        return ''
    r = it.to_str(a[0])
    if r is None:
        v = unbox(a[0])
        if v is None or isinstance(v, (bool, tuple, list)):
            return str(v)
        return Sym(it.ctx.fresh_str('str'), 'str')
    return r


def _bytes(it, a, k):
    if not a:
        return Rope()
    v = unbox(a[0])
    if isinstance(v, int) and not isinstance(v, bool):
        return Rope.lit(bytes(v))
    return to_rope(it, v)


def _bytearray(it, a, k):
    if not a:
        return ByteArr()
    v = unbox(a[0])
    if isinstance(v, int):
        return ByteArr(Rope.lit(bytes(v)))
    return ByteArr(to_rope(it, v))


def _list(it, a, k):
    if not a:
        if getattr(it, 'sym_containers', False):
            from .symcoll import NameSetList
            return NameSetList.empty()
        return []
    if isinstance(a[0], SymList):
        return a[0]
    if hasattr(a[0], 'pyvc_tolist'):
        return a[0].pyvc_tolist(it)
    return list(it.iterate(a[0]))


def _tuple(it, a, k):
    return tuple(it.iterate(a[0])) if a else ()


def _set(it, a, k):
    if a and hasattr(a[0], 'pyvc_toset'):
        return a[0].pyvc_toset(it)
    if a and isinstance(a[0], SymRange):
        import z3 as _z3
        from .symcoll import SymSet
        r = a[0]
        if unbox(r.step) != 1:
            raise Unsupported('set(range) with a step')
        x = _z3.Int('x!range')
        return SymSet(_z3.Lambda([x], _z3.And(z3int(r.lo) <= x, x < z3int(r.hi))), _z3.IntSort())
    if getattr(it, 'sym_containers', False):
        from .symcoll import SymSet, to_symset
        import z3 as _z3
        return SymSet.empty() if not a else to_symset(it, a[0], _z3.StringSort()).copy()
    return set(it.hashable(x) for x in it.iterate(a[0])) if a else set()


def _dict(it, a, k):
    if not a and not k and getattr(it, 'sym_containers', False):
        from .symcoll import SymMap
        return SymMap.empty(it.ctx)
    d = {}
    if a:
        if isinstance(a[0], dict):
            d.update(a[0])
        else:
            for kk, v in it.iterate(a[0]):
                d[it.hashable(kk)] = v
    d.update(k)
    return d


def _float(it, a, k):
    if not a:
        return 0.0
    v = unbox(a[0])
    if isinstance(v, Sym):
        return Sym(z3real(v), 'real')
    return float(v)


def _range(it, a, k):
    vals = [unbox(x) for x in a]
    if all(isinstance(x, int) for x in vals):
        return range(*vals)
    return SymRange(*vals)


class SymRange:
    def __init__(self, *a):
        if len(a) == 1:
            self.lo, self.hi, self.step = 0, a[0], 1
        elif len(a) == 2:
            self.lo, self.hi, self.step = a[0], a[1], 1
        else:
            self.lo, self.hi, self.step = a

    def pyvc_iter(self, it, loop):
        raise Unsupported('loop over symbolic range needs a loop contract')


class SymEnumerate:
    def __init__(self, obj, start):
        self.obj = obj
        self.start = start

    def pyvc_iter(self, it, loop):
        raise Unsupported('enumerate over a symbolic sequence needs a loop contract')


def _enumerate(it, a, k):
    start = unbox(a[1]) if len(a) > 1 else k.get('start', 0)
    src = unbox(a[0])
    if isinstance(src, (Rope, ByteArr)) and to_rope(it, src).concrete() is None:
        return SymEnumerate(src, start)
    if isinstance(src, SymList):
        return SymEnumerate(src, start)
    return [(start + i, v) for i, v in enumerate(it.iterate(a[0]))]


def _zip(it, a, k):
    return list(zip(*[it.iterate(x) for x in a]))


def _minmax_symset(it, which, S):
    """min / max of a symbolic set of ints (extern contract): the result is a member and a bound; ValueError when empty."""
    import z3 as _z3
    from .symcoll import SymSet
    empty = S.term == _z3.EmptySet(S.sort)
    if it.ctx.branch(empty):
        it.throw('ValueError', f'{which}() arg is an empty sequence')
    m = it.ctx.fresh_int(which)
    x = _z3.Int('x!' + which)
    bound = (m <= x) if which == 'min' else (x <= m)
    it.ctx.assume(_z3.IsMember(m, S.term))
    it.ctx.assume(_z3.ForAll([x], _z3.Implies(_z3.IsMember(x, S.term), bound)))
    # a useful instance of the bound: the neighbour beyond the extremum is not a member
    it.ctx.assume(_z3.Not(_z3.IsMember(m - 1 if which == 'min' else m + 1, S.term)))
    return Sym(m, 'int')


def _minmax(which):
    def f(it, a, k):
        if len(a) == 1:
            from .symcoll import SymSet
            v = unbox(a[0])
            if isinstance(v, SymSet) and v.sort == z3.IntSort():
                return _minmax_symset(it, which, v)
            if hasattr(v, 'pyvc_minmax'):
                return v.pyvc_minmax(it, which)
        items = it.iterate(a[0]) if len(a) == 1 else list(a)
        key = k.get('key')
        if not items:
            if 'default' in k:
                return k['default']
            it.throw('ValueError', f'{which}() arg is an empty sequence')
        best = items[0]
        bk = it.call(key, [best], {}) if key else best
        for x in items[1:]:
            xk = it.call(key, [x], {}) if key else x
            c = compare(it, ast.Lt() if which == 'min' else ast.Gt(), xk, bk)
            if isinstance(c, bool):
                if c:
                    best, bk = x, xk
            else:
                if key is None and isinstance(unbox(x), (Sym, int, float)) and isinstance(unbox(best), (Sym, int, float)):
                    kind = 'real' if 'real' in (_kind(unbox(x)), _kind(unbox(best))) else 'int'
                    conv = z3real if kind == 'real' else z3int
                    best = Sym(z3.If(c.t, conv(x), conv(best)), kind)
                    bk = best
                elif it.ctx.branch(c.t):
                    best, bk = x, xk
        return best
    return f


def _sum(it, a, k):
    total = a[1] if len(a) > 1 else k.get('start', 0)
    for x in it.iterate(a[0]):
        total = binop(it, ast.Add(), total, x)
    return total


def _any(it, a, k):
    for x in it.iterate(a[0]):
        if it.decide(x):
            return True
    return False


def _all(it, a, k):
    for x in it.iterate(a[0]):
        if not it.decide(x):
            return False
    return True


def _sorted(it, a, k):
    items = list(it.iterate(a[0]))
    list_method(it, items, 'sort').fn(it, [], k)
    return items


def _reversed(it, a, k):
    return Reversed(a[0])


def _callable(it, a, k):
    v = a[0]
    if isinstance(v, (PyFunc, Bound, Native, ClassVal, BuiltinClass)):
        return True
    if isinstance(v, Obj):
        try:
            it.class_attr_raw(v.cls, '__call__')
            return True
        except KeyError:
            return False
    if hasattr(v, 'pyvc_call'):
        return True
    return False


def _type(it, a, k):
    if len(a) != 1:
        raise Unsupported('type() with 3 args')
    return it.class_of(a[0])


def _super(it, a, k):
    if len(a) == 2:
        return SuperVal(a[0], a[1])
    raise Unsupported('super() arity')


def _abs(it, a, k):
    v = unbox(a[0])
    if isinstance(v, Sym):
        return Sym(z3.If(v.t >= 0, v.t, -v.t), v.k)
    return abs(v)


def _divmod(it, a, k):
    return (binop(it, ast.FloorDiv(), a[0], a[1]), binop(it, ast.Mod(), a[0], a[1]))


def _round(it, a, k):
    v = unbox(a[0])
    if isinstance(v, Sym):
        raise Unsupported('round() of symbolic value')
    return round(v, *[unbox(x) for x in a[1:]])


def _id(it, a, k):
    return id(a[0])


def _next(it, a, k):
    v = a[0]
    if hasattr(v, 'pyvc_next'):
        return v.pyvc_next(it)
    if isinstance(v, list) and getattr(it, 'eager_generators', True):
        # generator expressions are evaluated eagerly to lists by this interpreter: next(<genexp>[, default]) takes the first element
        if v:
            return v[0]
        if len(a) > 1:
            return a[1]
        it.throw('StopIteration')
    raise Unsupported(f'next({v!r})')


def _iter(it, a, k):
    return ListIter(it.iterate(a[0]))


class ListIter:
    def __init__(self, items):
        self.items = list(items)
        self.i = 0

    def pyvc_next(self, it):
        if self.i >= len(self.items):
            it.throw('StopIteration')
        self.i += 1
        return self.items[self.i - 1]

    def pyvc_iter(self, it, loop):
        rest = self.items[self.i:]
        self.i = len(self.items)
        return rest


def _print(it, a, k):
    return None


def _repr(it, a, k):
    v = unbox(a[0])
    if isinstance(v, (int, str, float, bytes, type(None))) and not isinstance(v, Sym):
        return repr(v)
    return Sym(it.ctx.fresh_str('repr'), 'str')


def _hash(it, a, k):
    return Sym(it.ctx.fresh_int('hash'), 'int')


def _object_new(it, a, k):
    cls = a[0]
    return Obj(cls)


def _object_setattr(it, a, k):
    o, n, v = a
    if isinstance(o, Obj):
        o.attrs[unbox(n)] = v
        if it.write_log is not None:
            it.write_log.append((o, unbox(n)))
        return None
    raise Unsupported('object.__setattr__ on non-object')


def _noop(it, a, k):
    return None


# dataclasses
def _dc_field(it, a, k):
    from .interp import FieldSpec
    return FieldSpec(default=k.get('default'), has_default='default' in k,
                     default_factory=k.get('default_factory'), metadata=k.get('metadata') or {},
                     init=k.get('init', True))


def _dc_fields(it, a, k):
    v = a[0]
    cls = v if isinstance(v, ClassVal) else it.class_of(v)
    if not isinstance(cls, ClassVal) or not any(isinstance(c, ClassVal) and c.is_dataclass for c in cls.mro):
        it.throw('TypeError', 'must be called with a dataclass type or instance')
    return tuple(it.dataclass_fields(cls))


def _dc_is_dataclass(it, a, k):
    v = a[0]
    if isinstance(v, SymElem):
        c = v.xs.elem_type
        return isinstance(c, ClassVal) and any(isinstance(x, ClassVal) and x.is_dataclass for x in c.mro)
    cls = v if isinstance(v, (ClassVal, BuiltinClass)) else it.class_of(v)
    return isinstance(cls, ClassVal) and any(isinstance(c, ClassVal) and c.is_dataclass for c in cls.mro)


def _dc_decorator(it, a, k):
    if a and isinstance(a[0], ClassVal):
        return a[0]
    return Native('dataclass()', lambda it2, a2, k2: a2[0])


def _struct_Struct(it, a, k):
    fmt = unbox(a[0])
    if not isinstance(fmt, str):
        raise Unsupported('struct format must be a literal')
    return StructVal(fmt)


def _struct_calcsize(it, a, k):
    return _struct.calcsize(unbox(a[0]))


def _zlib_compress(it, a, k):
    """A-zlib: compress is a total function (equal inputs give equal outputs); decompress(compress(x)) == x."""
    _used('zlib.compress')
    from .rope import rope_equal
    r = to_rope(it, a[0])
    memo = it.ctx.ghost.setdefault('zlib_memo', [])
    for r0, ln0 in memo:
        if rope_equal(it.ctx, r0, r)[0]:
            return Rope([Blob(('zlib', r0), ln0)])
    ln = it.ctx.fresh_int('zlen')
    it.ctx.assume(ln >= 1)
    memo.append((r, ln))
    return Rope([Blob(('zlib', r), ln)])


def _zlib_decompress(it, a, k):
    _used('zlib.decompress')
    r = to_rope(it, a[0])
    if len(r.segs) == 1 and isinstance(r.segs[0], Blob) and isinstance(r.segs[0].key, tuple) and r.segs[0].key[0] == 'zlib':
        return r.segs[0].key[1]
    ok = it.ctx.fresh_bool('inflates')
    if it.ctx.branch(ok):
        ln = it.ctx.fresh_int('inflated_len')
        it.ctx.assume(ln >= 0)
        return Rope([Blob(('inflated', it.ctx.fresh_name('z')), ln)])
    it.throw('zlib.error', 'Error -3 while decompressing data')


def is_quad(s_term):
    """A-inet: predicate 'canonical dotted quad' on which inet_aton / inet_ntoa are mutually inverse."""
    return z3.Function('is_dotted_quad' + ('_u' if s_term.sort() == USTR else ''), s_term.sort(), z3.BoolSort())(s_term)


def ip_term(s_term):
    """Abstract injective map dotted-quad text <-> 4 bytes (A-inet): the 32-bit value of the address."""
    return z3.Function('inet_aton', z3.StringSort(), z3.IntSort())(s_term)


def _inet_aton(it, a, k):
    _used('socket.inet_aton')
    s = unbox(a[0])
    if isinstance(s, str):
        import socket
        try:
            return Rope.lit(socket.inet_aton(s))
        except OSError:
            it.throw('OSError', 'illegal IP address string')
    if isinstance(s, Sym) and s.k in ('str', 'ustr'):
        ok = is_quad(s.t)
        if not it.ctx.branch(ok):
            it.throw('OSError', 'illegal IP address string passed to inet_aton')
        return Rope([Blob(('inet', s.t), z3.IntVal(4))])
    it.throw('TypeError', 'inet_aton() argument 1 must be str')


def _inet_ntoa(it, a, k):
    _used('socket.inet_ntoa')
    r = to_rope(it, a[0])
    c = r.concrete()
    if c is not None:
        import socket
        try:
            return socket.inet_ntoa(c)
        except OSError:
            it.throw('OSError', 'packed IP wrong length for inet_ntoa')
    if not it.ctx.branch(r.length() == 4):
        it.throw('OSError', 'packed IP wrong length for inet_ntoa')
    if len(r.segs) == 1 and isinstance(r.segs[0], Blob) and isinstance(r.segs[0].key, tuple) and r.segs[0].key[0] == 'inet':
        t = r.segs[0].key[1]
        return Sym(t, 'ustr' if t.sort() == USTR else 'str')
    s = it.ctx.fresh_str('ip')
    it.ctx.assume(is_quad(s))
    return Sym(s, 'str')


def _int_from_bytes(it, a, k):
    r = to_rope(it, a[0])
    order = unbox(a[1]) if len(a) > 1 else k.get('byteorder', 'big')
    signed = k.get('signed', False)
    c = r.concrete()
    if c is not None:
        return int.from_bytes(c, order, signed=signed)
    if order != 'little' or signed:
        raise Unsupported('int.from_bytes big-endian/signed symbolic')
    # value of an opaque little-endian byte string of symbolic length: only LE-aligned ropes are resolved
    if len(r.segs) == 1 and isinstance(r.segs[0], LE) and not r.segs[0].signed:
        return sym_int(r.segs[0].t)
    if any(isinstance(s, BVSeg) for s in r.segs):
        bs = rope_bytes_bv(it.ctx, r)
        if bs is not None and 1 <= len(bs) <= 8:
            return Sym(z3.BV2Int(z3.Concat(*reversed(bs)) if len(bs) > 1 else bs[0]), 'int')
        if bs is not None and len(bs) == 0:
            return 0
    v = it.ctx.fresh_int('frombytes')
    it.ctx.assume(v >= 0)
    n = r.length()
    for w in (0, 1, 2, 3, 4, 8):
        it.ctx.assume(z3.Implies(n <= w, v < (1 << (8 * w))))
    return Sym(v, 'int')


def _math_ceil(it, a, k):
    v = unbox(a[0])
    if isinstance(v, Sym):
        if v.k == 'int':
            return v
        f = z3.ToInt(v.t)
        return Sym(z3.If(z3.ToReal(f) == v.t, f, f + 1), 'int')
    import math
    return math.ceil(v)


def _math_floor(it, a, k):
    v = unbox(a[0])
    if isinstance(v, Sym):
        if v.k == 'int':
            return v
        return Sym(z3.ToInt(v.t), 'int')
    import math
    return math.floor(v)


def _setattr(it, a, k):
    it.setattr(a[0], unbox(a[1]), a[2])


def _inspect_getmembers(it, a, k):
    """inspect.getmembers(obj, predicate=inspect.ismethod): (name, bound method) for every function found on the
    instance or along the MRO of its class, sorted by name (A-inspect)."""
    from .interp import ClassMethodVal, StaticMethodVal, PropertyVal
    obj = a[0]
    pred = a[1] if len(a) > 1 else k.get('predicate')
    if not isinstance(obj, Obj) or not (isinstance(pred, Native) and pred.name == 'inspect.ismethod'):
        raise Unsupported('inspect.getmembers: only (instance, inspect.ismethod) is modelled')
    names = set()
    for c in obj.cls.mro:
        if isinstance(c, ClassVal):
            for nm, nodes in c.members.items():
                if isinstance(nodes[-1], (ast.FunctionDef, ast.AsyncFunctionDef)):
                    names.add(nm)
    for nm, v in obj.attrs.items():
        if isinstance(v, Bound):
            names.add(nm)
    out = []
    for nm in sorted(names):
        v = it.getattr(obj, nm)
        if isinstance(v, Bound):
            out.append((nm, v))
    return out


def _methodtype(it, a, k):
    return Bound(a[0], a[1])


class MapVal:
    """map(f, xs): lazily applied; materialised by list()/iteration when xs is concrete."""

    def __init__(self, fn, seqs):
        self.fn, self.seqs = fn, list(seqs)

    def pyvc_iter(self, it, loop):
        cols = [it.iterate(s) for s in self.seqs]
        return [it.call(self.fn, list(args), {}) for args in zip(*cols)]

    def pyvc_tolist(self, it):
        try:
            return self.pyvc_iter(it, None)
        except Unsupported:
            return Opaque(f'list(map({self.fn!r}, <symbolic>))')


class PartialVal:
    """functools.partial"""

    def __init__(self, fn, args, kwargs):
        self.fn, self.args, self.kwargs = fn, list(args), dict(kwargs)

    def pyvc_call(self, it, args, kwargs):
        return it.call(self.fn, self.args + list(args), {**self.kwargs, **kwargs})

    def pyvc_truth(self, it):
        return True

    def __repr__(self):
        return f'partial({self.fn!r}, {self.args!r})'


class LazyDict:
    """Dictionary of unknown size (symbolic pre-state) with lazy initialisation: the first lookup of a key that is
    not provably one of the keys seen so far forks on `key present?`; when present its value is materialised
    by `factory(key)`.  Entries never looked up are never touched (frame for free)."""

    def __init__(self, ctx, name, factory, key_kind='int'):
        self.ctx = ctx
        self.name = name
        self.factory = factory
        self.entries: list = []      # [key, value, present: bool]
        self.key_kind = key_kind
        self.log: list = []

    def _find(self, it, key, create=True):
        k = unbox(key)
        for e in self.entries:
            eq = _eq(it, e[0], k)
            if eq is True or (eq is not False and it.ctx.branch(eq)):
                return e
        if not create:
            return None
        present = it.ctx.fresh_bool(f'{self.name}.has')
        if it.ctx.branch(present):
            e = [k, self.factory(it, k), True]
        else:
            e = [k, None, False]
        self.entries.append(e)
        return e

    def pyvc_getitem(self, it, key):
        e = self._find(it, key)
        if not e[2]:
            it.throw('KeyError', key)
        return e[1]

    def pyvc_setitem(self, it, key, value):
        e = self._find(it, key)
        self.log.append(('set', e[0], value, e[2]))
        e[1], e[2] = value, True

    def pyvc_delitem(self, it, key):
        e = self._find(it, key)
        if not e[2]:
            it.throw('KeyError', key)
        self.log.append(('del', e[0], e[1]))
        e[1], e[2] = None, False

    def pyvc_contains(self, it, key):
        return self._find(it, key)[2]

    def pyvc_getattr(self, it, name):
        if name == 'pop':
            def pop(it2, a, k):
                e = self._find(it2, a[0])
                if not e[2]:
                    if len(a) > 1:
                        return a[1]
                    it2.throw('KeyError', a[0])
                v = e[1]
                self.log.append(('del', e[0], v))
                e[1], e[2] = None, False
                return v
            return Native('dict.pop', pop)
        if name == 'get':
            def get(it2, a, k):
                e = self._find(it2, a[0])
                return e[1] if e[2] else (a[1] if len(a) > 1 else None)
            return Native('dict.get', get)
        raise Unsupported(f'LazyDict.{name}')

    def pyvc_truth(self, it):
        raise Unsupported('truth value of a dictionary of unknown size')

    def __repr__(self):
        return f'<LazyDict {self.name} {[(e[0], e[2]) for e in self.entries]}>'


def install(it):
    N = it.natives

    def reg(name, fn):
        N[name] = Native(name, fn)
    for name, fn in {
        'len': _len, 'isinstance': _isinstance, 'issubclass': _issubclass, 'getattr': _getattr,
        'hasattr': _hasattr, 'int': _int, 'bool': _bool, 'str': _str, 'bytes': _bytes,
        'bytearray': _bytearray, 'list': _list, 'tuple': _tuple, 'set': _set, 'dict': _dict,
        'float': _float, 'range': _range, 'enumerate': _enumerate, 'zip': _zip, 'min': _minmax('min'),
        'max': _minmax('max'), 'sum': _sum, 'any': _any, 'all': _all, 'sorted': _sorted,
        'reversed': _reversed, 'callable': _callable, 'type': _type, 'super': _super, 'abs': _abs,
        'divmod': _divmod, 'round': _round, 'id': _id, 'next': _next, 'iter': _iter, 'print': _print,
        'repr': _repr, 'hash': _hash, 'frozenset': lambda it2, a, k: frozenset(_set(it2, a, k)),
    }.items():
        reg('builtins.' + name, fn)
    N['builtins.object'] = BUILTIN_CLASSES['object']
    reg('object.__new__', _object_new)
    reg('object.__setattr__', _object_setattr)
    reg('object.__init__', _noop)
    reg('dataclasses.field', _dc_field)
    reg('dataclasses.fields', _dc_fields)
    reg('dataclasses.is_dataclass', _dc_is_dataclass)
    reg('dataclasses.dataclass', _dc_decorator)
    reg('struct.Struct', _struct_Struct)
    reg('struct.calcsize', _struct_calcsize)
    reg('zlib.compress', _zlib_compress)
    reg('zlib.decompress', _zlib_decompress)
    reg('socket.inet_aton', _inet_aton)
    reg('socket.inet_ntoa', _inet_ntoa)
    reg('int.from_bytes', _int_from_bytes)
    reg('math.ceil', _math_ceil)
    reg('math.floor', _math_floor)
    reg('builtins.setattr', _setattr)
    reg('collections.OrderedDict', _dict)
    reg('builtins.map', lambda it2, a, k: MapVal(a[0], a[1:]))
    reg('functools.partial', lambda it2, a, k: PartialVal(a[0], a[1:], k))
    reg('inspect.getmembers', _inspect_getmembers)
    reg('inspect.ismethod', lambda it2, a, k: isinstance(a[0], Bound))
    reg('types.MethodType', _methodtype)
    reg('enum.auto', lambda it2, a, k: Opaque('auto'))
    reg('logging.getLogger', lambda it2, a, k: Opaque('logger'))
    reg('typing.TypeVar', lambda it2, a, k: Opaque('TypeVar'))
    reg('typing.cast', lambda it2, a, k: a[1])
    N['struct.error'] = BUILTIN_CLASSES['struct.error']
    N['zlib.error'] = BUILTIN_CLASSES['zlib.error']
    N['asyncio.TimeoutError'] = BUILTIN_CLASSES['TimeoutError']
    N['asyncio.CancelledError'] = BUILTIN_CLASSES['CancelledError']
    N['asyncio.IncompleteReadError'] = BUILTIN_CLASSES['IncompleteReadError']
    N['asyncio.InvalidStateError'] = BUILTIN_CLASSES['InvalidStateError']
    N['asyncio.QueueEmpty'] = BUILTIN_CLASSES['QueueEmpty']
    N['asyncio.QueueFull'] = BUILTIN_CLASSES['QueueFull']
    N['asyncio.exceptions.CancelledError'] = BUILTIN_CLASSES['CancelledError']
    N['builtins.int.from_bytes'] = N['int.from_bytes']
