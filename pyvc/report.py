"""Collecting obligations across families / processes, known findings, evidence, exit codes."""
from __future__ import annotations
import json
import os
import time
from collections import defaultdict
from typing import Optional

from .ctx import Obligation, Stats

VERIF = os.path.dirname(os.path.dirname(os.path.abspath(__file__)))


class Result:
    """Aggregated result of one property check."""

    def __init__(self, prop: str):
        self.prop = prop
        self.obligations: dict[str, dict] = {}     # name -> {verdict, instances, seconds, backend, detail, model}
        self.errors: list[str] = []                 # undecided reasons (exit 2)
        self.crashes: list[str] = []                # checker errors (exit 3)
        self.stats = Stats()
        self.functions: set[str] = set()
        self.inlined: set[str] = set()
        self.externs: set[str] = set()
        self.bounded: list[dict] = []               # bounded stand-ins, never counted as proved
        self.notes: list[str] = []

    def add(self, obs: list[Obligation]):
        for ob in obs:
            e = self.obligations.get(ob.name)
            if e is None:
                e = self.obligations[ob.name] = {
                    'verdict': 'discharged', 'instances': 0, 'seconds': 0.0, 'backends': defaultdict(int),
                    'detail': '', 'model': None, 'trivial': 0}
            e['instances'] += 1
            e['seconds'] += ob.seconds
            e['backends'][ob.backend] += 1
            if ob.trivial:
                e['trivial'] += 1
            rank = {'discharged': 0, 'undecided': 1, 'refuted': 2}
            if rank[ob.verdict] > rank[e['verdict']]:
                e['verdict'] = ob.verdict
                e['detail'] = ob.detail
                e['model'] = ob.model
                e['path'] = list(ob.path)
            elif ob.verdict == e['verdict'] and not e['detail']:
                e['detail'] = ob.detail

    def merge(self, other: dict):
        """Merge a serialised partial result coming from a worker process."""
        for name, e in other['obligations'].items():
            cur = self.obligations.get(name)
            if cur is None:
                e['backends'] = defaultdict(int, e['backends'])
                self.obligations[name] = e
            else:
                rank = {'discharged': 0, 'undecided': 1, 'refuted': 2}
                cur['instances'] += e['instances']
                cur['seconds'] += e['seconds']
                cur['trivial'] += e['trivial']
                for k, v in e['backends'].items():
                    cur['backends'][k] += v
                if rank[e['verdict']] > rank[cur['verdict']]:
                    for k in ('verdict', 'detail', 'model', 'path'):
                        cur[k] = e.get(k)
        self.errors.extend(other['errors'])
        self.crashes.extend(other['crashes'])
        st = Stats()
        st.queries, st.solver_s, st.paths, st.by_backend = other['stats']
        self.stats.merge(st)
        self.functions.update(other['functions'])
        self.inlined.update(other['inlined'])
        self.externs.update(other['externs'])
        self.bounded.extend(other['bounded'])
        self.notes.extend(other['notes'])

    def dump(self) -> dict:
        obs = {}
        for k, e in self.obligations.items():
            e2 = dict(e)
            e2['backends'] = dict(e['backends'])
            obs[k] = e2
        return {
            'obligations': obs, 'errors': self.errors, 'crashes': self.crashes,
            'stats': (self.stats.queries, self.stats.solver_s, self.stats.paths, self.stats.by_backend),
            'functions': sorted(self.functions), 'inlined': sorted(self.inlined), 'externs': sorted(self.externs),
            'bounded': self.bounded, 'notes': self.notes,
        }


def load_known_findings() -> list[dict]:
    p = os.path.join(VERIF, 'known_findings.json')
    if not os.path.exists(p):
        return []
    return json.load(open(p))['findings']


def load_baseline(prop: str) -> Optional[list[str]]:
    p = os.path.join(VERIF, 'baseline_obligations.json')
    if not os.path.exists(p):
        return None
    return json.load(open(p)).get(prop)


def load_instances(prop: str) -> Optional[list[str]]:
    p = os.path.join(VERIF, 'baseline_instances.json')
    if not os.path.exists(p):
        return None
    return json.load(open(p)).get(prop)


def finish(res: Result, *, tier: str, seed: int, t0: float, checker_cmd: str, assumptions: list[str],
           trusted_base: list[str], not_decided: list[str], replay, extra_cov: Optional[dict] = None,
           known_check=None, write_evidence=True) -> int:
    """Write evidence, print VIOLATION / KNOWN-FINDING lines, return the exit code.

    replay(name, entry) -> (confirmed: bool|None, replay_path: str)   natively replays a refuted obligation.
    """
    prop = res.prop
    known = [k for k in load_known_findings() if k['property'] == prop and k['status'] == 'known']
    known_by_ob = {k['obligation']: k for k in known}
    violations = []
    known_hits = []
    undecided = []
    discharged = 0
    for name, e in sorted(res.obligations.items()):
        if e['verdict'] == 'discharged':
            discharged += 1
        elif e['verdict'] == 'undecided':
            undecided.append(name)
        else:
            kf = known_by_ob.get(name)
            if kf is not None and (known_check is None or known_check(kf, name, e)):
                known_hits.append((name, kf, e))
            else:
                violations.append((name, e))
    # a known finding that no longer fails is fine (it suppresses nothing)
    # baseline: obligations that disappeared => checker error
    base = load_baseline(prop)
    missing = []
    if base is not None and not res.errors and not res.crashes and os.environ.get('VERIF_ONLY') != '1':
        # vacuity guard: every obligation FAMILY (the name up to its [case] tag) that is discharged on the unchanged tree must still be
        # generated; tags may legitimately change with the code, families may not silently vanish
        have = {n.split('[')[0] for n in res.obligations}
        missing = [b for b in base if b not in have]
    exit_code = 0
    lines = []
    rdir = os.path.join(VERIF, 'out', 'replay')
    os.makedirs(rdir, exist_ok=True)
    for fn in os.listdir(rdir):
        if fn.startswith(prop + '.'):
            try:
                os.unlink(os.path.join(rdir, fn))
            except OSError:
                pass
    nviol = 0
    MAX_NATIVE_REPLAYS = int(os.environ.get('VERIF_MAX_REPLAYS', '8'))
    for vi, (name, e) in enumerate(violations):
        confirmed, path = (None, None)
        try:
            if vi < MAX_NATIVE_REPLAYS:
                confirmed, path = replay(name, e)
            else:
                confirmed, path = None, _write_replay(name, e, note=f'native replay skipped: more than {MAX_NATIVE_REPLAYS} violations in this run '
                                                                    f'(the first ones were replayed)')
        except Exception as ex:      # replay driver trouble never hides the violation
            confirmed, path = None, _write_replay(name, e, note=f'replay driver error: {ex!r}')
        if path is None:
            path = _write_replay(name, e, note='no replay driver for this obligation family')
        suffix = '' if confirmed else ' no-failing-input-found'
        lines.append(f'VIOLATION property={prop} replay={path} obligation={name}{suffix}')
        nviol += 1
        exit_code = 1
    # an obligation the solver could not decide: a natively reproduced failing input still is a violation (never the other way round)
    still_undecided = []
    for ui, name in enumerate(undecided):
        confirmed, path = None, None
        if ui < 2 and nviol == 0:
            try:
                confirmed, path = replay(name, res.obligations[name])
            except Exception:
                confirmed = None
        if confirmed:
            lines.append(f'VIOLATION property={prop} replay={path} obligation={name} (undecided by the solver; native replay found the failing input)')
            nviol += 1
            exit_code = 1
        else:
            still_undecided.append(name)
    undecided = still_undecided
    # the code left the shape the contracts are written for (unsupported construct, unexpected exception): no verdict from the verifier.
    # The native replay battery of the property is run on the real code: a reproduced failing input is reported as a violation.
    if nviol == 0 and res.errors and not res.crashes:
        tried = set()
        for er in res.errors:
            label = er.split(':')[0].strip()
            if label in tried or len(tried) >= 2:
                continue
            tried.add(label)
            name = f'{prop}.undecided[{label}]'
            ent = {'verdict': 'undecided', 'detail': er, 'model': None, 'path': [], 'instances': 0, 'seconds': 0.0, 'backends': {}, 'trivial': 0}
            try:
                confirmed, path = replay(name, ent)
            except Exception:
                confirmed, path = None, None
            if confirmed:
                lines.append(f'VIOLATION property={prop} replay={path} obligation={name} (no verdict from the verifier: {er[:120]}; native replay found the failing input)')
                nviol += 1
                exit_code = 1
                break
    # instance guard: an obligation INSTANCE (full name with its [case] tag) that is generated on the unchanged tree is no longer generated
    # although its family still is - the path that carried it ended early (blocked, infeasible, aborted) on this tree.  The verifier has no
    # verdict for that case: never "held".  The native battery is tried; otherwise the run is UNDECIDED.
    vanished = []
    inst = load_instances(prop)
    if inst is not None and nviol == 0 and not res.errors and not res.crashes and not missing and os.environ.get('VERIF_ONLY') != '1':
        have_f = {n.split('[')[0] for n in res.obligations}
        vanished = [n for n in inst if n not in res.obligations and n.split('[')[0] in have_f]
        if vanished:
            name = f'{prop}.undecided[instances-vanished]'
            ent = {'verdict': 'undecided', 'detail': f'{len(vanished)} obligation instances are no longer generated, e.g. {vanished[:3]}', 'model': None, 'path': [],
                   'instances': 0, 'seconds': 0.0, 'backends': {}, 'trivial': 0}
            try:
                confirmed, path = replay(name, ent)
            except Exception:
                confirmed, path = None, None
            if confirmed:
                lines.append(f'VIOLATION property={prop} replay={path} obligation={name} (no verdict from the verifier: obligation instances such as '
                             f'{vanished[0]} are no longer generated; native replay found the failing input)')
                nviol += 1
                exit_code = 1
                vanished = []
    for name, kf, e in known_hits:
        try:
            confirmed, _p = replay(name, e)
        except Exception:
            confirmed = None
        tag = 'replayed natively' if confirmed else 'native replay did not reproduce' if confirmed is False else 'not replayed'
        lines.append(f"KNOWN-FINDING: property={prop} {kf['what']} [obligation {name}; {tag}]")
    if exit_code == 0:
        if res.crashes or missing:
            exit_code = 3
        elif undecided or res.errors or vanished:
            exit_code = 2
        elif not res.obligations:
            exit_code = 3
            res.crashes.append('vacuity guard: zero obligations generated')
    for u in undecided:
        lines.append(f'UNDECIDED property={prop} obligation={u} ({res.obligations[u]["detail"]})')
    for er in res.errors:
        lines.append(f'UNDECIDED property={prop} {er}')
    for v in vanished[:5]:
        lines.append(f'UNDECIDED property={prop} obligation instance no longer generated: {v}')
    if len(vanished) > 5:
        lines.append(f'UNDECIDED property={prop} ... and {len(vanished) - 5} more obligation instances no longer generated')
    for c in res.crashes:
        lines.append(f'CHECKER-ERROR property={prop} {c}')
    for m in missing:
        lines.append(f'CHECKER-ERROR property={prop} obligation disappeared: {m}')
    for ln in lines:
        print(ln)
    bounded_names = [n for n in res.obligations if n.endswith('[bounded]')]
    bounded_ok = [n for n in bounded_names if res.obligations[n]['verdict'] == 'discharged']
    n_ob = len(res.obligations) - len(known_hits) - len(bounded_names)
    n_dis = discharged - len(bounded_ok)
    samples = []
    for name, e in list(sorted(res.obligations.items()))[:: max(1, len(res.obligations) // 12)][:14]:
        samples.append({'obligation': name, 'verdict': e['verdict'], 'vc_instances': e['instances'],
                        'seconds': round(e['seconds'], 4), 'backends': dict(e['backends'])})
    for name, e in violations[:5]:
        samples.append({'obligation': name, 'verdict': e['verdict'], 'detail': e['detail'], 'model': e['model']})
    by_backend = defaultdict(int)
    vc_total = 0
    vc_trivial = 0
    for e in res.obligations.values():
        vc_total += e['instances']
        vc_trivial += e['trivial']
        for k, v in e['backends'].items():
            by_backend[k] += v
    cov = {
        'obligations': n_ob,
        'discharged': n_dis,
        'checker_cmd': checker_cmd,
        'trusted_base': trusted_base,
        'samples': samples,
        'vc_instances': vc_total,
        'vc_decided_by_partial_evaluation': vc_trivial,
        'vc_by_backend': dict(by_backend),
        'solver_queries': res.stats.queries,
        'solver_seconds': round(res.stats.solver_s, 2),
        'paths_explored': res.stats.paths,
        'functions_under_contract': sorted(res.functions),
        'functions_inlined': sorted(res.inlined - res.functions),
        'extern_contracts_used': sorted(res.externs),
        'bounded_standins': res.bounded,
        'bounded_obligations_not_counted_as_proved': bounded_names,
        'not_decided_clauses': not_decided,
        'known_finding_obligations': [n for n, _, _ in known_hits],
        'undecided_obligations': undecided,
        'refuted_obligations': [n for n, _ in violations],
        'notes': res.notes,
        'explanation': 'Every obligation is a validity query pre & path => post generated from the AST of the working '
                       'tree by the pyvc symbolic executor; see DESIGN.md section 2.',
    }
    if extra_cov:
        cov.update(extra_cov)
    ev = {
        'property_id': prop, 'tier': tier, 'seed': seed, 'level': 'proof',
        'coverage': cov, 'assumptions': assumptions, 'wall_s': round(time.time() - t0, 2),
        'violations': nviol,
    }
    if write_evidence:
        os.makedirs(os.path.join(VERIF, 'evidence'), exist_ok=True)
        with open(os.path.join(VERIF, 'evidence', f'{prop}.json'), 'w') as f:
            json.dump(ev, f, indent=1, default=str)
    status = {0: 'OK', 1: 'VIOLATION', 2: 'UNDECIDED', 3: 'CHECKER-ERROR'}[exit_code]
    print(f'[{prop}] {status}: {n_dis}/{n_ob} obligations discharged ({vc_total} VC instances, '
          f'{res.stats.queries} solver queries, {res.stats.solver_s:.1f}s solver, {res.stats.paths} paths, '
          f'{time.time() - t0:.1f}s wall), known findings: {len(known_hits)}')
    return exit_code


def _write_replay(name: str, e: dict, note: str = '', extra: Optional[dict] = None) -> str:
    d = os.path.join(VERIF, 'out', 'replay')
    os.makedirs(d, exist_ok=True)
    safe = ''.join(ch if ch.isalnum() or ch in '._-[]=,' else '_' for ch in name)[:150]
    path = os.path.join(d, safe + '.json')
    doc = {'obligation': name, 'verdict': e.get('verdict'), 'detail': e.get('detail'), 'model': e.get('model'),
           'path_decisions': e.get('path'), 'note': note}
    if extra:
        doc.update(extra)
    with open(path, 'w') as f:
        json.dump(doc, f, indent=1, default=str)
    return path


write_replay = _write_replay
