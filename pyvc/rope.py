"""Theory of byte strings used by the wire codec proofs: a *rope* is a list of
segments with symbolic lengths.  Index and slice operations are resolved by
proving offset equalities in linear integer arithmetic; an access that cannot
be aligned by proof yields an unconstrained fresh value (sound for safety
claims, and makes any equality claim about it fail rather than pass)."""
from __future__ import annotations
from typing import Optional

import z3

from .ctx import Ctx, Unsupported


class Seg:
    def length(self):
        raise NotImplementedError


class Lit(Seg):
    __slots__ = ('data',)

    def __init__(self, data: bytes):
        self.data = bytes(data)

    def length(self):
        return z3.IntVal(len(self.data))

    def __repr__(self):
        return f'Lit({self.data.hex()})'


class LE(Seg):
    """w-byte little-endian encoding of integer term t (two's complement when signed)."""
    __slots__ = ('w', 't', 'signed')

    def __init__(self, w: int, t, signed: bool = False):
        self.w = w
        self.t = t if z3.is_expr(t) else z3.IntVal(int(t))
        self.signed = signed

    def length(self):
        return z3.IntVal(self.w)

    def __repr__(self):
        return f'LE{self.w}{"s" if self.signed else ""}({self.t})'


class Blob(Seg):
    """Opaque bytes identified by `key` (hashable, may contain z3 terms) of symbolic length."""
    __slots__ = ('key', 'ln')

    def __init__(self, key, ln):
        self.key = key
        self.ln = ln

    def length(self):
        return self.ln

    def __repr__(self):
        return f'Blob({self.key})'


class ArrSeg(Seg):
    """flatmap(enc_T, xs[lo:hi]); xs is a SymList descriptor."""
    __slots__ = ('xs', 'lo', 'hi')

    def __init__(self, xs, lo, hi):
        self.xs = xs
        self.lo = lo if z3.is_expr(lo) else z3.IntVal(lo)
        self.hi = hi if z3.is_expr(hi) else z3.IntVal(hi)

    def length(self):
        return self.xs.cum(self.hi) - self.xs.cum(self.lo)

    def __repr__(self):
        return f'Arr({self.xs.name}[{self.lo}:{self.hi}])'


def _key_terms_equal(ctx: Ctx, k1, k2) -> bool:
    if type(k1) != type(k2):
        return False
    if isinstance(k1, tuple):
        return len(k1) == len(k2) and all(_key_terms_equal(ctx, a, b) for a, b in zip(k1, k2))
    if z3.is_expr(k1):
        if k1.sort() != k2.sort():
            return False
        return ctx.valid(k1 == k2)
    if isinstance(k1, Rope):
        return rope_equal(ctx, k1, k2)[0]
    return k1 == k2


class Rope:
    __slots__ = ('segs',)

    def __init__(self, segs=()):
        out = []
        for s in segs:
            if isinstance(s, Lit):
                if not s.data:
                    continue
                if out and isinstance(out[-1], Lit):
                    out[-1] = Lit(out[-1].data + s.data)
                    continue
            out.append(s)
        self.segs = tuple(out)

    @staticmethod
    def lit(b: bytes) -> 'Rope':
        return Rope([Lit(b)])

    def concrete(self) -> Optional[bytes]:
        if not self.segs:
            return b''
        if len(self.segs) == 1 and isinstance(self.segs[0], Lit):
            return self.segs[0].data
        return None

    def length(self):
        total = z3.IntVal(0)
        for s in self.segs:
            total = total + s.length()
        return z3.simplify(total)

    def __add__(self, other: 'Rope') -> 'Rope':
        return Rope(self.segs + other.segs)

    def __repr__(self):
        return 'Rope[' + ' ++ '.join(map(repr, self.segs)) + ']'

    # -- alignment ---------------------------------------------------------
    def _offsets(self):
        off = z3.IntVal(0)
        res = []
        for s in self.segs:
            res.append(off)
            off = z3.simplify(off + s.length())
        res.append(off)
        return res

    def locate(self, ctx: Ctx, pos) -> Optional[tuple]:
        """Find (segment index, byte offset inside a Lit segment) with offset == pos proved."""
        if not z3.is_expr(pos):
            pos = z3.IntVal(int(pos))
        offs = self._offsets()
        # cheap syntactic pass first
        for i, off in enumerate(offs):
            d = z3.simplify(pos - off)
            if z3.is_int_value(d) and d.as_long() == 0:
                return (i, 0)
        for i, off in enumerate(offs):
            if i < len(self.segs) and isinstance(self.segs[i], Lit):
                d = z3.simplify(pos - off)
                if z3.is_int_value(d) and 0 <= d.as_long() <= len(self.segs[i].data):
                    return (i, d.as_long())
        for i, off in enumerate(offs):
            if ctx.valid(pos == off):
                return (i, 0)
        return None

    def split_bv(self, ctx: Ctx, pos):
        """Split a rope consisting of one BVSeg at an arbitrary provably in-range position."""
        if len(self.segs) == 1 and isinstance(self.segs[0], BVSeg):
            s = self.segs[0]
            if ctx.valid(z3.And(pos >= 0, pos <= s.ln)):
                return (Rope([BVSeg(s.arr, s.off, z3.simplify(pos))]),
                        Rope([BVSeg(s.arr, z3.simplify(s.off + pos), z3.simplify(s.ln - pos))]))
        return None

    def split_at(self, ctx: Ctx, pos) -> Optional[tuple]:
        loc = self.locate(ctx, pos)
        if loc is None:
            if not z3.is_expr(pos):
                pos = z3.IntVal(int(pos))
            return self.split_bv(ctx, pos)
        i, d = loc
        if d == 0:
            return Rope(self.segs[:i]), Rope(self.segs[i:])
        s = self.segs[i]
        return Rope(self.segs[:i] + (Lit(s.data[:d]),)), Rope((Lit(s.data[d:]),) + self.segs[i + 1:])


def seg_equal(ctx: Ctx, a: Seg, b: Seg) -> bool:
    if isinstance(a, Lit) and isinstance(b, Lit):
        return a.data == b.data
    if isinstance(a, LE) and isinstance(b, LE):
        return a.w == b.w and a.signed == b.signed and ctx.valid(a.t == b.t)
    if isinstance(a, LE) and isinstance(b, Lit) or isinstance(a, Lit) and isinstance(b, LE):
        le, lit = (a, b) if isinstance(a, LE) else (b, a)
        if len(lit.data) != le.w:
            return False
        return ctx.valid(le.t == int.from_bytes(lit.data, 'little', signed=le.signed))
    if isinstance(a, Blob) and isinstance(b, Blob):
        return _key_terms_equal(ctx, a.key, b.key)
    if isinstance(a, ArrSeg) and isinstance(b, ArrSeg):
        return a.xs is b.xs and ctx.valid(z3.And(a.lo == b.lo, a.hi == b.hi))
    return False


def _normalize(ctx: Ctx, segs) -> list:
    """Drop provably empty segments; merge adjacent array slices xs[a:b] ++ xs[b:c] (definition of flatmap)."""
    out = []
    for s in segs:
        if isinstance(s, ArrSeg):
            if ctx.valid(s.lo == s.hi):
                continue
            if out and isinstance(out[-1], ArrSeg) and out[-1].xs is s.xs and ctx.valid(out[-1].hi == s.lo):
                out[-1] = ArrSeg(s.xs, out[-1].lo, s.hi)
                continue
        elif isinstance(s, Blob):
            if ctx.valid(s.ln == 0):
                continue
        out.append(s)
    return out


def _split_lits(r: Rope, other: Rope):
    """Re-chunk literal segments of r so that they line up with LE segments of other (best effort)."""
    return r


def rope_equal(ctx: Ctx, a: Rope, b: Rope) -> tuple[bool, str]:
    """Prove a == b segment-wise (after dropping provably empty segments and
    cutting literals to fit).  Returns (proved, explanation)."""
    sa = _normalize(ctx, a.segs)
    sb = _normalize(ctx, b.segs)
    i = j = 0
    while i < len(sa) and j < len(sb):
        x, y = sa[i], sb[j]
        # cut literals against fixed-width segments
        if isinstance(x, Lit) and isinstance(y, (LE, Lit)) and len(x.data) > (y.w if isinstance(y, LE) else len(y.data)):
            n = y.w if isinstance(y, LE) else len(y.data)
            sa[i:i + 1] = [Lit(x.data[:n]), Lit(x.data[n:])]
            continue
        if isinstance(y, Lit) and isinstance(x, (LE, Lit)) and len(y.data) > (x.w if isinstance(x, LE) else len(x.data)):
            n = x.w if isinstance(x, LE) else len(x.data)
            sb[j:j + 1] = [Lit(y.data[:n]), Lit(y.data[n:])]
            continue
        if not seg_equal(ctx, x, y):
            return False, f'segment {i}: {x!r} != {y!r}'
        i += 1
        j += 1
    if i < len(sa) or j < len(sb):
        return False, f'length mismatch: rest {sa[i:]!r} vs {sb[j:]!r}'
    return True, ''


class ByteArr:
    """Mutable bytearray holding a rope."""

    def __init__(self, rope: Optional[Rope] = None):
        self.rope = rope if rope is not None else Rope()

    def __repr__(self):
        return f'bytearray<{self.rope!r}>'


class SymList:
    """Symbolic list of wire elements of one element type (for the parametric
    array proofs): elements are only known through `elem(i)`, its cumulative
    encoded length function `cum`, and its length `n`."""

    def __init__(self, ctx: Ctx, name: str, elem_type, min_elem_size: int = 1):
        self.name = ctx.fresh_name(name)
        self.elem_type = elem_type           # ClassVal of the element codec
        self.n = z3.Int(self.name + '.len')
        self._cum = z3.Function(self.name + '.cum', z3.IntSort(), z3.IntSort())
        self.min_elem_size = min_elem_size
        self.ctx = ctx
        ctx.assume(self.n >= 0)
        ctx.assume(self._cum(z3.IntVal(0)) == 0)
        self._seen = set()

    def cum(self, i):
        """Encoded length of xs[:i]; monotone with at least min_elem_size per element."""
        if not z3.is_expr(i):
            i = z3.IntVal(i)
        key = i.get_id()
        if key not in self._seen:
            self._seen.add(key)
            # instantiate the monotonicity facts for this index against those seen so far
            self.ctx.assume(z3.Implies(i >= 0, self._cum(i) >= self.min_elem_size * i))
            self._terms = getattr(self, '_terms', [])
            for j in self._terms:
                self.ctx.assume(z3.Implies(z3.And(j <= i), self._cum(i) - self._cum(j) >= self.min_elem_size * (i - j)))
                self.ctx.assume(z3.Implies(z3.And(i <= j), self._cum(j) - self._cum(i) >= self.min_elem_size * (j - i)))
            self._terms.append(i)
        return self._cum(i)

    def __repr__(self):
        return f'<SymList {self.name}>'


class SymElem:
    """xs[i] of a SymList (opaque element)."""

    def __init__(self, xs: SymList, i):
        self.xs = xs
        self.i = i if z3.is_expr(i) else z3.IntVal(i)

    def __repr__(self):
        return f'{self.xs.name}[{self.i}]'


# --- element codec contract (used parametrically by the array proofs) ------------
# For an element type T the contract is:
#   T(v).serialize_into(buf)  /  v.serialize_into(buf)   appends enc_T(v)
#   T(v).serialize()          /  v.serialize()           returns enc_T(v)
#   T.deserialize(pos, P ++ enc_T(v) ++ Q) with pos == |P|   returns (pos + |enc_T(v)|, v)
#   |enc_T(v)| >= 1
# ArrSeg(xs, i, i+1) *denotes* enc_T(xs[i]).  The contract is discharged per concrete T by
# the obligations C01.elem.<T>.{enc,dec,min-size}; uses are recorded in ctx.ghost.

def _elem_contract_used(ctx: Ctx, tname: str):
    ctx.ghost.setdefault('elem_contract_used', set()).add(tname)


def _sym_elem_method(elem: 'SymElem', it, cls, name: str):
    from .values import Native
    from .ctx import Unsupported
    xs = elem.xs
    if cls is not None and cls is not xs.elem_type:
        raise Unsupported(f'element of {xs.elem_type.name} array used with codec {cls.name}')
    _elem_contract_used(it.ctx, xs.elem_type.name)
    seg = ArrSeg(xs, elem.i, elem.i + 1)
    if name == 'serialize_into':
        def f(it2, a, k):
            buf = a[0]
            buf.rope = buf.rope + Rope([seg])
        return Native('elem.serialize_into', f)
    if name == 'serialize':
        return Native('elem.serialize', lambda it2, a, k: Rope([seg]))
    raise Unsupported(f'attribute {name} of an abstract array element')


SymElem.boxed_getattr = lambda self, it, cls, name: _sym_elem_method(self, it, cls, name)
SymElem.pyvc_getattr = lambda self, it, name: _sym_elem_method(self, it, None, name)
SymElem.pyvc_class = lambda self, it: self.xs.elem_type


def _symelem_eq(self, it, other):
    if isinstance(other, SymElem) and other.xs is self.xs:
        return self.i == other.i
    return NotImplemented


SymElem.pyvc_eq = _symelem_eq


class SymPrefix:
    """xs[:k] being built by a decoding loop (items list of the array decoder)."""

    def __init__(self, xs: SymList, k):
        self.xs = xs
        self.k = k if z3.is_expr(k) else z3.IntVal(k)

    def pyvc_getattr(self, it, name):
        from .values import Native
        from .ctx import Unsupported
        if name == 'append':
            def app(it2, a, kw):
                e = a[0]
                if not (isinstance(e, SymElem) and e.xs is self.xs and it2.ctx.valid(e.i == self.k)):
                    raise Unsupported('append of a foreign element to a symbolic prefix')
                self.k = z3.simplify(self.k + 1)
            return Native('prefix.append', app)
        raise Unsupported(f'SymPrefix.{name}')

    def pyvc_eq(self, it, other):
        if isinstance(other, SymList) and other is self.xs:
            return self.k == other.n
        if isinstance(other, SymPrefix) and other.xs is self.xs:
            return self.k == other.k
        return NotImplemented

    def pyvc_len(self, it):
        from .natives import sym_int
        return sym_int(self.k)

    def __repr__(self):
        return f'{self.xs.name}[:{self.k}]'


def _symlist_eq(self, it, other):
    if other is self:
        return True
    if isinstance(other, SymPrefix):
        return other.pyvc_eq(it, self)
    return NotImplemented


SymList.pyvc_eq = _symlist_eq
SymList.pyvc_len = lambda self, it: __import__('pyvc.natives', fromlist=['sym_int']).sym_int(self.n)
SymList.pyvc_truth = lambda self, it: self.n > 0
SymPrefix.pyvc_truth = lambda self, it: self.k > 0


# --- byte strings with symbolic *content* (obfuscation proofs) --------------------

BV8 = z3.BitVecSort(8)


class BVSeg(Seg):
    """Bytes j |-> arr[off + j] for 0 <= j < ln, arr : Array(Int, BV8)."""
    __slots__ = ('arr', 'off', 'ln')

    def __init__(self, arr, off, ln):
        self.arr = arr
        self.off = off if z3.is_expr(off) else z3.IntVal(off)
        self.ln = ln if z3.is_expr(ln) else z3.IntVal(ln)

    def length(self):
        return self.ln

    def byte(self, j):
        return z3.Select(self.arr, z3.simplify(self.off + j))

    def __repr__(self):
        return f'BV({self.arr}+{self.off}:{self.ln})'


def bv_of_int(t, width: int):
    """Bit-vector of an int term: strips BV2Int when the term is bit-vector backed."""
    b = bv_backing(t)
    if b is not None:
        if b.size() == width:
            return b
        if b.size() < width:
            return z3.ZeroExt(width - b.size(), b)
        return z3.Extract(width - 1, 0, b)
    if z3.is_int_value(t):
        return z3.BitVecVal(t.as_long(), width)
    return z3.Int2BV(t, width)


def bv_backing(t):
    if z3.is_app(t) and t.decl().kind() == z3.Z3_OP_BV2INT:
        return t.arg(0)
    return None


def seg_byte(seg: Seg, k: int):
    """BV8 expression of byte k (concrete) of a segment."""
    if isinstance(seg, Lit):
        return z3.BitVecVal(seg.data[k], 8)
    if isinstance(seg, LE):
        bv = bv_of_int(seg.t, 8 * seg.w)
        return z3.Extract(8 * k + 7, 8 * k, bv)
    if isinstance(seg, BVSeg):
        return seg.byte(z3.IntVal(k))
    raise Unsupported(f'byte of {seg!r}')


def rope_bytes_bv(ctx: Ctx, r: 'Rope'):
    """List of BV8 expressions when the rope has a concrete total length, else None."""
    out = []
    for s in r.segs:
        ln = z3.simplify(s.length())
        if not z3.is_int_value(ln):
            return None
        for k in range(ln.as_long()):
            out.append(seg_byte(s, k))
    return out
