"""Abstract model of the asyncio objects the repository uses (trusted base A-asyncio).

Cooperative scheduling: an activation runs atomically between two *yield points*.  Every await of a
library awaitable goes through Interp.yield_point(label), where the harness of the property installs
what DESIGN 2.5 prescribes: the CancelledError successor, havoc of shared state, invariant checks."""
from __future__ import annotations
from typing import Any, Callable, Optional

import z3

from .ctx import Unsupported, PathAbort
from .values import (Sym, Obj, Native, Bound, PyFunc, ExcVal, PyRaise, BUILTIN_CLASSES, unbox, Opaque)


class Aio:
    """Per-interpreter asyncio state + policy hooks (set by the harness)."""

    def __init__(self, it):
        self.it = it
        self.tasks: list['TaskVal'] = []            # tasks created by this activation, in order
        self.yields: list[str] = []                 # labels of the yield points passed on this path
        self.on_yield: Optional[Callable] = None    # hook(it, label)
        self.cancel_at: Optional[Callable] = None   # hook(it, label) -> bool: explore cancellation here?
        self.timeout_depth = 0
        self.task_counter = 0
        self.run_callbacks_inline = False
        self.sleep_hook: Optional[Callable] = None
        self.wait_policy: Optional[Callable] = None

    def yield_point(self, label: str):
        it = self.it
        self.yields.append(label)
        if self.cancel_at is not None and self.cancel_at(it, label):
            if it.ctx.choose(2, 'cancel@' + label) == 1:
                it.ctx.notes.append(f'cancelled at {label}')
                raise PyRaise(ExcVal(BUILTIN_CLASSES['CancelledError'], (), {'at': label}))
        if self.on_yield is not None:
            self.on_yield(it, label)


class TaskVal:
    """asyncio.Task / asyncio.Future."""
    _n = 0

    def __init__(self, aio: Aio, coro=None, name: str = '', kind='task'):
        TaskVal._n += 1
        self.id = TaskVal._n
        self.aio = aio
        self.coro = coro
        self.name = name
        self.kind = kind
        self.done: Any = False            # python bool or z3 Bool
        self.cancelled: Any = False
        self.cancel_requested = False
        self.result_val: Any = None
        self.exc: Optional[ExcVal] = None
        self.callbacks: list = []
        self.attrs: dict = {}
        self.awaited = False
        self.on_await: Optional[Callable] = None     # hook(it, task) -> value | raises

    def __repr__(self):
        return f'<{self.kind} {self.name or self.id}>'

    def pyvc_truth(self, it):
        return True

    def pyvc_class(self, it):
        return BUILTIN_CLASSES['Task' if self.kind == 'task' else 'Future']

    def _done_now(self, it) -> bool:
        d = self.done
        if isinstance(d, bool):
            return d
        r = it.ctx.branch(d)
        self.done = r
        return r

    def _cancelled_now(self, it) -> bool:
        c = self.cancelled
        if isinstance(c, bool):
            return c
        r = it.ctx.branch(c)
        self.cancelled = r
        return r

    def complete(self, it):
        """Mark done and run/schedule callbacks (callbacks are separate activations: recorded)."""
        self.done = True
        me = getattr(self, 'owner', self)
        for cb in list(self.callbacks):
            it.ctx.ghost.setdefault('scheduled_callbacks', []).append((cb, me))
            if self.aio.run_callbacks_inline:
                it.call(cb, [me], {})

    def pyvc_getattr(self, it, name):
        def native(fn):
            return Native(f'{self.kind}.{name}', fn)
        if name == 'cancel':
            def cancel(it2, a, k):
                if self._done_now(it2):
                    return False
                self.cancel_requested = True
                if self.kind == 'future':
                    # a bare Future is cancelled immediately; its callbacks are scheduled
                    self.cancelled = True
                    self.complete(it2)
                it2.ctx.ghost.setdefault('cancelled_tasks', []).append(self)
                return True
            return native(cancel)
        if name == 'done':
            return native(lambda it2, a, k: self._done_now(it2))
        if name == 'cancelled':
            return native(lambda it2, a, k: self._done_now(it2) and self._cancelled_now(it2))
        if name == 'add_done_callback':
            def adc(it2, a, k):
                self.callbacks.append(a[0])
            return native(adc)
        if name == 'remove_done_callback':
            def rdc(it2, a, k):
                n = len(self.callbacks)
                self.callbacks = [c for c in self.callbacks if c is not a[0]]
                return n - len(self.callbacks)
            return native(rdc)
        if name == 'set_result':
            def sr(it2, a, k):
                if self._done_now(it2):
                    it2.throw('InvalidStateError', 'invalid state')
                self.result_val = a[0]
                self.complete(it2)
            return native(sr)
        if name == 'set_exception':
            def se(it2, a, k):
                if self._done_now(it2):
                    it2.throw('InvalidStateError', 'invalid state')
                e = a[0]
                if not isinstance(e, ExcVal):
                    e = it2.call(e, [], {})
                self.exc = e
                self.complete(it2)
            return native(se)
        if name == 'result':
            def res(it2, a, k):
                if not self._done_now(it2):
                    it2.throw('InvalidStateError', 'Result is not set.')
                if self._cancelled_now(it2):
                    it2.throw('CancelledError')
                if self.exc is not None:
                    raise PyRaise(self.exc)
                return self.result_val
            return native(res)
        if name == 'exception':
            def exc(it2, a, k):
                if not self._done_now(it2):
                    it2.throw('InvalidStateError', 'Exception is not set.')
                if self._cancelled_now(it2):
                    it2.throw('CancelledError')
                return self.exc
            return native(exc)
        if name == 'get_name':
            return native(lambda it2, a, k: self.name)
        if name in self.attrs:
            return self.attrs[name]
        raise Unsupported(f'{self.kind}.{name}')

    def pyvc_setattr(self, it, name, value):
        self.attrs[name] = value

    def pyvc_await(self, it):
        self.awaited = True
        self.aio.yield_point(f'await {self.kind} {self.name}')
        if self.on_await is not None:
            return self.on_await(it, self)
        if self.cancel_requested or self.cancelled is True:
            # A-asyncio: awaiting a cancelled task/future raises CancelledError in the awaiter
            self.done = True
            self.cancelled = True
            it.throw('CancelledError')
        if self.exc is not None:
            self.done = True
            raise PyRaise(self.exc)
        if self.done is True:
            return self.result_val
        # pending task: finishes with an unknown result (harnesses refine this through on_await)
        self.done = True
        return Opaque(f'result of {self!r}')


class SimpleAwaitable:
    """Awaitable returned by an extern: fn(it) is run at the await (after the yield point)."""

    def __init__(self, aio: Aio, label: str, fn: Callable, yields: bool = True):
        self.aio = aio
        self.label = label
        self.fn = fn
        self.yields = yields

    def pyvc_await(self, it):
        if self.yields:
            self.aio.yield_point(self.label)
        return self.fn(it)

    def __repr__(self):
        return f'<awaitable {self.label}>'


class TimeoutCM:
    """async_timeout.timeout(t): a TimeoutError may surface at any await inside the block
    (modelled at the awaitables: they consult aio.timeout_depth)."""

    def __init__(self, aio: Aio, t):
        self.aio = aio
        self.t = t
        self.shifted = []

    def pyvc_enter(self, it, is_async):
        # module-level names of the analysed source are resolved once per source cache: the factory that built this object may belong to
        # another interpreter, so the depth is kept on the interpreter that executes the block
        it.aio.timeout_depth += 1
        return self

    def pyvc_exit(self, it, exc, is_async):
        it.aio.timeout_depth -= 1
        return False

    def pyvc_getattr(self, it, name):
        if name == 'shift':
            def shift(it2, a, k):
                self.shifted.append(a[0])
            return Native('Timeout.shift', shift)
        raise Unsupported(f'Timeout.{name}')

    def pyvc_truth(self, it):
        return True


class SuppressCM:
    """contextlib.suppress(*exceptions): an exception of one of the given classes raised inside the block ends the block silently."""

    def __init__(self, types):
        self.types = tuple(types)

    def pyvc_enter(self, it, is_async):
        return None

    def pyvc_exit(self, it, exc, is_async):
        return exc is not None and bool(self.types) and it.exc_matches(exc, self.types)

    def pyvc_truth(self, it):
        return True


class LockVal:
    def __init__(self, aio: Aio, name='lock'):
        self.aio = aio
        self.name = name
        self.locked = False
        self.acquisitions = 0

    def pyvc_enter(self, it, is_async):
        # acquiring may have to wait: yield point (the lock may be held by another activation)
        self.aio.yield_point(f'acquire {self.name}')
        self.locked = True
        self.acquisitions += 1
        return None

    def pyvc_exit(self, it, exc, is_async):
        self.locked = False
        return False

    def pyvc_getattr(self, it, name):
        if name == 'locked':
            return Native('Lock.locked', lambda it2, a, k: self.locked)
        raise Unsupported(f'Lock.{name}')

    def pyvc_truth(self, it):
        return True


class EventVal:
    def __init__(self, aio: Aio):
        self.aio = aio
        self.is_set = False

    def pyvc_getattr(self, it, name):
        if name == 'set':
            return Native('Event.set', lambda it2, a, k: setattr(self, 'is_set', True))
        if name == 'clear':
            return Native('Event.clear', lambda it2, a, k: setattr(self, 'is_set', False))
        if name == 'is_set':
            return Native('Event.is_set', lambda it2, a, k: self.is_set)
        if name == 'wait':
            return Native('Event.wait', lambda it2, a, k: SimpleAwaitable(self.aio, 'Event.wait', lambda it3: True))
        raise Unsupported(f'Event.{name}')

    def pyvc_truth(self, it):
        return True


def install(it) -> Aio:
    aio = Aio(it)
    it.aio = aio
    N = it.natives

    def reg(name, fn):
        N[name] = Native(name, fn)

    def create_task(it2, a, k):
        coro = a[0]
        aio.task_counter += 1
        name = unbox(k.get('name')) if k.get('name') is not None else f'Task-{aio.task_counter}'
        if not isinstance(name, str):
            name = f'Task-{aio.task_counter}'
        t = TaskVal(aio, coro, name)
        aio.tasks.append(t)
        return t
    reg('asyncio.create_task', create_task)
    reg('asyncio.ensure_future', create_task)

    def sleep(it2, a, k):
        def after(it3):
            if aio.sleep_hook is not None:
                aio.sleep_hook(it3, a[0] if a else 0)
            return None
        return SimpleAwaitable(aio, 'asyncio.sleep', after)
    reg('asyncio.sleep', sleep)

    def gather(it2, a, k):
        items = list(a)
        ret_exc = bool(unbox(k.get('return_exceptions', False)))

        def run(it3):
            results = []
            from .interp import CoroVal
            for x in items:
                if isinstance(x, CoroVal):
                    # a coroutine passed to gather is its own activation; executed here in order
                    try:
                        results.append(it3.run_coro(x))
                    except PyRaise as pr:
                        if ret_exc and it3.is_subclass(pr.exc.cls, BUILTIN_CLASSES['Exception']):
                            results.append(pr.exc)
                        elif ret_exc and pr.exc.cls.name == 'CancelledError':
                            results.append(pr.exc)
                        else:
                            raise
                elif isinstance(x, TaskVal):
                    x.awaited = True
                    if x.cancel_requested or x.cancelled is True:
                        x.done, x.cancelled = True, True
                        if not ret_exc:
                            it3.throw('CancelledError')
                        results.append(ExcVal(BUILTIN_CLASSES['CancelledError']))
                    elif x.on_await is not None:
                        try:
                            results.append(x.on_await(it3, x))
                        except PyRaise as pr:
                            if not ret_exc:
                                raise
                            results.append(pr.exc)
                    else:
                        x.done = True
                        results.append(Opaque(f'result of {x!r}'))
                elif isinstance(x, SimpleAwaitable):
                    try:
                        results.append(x.fn(it3))
                    except PyRaise as pr:
                        if not ret_exc:
                            raise
                        results.append(pr.exc)
                else:
                    raise Unsupported(f'gather of {x!r}')
            return results
        return SimpleAwaitable(aio, 'asyncio.gather', run)
    reg('asyncio.gather', gather)

    def wait(it2, a, k):
        items = list(it2.iterate(a[0]))

        def run(it3):
            if aio.wait_policy is None:
                raise Unsupported('asyncio.wait without a policy (harness must say which awaitables complete)')
            done, pending = aio.wait_policy(it3, items, k)
            if not done and k.get('timeout') is None:
                # nothing completes and wait() has no timeout of its own: it returns only through an enclosing timeout block (whose
                # expiry reaches the caller as TimeoutError) - otherwise this activation is blocked for good (no terminating path)
                if it3.aio.timeout_depth > 0:
                    it3.throw('TimeoutError')
                from .ctx import PathAbort
                raise PathAbort()
            return (set(done), set(pending))
        return SimpleAwaitable(aio, 'asyncio.wait', run)
    reg('asyncio.wait', wait)
    reg('asyncio.Lock', lambda it2, a, k: LockVal(aio))
    reg('asyncio.Event', lambda it2, a, k: EventVal(aio))
    reg('asyncio.Future', lambda it2, a, k: TaskVal(aio, None, '', kind='future'))
    reg('async_timeout.timeout', lambda it2, a, k: TimeoutCM(aio, a[0] if a else None))
    reg('contextlib.suppress', lambda it2, a, k: SuppressCM(a))
    reg('asyncio.iscoroutinefunction', lambda it2, a, k: _iscoro(a[0]))
    reg('inspect.iscoroutinefunction', lambda it2, a, k: _iscoro(a[0]))
    reg('inspect.isawaitable', lambda it2, a, k: hasattr(a[0], 'pyvc_await'))
    N['asyncio.FIRST_COMPLETED'] = 'FIRST_COMPLETED'
    return aio


def _iscoro(f):
    if isinstance(f, Bound):
        f = f.func
    if isinstance(f, PyFunc):
        return f.is_async
    if hasattr(f, 'is_async'):
        return f.is_async
    return False
