"""AST-level symbolic interpreter for the Python subset used by aioslsk.

Executes the *real* function bodies (ast nodes of the working tree) on mixed
concrete / symbolic values.  One instance per path (see ctx.Explorer)."""
from __future__ import annotations
import ast
import operator
from typing import Any, Callable, Optional

import z3

from .ctx import Ctx, Unsupported, PathAbort
from .loader import Source, ModuleInfo
from .values import (
    Sym, Boxed, Obj, EnumMember, PyFunc, Bound, Native, ClassVal, BuiltinClass, BUILTIN_CLASSES,
    ExcVal, ModuleVal, SuperVal, Opaque, Cell, PyRaise, ReturnEx, BreakEx, ContinueEx,
    z3int, z3real, z3str, unbox,
)
from .rope import Rope, Lit, LE, Blob, ByteArr, SymList, SymElem, ArrSeg


class ClassMethodVal:
    def __init__(self, func):
        self.func = func


class StaticMethodVal:
    def __init__(self, func):
        self.func = func


class PropertyVal:
    def __init__(self, fget, fset=None):
        self.fget = fget
        self.fset = fset


class FieldSpec:
    """dataclasses.field(...) as written in a class body."""

    def __init__(self, default=None, has_default=False, default_factory=None, metadata=None, init=True):
        self.default = default
        self.has_default = has_default
        self.default_factory = default_factory
        self.metadata = metadata if metadata is not None else {}
        self.init = init


class FieldObj:
    """dataclasses.Field as returned by fields()."""

    def __init__(self, name, spec: FieldSpec, annotation):
        self.name = name
        self.metadata = spec.metadata
        self.spec = spec
        self.annotation = annotation

    def __repr__(self):
        return f'Field({self.name})'


class CoroVal:
    """A coroutine object: an async function called but not yet awaited."""

    def __init__(self, func, args, kwargs, self_val=None):
        self.func = func
        self.args = args
        self.kwargs = kwargs

    def __repr__(self):
        return f'<coro {self.func!r}>'


class Env:
    def __init__(self, func: Optional[PyFunc], module: ModuleInfo, parent: Optional['Env'] = None):
        self.vars: dict[str, Any] = {}
        self.func = func
        self.module = module
        self.parent = parent           # enclosing function env (closures)
        self.first_arg = None
        self.loop_ordinal = 0
        self.cls_scope: Optional[dict] = None   # when executing a class body

    def lookup(self, name: str):
        e = self
        while e is not None:
            if name in e.vars:
                v = e.vars[name]
                return v.v if isinstance(v, Cell) else v
            e = e.parent
        raise KeyError(name)

    def has(self, name: str) -> bool:
        e = self
        while e is not None:
            if name in e.vars:
                return True
            e = e.parent
        return False


_BINOPS = {
    ast.Add: operator.add, ast.Sub: operator.sub, ast.Mult: operator.mul, ast.Div: operator.truediv,
    ast.FloorDiv: operator.floordiv, ast.Mod: operator.mod, ast.Pow: operator.pow,
    ast.LShift: operator.lshift, ast.RShift: operator.rshift, ast.BitOr: operator.or_,
    ast.BitAnd: operator.and_, ast.BitXor: operator.xor,
}
_CMPOPS = {
    ast.Eq: operator.eq, ast.NotEq: operator.ne, ast.Lt: operator.lt, ast.LtE: operator.le,
    ast.Gt: operator.gt, ast.GtE: operator.ge,
}


class ClassTable:
    """Path-independent cache of ClassVal objects built from the AST."""

    def __init__(self, source: Source):
        self.source = source
        self.by_node: dict[int, ClassVal] = {}
        self.static_values: dict[tuple, Any] = {}   # (id(classnode), name) -> evaluated class attr
        self.module_values: dict[tuple, Any] = {}   # (module name, name) -> evaluated module-level constant
        self._subclasses_built = False
        self.all_classes: list[ClassVal] = []

    def build_all(self, interp: 'Interp'):
        """Instantiate every class in the tree (for __subclasses__)."""
        if self._subclasses_built:
            return
        self._subclasses_built = True
        for mod in self.source.modules.values():
            for node in mod.tree.body:
                if isinstance(node, ast.ClassDef):
                    try:
                        interp.get_class(mod, node, None)
                    except Unsupported:
                        pass


class HookArgs(list):
    """The positional arguments handed to a contract (hook).  It IS the list of positional arguments (len, iteration, slicing, forwarding
    to the real function are unchanged); only an index beyond its end is looked up among the keyword arguments by the name of that
    parameter of the real function - so `args[2]` works whether the analysed code passed the third argument by position or by keyword."""

    def __init__(self, args, params, kwargs):
        super().__init__(args)
        self._params, self._kwargs = params, kwargs

    def __getitem__(self, i):
        if isinstance(i, int) and i >= len(self) and i < len(self._params) and self._params[i] in self._kwargs:
            return self._kwargs[self._params[i]]
        return super().__getitem__(i)


class Interp:
    MAX_DEPTH = 60

    def __init__(self, source: Source, ctx: Ctx, table: Optional[ClassTable] = None):
        self.source = source
        self.ctx = ctx
        self.table = table or ClassTable(source)
        self.hooks: dict[str, Callable] = {}       # function fullname -> handler(interp, func, args, kwargs)
        self.natives: dict[str, Any] = {}          # dotted name -> value
        self.loop_specs: dict[tuple, Any] = {}     # (fullname, ordinal) -> spec handler
        self.comp_specs: dict[tuple, Any] = {}     # (fullname, comprehension ordinal) -> contract of a comprehension / generator expression
        self.cls_overlay: dict[tuple, Any] = {}    # (id(ClassVal), name) -> value written at run time
        self.on_await: Optional[Callable] = None   # hook(interp, value) for awaiting non-coroutines
        self.on_call_unknown: Optional[Callable] = None
        self.lazy_field: Optional[Callable] = None  # hook(interp, obj, name) -> value | raises KeyError
        self.trace_calls: list[str] = []
        self.log_events: list[tuple] = []
        self.inlined: set[str] = set()
        self.depth = 0
        self.drop_logging = True
        self.write_log: Optional[list] = None      # if set: list of (obj, attr) stores (frame tracking)
        from . import natives as _n
        _n.install(self)

    # ------------------------------------------------------------------ classes
    def get_class(self, mod: ModuleInfo, node: ast.ClassDef, outer: Optional[ClassVal]) -> ClassVal:
        cv = self.table.by_node.get(id(node))
        if cv is not None:
            return cv
        qual = (outer.qual + '.' if outer else '') + node.name
        cv = ClassVal(node, mod, qual, outer)
        self.table.by_node[id(node)] = cv
        self.table.all_classes.append(cv)
        for stmt in node.body:
            if isinstance(stmt, (ast.FunctionDef, ast.AsyncFunctionDef)):
                cv.members.setdefault(stmt.name, [])
                cv.members[stmt.name].append(stmt)
            elif isinstance(stmt, ast.ClassDef):
                cv.members[stmt.name] = [stmt]
            elif isinstance(stmt, ast.Assign):
                for t in stmt.targets:
                    if isinstance(t, ast.Name):
                        cv.members[t.id] = [stmt]
            elif isinstance(stmt, ast.AnnAssign) and isinstance(stmt.target, ast.Name):
                cv.annotations[stmt.target.id] = stmt.annotation
                if stmt.value is not None:
                    cv.members[stmt.target.id] = [stmt]
        env = Env(None, mod)
        # bases
        for b in node.bases:
            try:
                bv = self.eval(b, env) if not (outer and isinstance(b, ast.Name) and b.id in outer.members) \
                    else self.class_attr(outer, b.id)
            except (Unsupported, KeyError):
                bv = BUILTIN_CLASSES['object']
            bv = self.as_class(bv)
            if isinstance(bv, (ClassVal, BuiltinClass)):
                cv.bases.append(bv)
            else:
                cv.bases.append(BUILTIN_CLASSES['object'])
        if not cv.bases:
            cv.bases = [BUILTIN_CLASSES['object']]
        cv.mro = _c3(cv)
        for b in cv.bases:
            if isinstance(b, ClassVal):
                b.subclasses.append(cv)
        # decorators
        for d in node.decorator_list:
            name = d.func.id if isinstance(d, ast.Call) and isinstance(d.func, ast.Name) else \
                d.id if isinstance(d, ast.Name) else None
            if name == 'dataclass':
                cv.is_dataclass = True
                if isinstance(d, ast.Call):
                    for kw in d.keywords:
                        try:
                            cv.dc_params[kw.arg] = ast.literal_eval(kw.value)
                        except ValueError:
                            cv.dc_params[kw.arg] = None
        # enums
        if any(isinstance(c, BuiltinClass) and c.name in ('Enum', 'Flag', 'IntEnum', 'IntFlag') for c in cv.mro):
            self._build_enum(cv, env)
        return cv

    def _build_enum(self, cv: ClassVal, env: Env):
        members = []
        auto_n = 0
        is_flag = any(isinstance(c, BuiltinClass) and c.name in ('Flag', 'IntFlag') for c in cv.mro)
        for stmt in cv.node.body:
            if isinstance(stmt, ast.Assign) and len(stmt.targets) == 1 and isinstance(stmt.targets[0], ast.Name):
                nm = stmt.targets[0].id
                if nm.startswith('_'):
                    continue
                v = stmt.value
                if isinstance(v, ast.Call) and isinstance(v.func, ast.Name) and v.func.id == 'auto':
                    auto_n += 1
                    val = (1 << (auto_n - 1)) if is_flag else auto_n
                else:
                    try:
                        val = ast.literal_eval(v)
                    except Exception:
                        val = self.eval(v, env)
                    if isinstance(val, int):
                        auto_n = val if not is_flag else max(auto_n, val.bit_length())
                env.vars[nm] = val
                members.append(EnumMember(cv, nm, val, len(members)))
        cv.enum_members = members
        cv.is_flag = is_flag

    def as_class(self, v):
        if isinstance(v, Native) and v.name.startswith('builtins.') and v.name[9:] in BUILTIN_CLASSES:
            return BUILTIN_CLASSES[v.name[9:]]
        if isinstance(v, Native) and v.name.split('.')[0] in ('asyncio', 'collections', 'weakref') \
                and v.name.split('.')[-1] in BUILTIN_CLASSES:
            return BUILTIN_CLASSES[v.name.split('.')[-1]]
        if isinstance(v, ModuleAttr):
            nm = v.attr
            if nm in BUILTIN_CLASSES:
                return BUILTIN_CLASSES[nm]
        return v

    def is_subclass(self, c, base) -> bool:
        c, base = self.as_class(c), self.as_class(base)
        if c is base:
            return True
        return base in getattr(c, 'mro', [c])

    def class_of(self, v):
        """Dynamic class of a value (ClassVal or BuiltinClass)."""
        B = BUILTIN_CLASSES
        if isinstance(v, (Obj, Boxed)):
            return v.cls
        if isinstance(v, ExcVal):
            return v.cls
        if isinstance(v, EnumMember):
            return v.cls
        if isinstance(v, bool):
            return B['bool']
        if isinstance(v, int):
            return B['int']
        if isinstance(v, str):
            return B['str']
        if isinstance(v, float):
            return B['float']
        if isinstance(v, bytes):
            return B['bytes']
        if v is None:
            return B['NoneType']
        if isinstance(v, tuple):
            return B['tuple']
        if isinstance(v, list):
            return B['list']
        if isinstance(v, dict):
            return B['dict']
        if isinstance(v, (set,)):
            return B['set']
        if isinstance(v, frozenset):
            return B['frozenset']
        if isinstance(v, Rope):
            return B['bytes']
        if isinstance(v, ByteArr):
            return B['bytearray']
        if isinstance(v, Sym):
            if v.k == 'enum':
                return v.enum
            return {'int': B['int'], 'bool': B['bool'], 'real': B['float'], 'str': B['str'], 'ustr': B['str']}[v.k]
        if isinstance(v, (ClassVal, BuiltinClass)):
            return B['type']
        if isinstance(v, (PyFunc, Bound, Native)):
            return B['function']
        if isinstance(v, FieldObj):
            return B['Field']
        if hasattr(v, 'pyvc_class'):
            return v.pyvc_class(self)
        raise Unsupported(f'class_of({v!r})')

    def class_attr_raw(self, cls, name: str):
        """Look a name up along the MRO; returns (owner, raw value) or raises KeyError."""
        for c in cls.mro:
            if isinstance(c, ClassVal):
                key = (id(c), name)
                if key in self.cls_overlay:
                    return c, self.cls_overlay[key]
                if name in c.members:
                    return c, self._eval_member(c, name)
                if name == '__subclasses__':
                    continue
        raise KeyError(name)

    def _eval_member(self, c: ClassVal, name: str):
        key = (id(c.node), name)
        tv = self.table.static_values
        if key in tv:
            return tv[key]
        nodes = c.members[name]
        val = None
        for node in nodes:
            if isinstance(node, (ast.FunctionDef, ast.AsyncFunctionDef)):
                f = PyFunc(node, c.module, c.qual + '.' + node.name, defcls=c)
                wrapped: Any = f
                for d in reversed(node.decorator_list):
                    dn = _dotted(d)
                    if dn == 'classmethod':
                        wrapped = ClassMethodVal(f)
                    elif dn == 'staticmethod':
                        wrapped = StaticMethodVal(f)
                    elif dn == 'property':
                        wrapped = PropertyVal(f)
                    elif dn and dn.endswith('.setter'):
                        prev = val if isinstance(val, PropertyVal) else None
                        wrapped = PropertyVal(prev.fget if prev else None, f)
                    elif dn in ('abc.abstractmethod', 'abstractmethod', 'functools.wraps'):
                        pass
                    else:
                        f.decorators = getattr(f, 'decorators', []) + [d]
                val = wrapped
            elif isinstance(node, ast.ClassDef):
                val = self.get_class(c.module, node, c)
            else:
                env = Env(None, c.module)
                env.cls_scope = {'__cls__': c}
                val = self.eval(node.value, env)
        tv[key] = val
        return val

    def class_attr(self, cls, name: str, bind_to=None):
        """getattr(cls, name) semantic for classes."""
        if name == '__name__':
            return cls.name
        if name == '__subclasses__' and isinstance(cls, ClassVal):
            self.table.build_all(self)
            subs = list(cls.subclasses)
            return Native('__subclasses__', lambda it, a, k: list(subs))
        if name == '__mro__':
            return tuple(cls.mro)
        if isinstance(cls, ClassVal) and cls.enum_members is not None:
            for m in cls.enum_members:
                if m.name == name:
                    return m
        owner, raw = self.class_attr_raw(cls, name)
        if isinstance(raw, ClassMethodVal):
            return Bound(raw.func, bind_to if bind_to is not None else cls)
        if isinstance(raw, StaticMethodVal):
            return raw.func
        return raw

    def dataclass_fields(self, cls: ClassVal) -> list[FieldObj]:
        out: dict[str, FieldObj] = {}
        for c in reversed(cls.mro):
            if not isinstance(c, ClassVal) or not c.is_dataclass:
                continue
            for stmt in c.node.body:
                if isinstance(stmt, ast.AnnAssign) and isinstance(stmt.target, ast.Name):
                    nm = stmt.target.id
                    ann = stmt.annotation
                    if 'ClassVar' in ast.dump(ann) or (isinstance(ann, ast.Constant) and 'ClassVar' in str(ann.value)):
                        continue
                    if stmt.value is None:
                        spec = FieldSpec()
                    else:
                        v = self._eval_member(c, nm)
                        spec = v if isinstance(v, FieldSpec) else FieldSpec(default=v, has_default=True)
                    out[nm] = FieldObj(nm, spec, ann)
        return list(out.values())

    # ------------------------------------------------------------------ names
    def module_global(self, mod: ModuleInfo, name: str):
        key = (mod.name, name)
        mv = self.table.module_values
        if key in mv:
            return mv[key]
        if name in mod.toplevel:
            node = mod.toplevel[name]
            if isinstance(node, (ast.FunctionDef, ast.AsyncFunctionDef)):
                v = PyFunc(node, mod, node.name)
                if node.decorator_list:
                    v.decorators = list(node.decorator_list)
            elif isinstance(node, ast.ClassDef):
                v = self.get_class(mod, node, None)
            else:
                dn = f'{mod.name}.{name}'
                if dn in self.natives:
                    v = self.natives[dn]
                else:
                    v = self.eval(node.value, Env(None, mod))
            mv[key] = v
            return v
        if name in mod.imports:
            imp = mod.imports[name]
            if imp[0] == 'mod':
                v = self.resolve_module(imp[1])
            else:
                v = self.resolve_import(imp[1], imp[2])
            mv[key] = v
            return v
        if 'builtins.' + name in self.natives:
            return self.natives['builtins.' + name]
        if name in BUILTIN_CLASSES:
            return BUILTIN_CLASSES[name]
        raise Unsupported(f'unresolved name {name} in {mod.name}')

    def resolve_module(self, dotted: str):
        m = self.source.modules.get(dotted)
        if m is not None:
            return RepoModule(m)
        return ModuleVal(dotted)

    def resolve_import(self, base: str, attr: str):
        m = self.source.modules.get(base)
        if m is not None:
            sub = self.source.modules.get(base + '.' + attr)
            if attr in m.toplevel or attr in m.imports:
                return self.module_global(m, attr)
            if sub is not None:
                return RepoModule(sub)
            raise Unsupported(f'import {attr} from {base}')
        dn = f'{base}.{attr}'
        if dn in self.natives:
            return self.natives[dn]
        if attr in BUILTIN_CLASSES and base in ('builtins', 'abc', 'enum', 'typing', 'typing_extensions', 'asyncio',
                                               'collections', 'weakref', 'pydantic', 'pydantic_settings', 'struct',
                                               'asyncio.exceptions', 'dataclasses', 'async_timeout'):
            return BUILTIN_CLASSES[attr]
        if base in ('typing', 'typing_extensions', 'collections.abc', 'types'):
            return TypingThing(attr)
        if self.source.modules.get(base + '.' + attr):
            return RepoModule(self.source.modules[base + '.' + attr])
        return ModuleAttr(base, attr)

    def lookup_name(self, name: str, env: Env):
        try:
            return env.lookup(name)
        except KeyError:
            pass
        if env.cls_scope is not None:
            c = env.cls_scope['__cls__']
            if name in c.members:
                return self._eval_member(c, name)
        return self.module_global(env.module, name)

    # ------------------------------------------------------------------ truth / conversions
    def truth(self, v):
        """Python truthiness as a python bool or z3 Bool."""
        if isinstance(v, Boxed):
            return self.truth(v.val)
        if v is None:
            return False
        if isinstance(v, (bool, int, float, str, bytes, tuple, list, dict, set, frozenset)):
            return bool(v)
        if isinstance(v, Sym):
            if v.k == 'bool':
                return v.t
            if v.k == 'int':
                return v.t != 0
            if v.k == 'real':
                return v.t != 0
            if v.k == 'str':
                return z3.Length(v.t) > 0
            if v.k == 'ustr':
                from .natives import utf8_len
                return utf8_len(v.t) > 0
            if v.k == 'enum':
                if getattr(v.enum, 'is_flag', False):
                    return v.t != 0
                return True
        if isinstance(v, Rope):
            c = v.concrete()
            if c is not None:
                return bool(c)
            return v.length() > 0
        if isinstance(v, ByteArr):
            return self.truth(v.rope)
        if isinstance(v, Obj):
            for dunder in ('__bool__', '__len__'):
                try:
                    self.class_attr_raw(v.cls, dunder)
                    r = self.call(self.getattr(v, dunder), [], {})
                    return self.truth(r)
                except KeyError:
                    continue
            return True
        if isinstance(v, EnumMember):
            if getattr(v.cls, 'is_flag', False):
                return bool(v.value)
            return True
        if isinstance(v, (PyFunc, Bound, Native, ClassVal, BuiltinClass, ExcVal, FieldObj, CoroVal, ModuleVal)):
            return True
        if hasattr(v, 'pyvc_truth'):
            return v.pyvc_truth(self)
        raise Unsupported(f'truth of {v!r}')

    def decide(self, v) -> bool:
        return self.ctx.branch(self.truth(v))

    # ------------------------------------------------------------------ exceptions
    def make_exc(self, cls, *args, **attrs) -> ExcVal:
        if isinstance(cls, str):
            cls = BUILTIN_CLASSES[cls]
        return ExcVal(cls, args, attrs)

    def throw(self, cls, *args, **attrs):
        raise PyRaise(self.make_exc(cls, *args, **attrs))

    def exc_matches(self, exc: ExcVal, handler_type) -> bool:
        if isinstance(handler_type, tuple):
            return any(self.exc_matches(exc, h) for h in handler_type)
        handler_type = self.as_class(handler_type)
        if isinstance(handler_type, (ClassVal, BuiltinClass)):
            return self.is_subclass(exc.cls, handler_type)
        raise Unsupported(f'except clause type {handler_type!r}')

    # ------------------------------------------------------------------ attribute access
    def getattr(self, obj, name: str):
        if isinstance(obj, Obj):
            try:
                owner, raw = self.class_attr_raw(obj.cls, name)
            except KeyError:
                raw = _MISSING
            if isinstance(raw, PropertyVal):
                return self.call(Bound(raw.fget, obj), [], {})
            if name in obj.attrs:
                return obj.attrs[name]
            if name == '__class__':
                return obj.cls
            if name == '__dict__':
                return DictView(obj)
            if obj.lazy and self.lazy_field is not None and raw is _MISSING:
                try:
                    v = self.lazy_field(self, obj, name)
                    obj.attrs[name] = v
                    return v
                except KeyError:
                    pass
            if raw is not _MISSING:
                if isinstance(raw, PyFunc):
                    return Bound(raw, obj)
                if isinstance(raw, ClassMethodVal):
                    return Bound(raw.func, obj.cls)
                if isinstance(raw, StaticMethodVal):
                    return raw.func
                if isinstance(raw, FieldSpec):
                    if raw.has_default:
                        return raw.default
                    self.throw('AttributeError', name)
                return raw
            if obj.lazy and self.lazy_field is not None:
                try:
                    v = self.lazy_field(self, obj, name)
                    obj.attrs[name] = v
                    return v
                except KeyError:
                    pass
            if 'future' in obj.ghost:
                return obj.ghost['future'].pyvc_getattr(self, name)
            self.throw('AttributeError', name)
        if isinstance(obj, Boxed):
            if name == '__class__':
                return obj.cls
            if isinstance(obj.val, SymElem):
                return obj.val.boxed_getattr(self, obj.cls, name)
            try:
                owner, raw = self.class_attr_raw(obj.cls, name)
                if isinstance(raw, PyFunc):
                    return Bound(raw, obj)
                if isinstance(raw, ClassMethodVal):
                    return Bound(raw.func, obj.cls)
                if isinstance(raw, StaticMethodVal):
                    return raw.func
                return raw
            except KeyError:
                return self.getattr(obj.val, name)
        if isinstance(obj, ClassVal):
            try:
                return self.class_attr(obj, name)
            except KeyError:
                self.throw('AttributeError', name)
        if isinstance(obj, SuperVal):
            target = obj.obj
            cls = target if isinstance(target, (ClassVal, BuiltinClass)) else self.class_of(target)
            mro = cls.mro
            idx = mro.index(obj.after) + 1 if obj.after in mro else 0
            for c in mro[idx:]:
                if isinstance(c, ClassVal):
                    key = (id(c), name)
                    raw = _MISSING
                    if key in self.cls_overlay:
                        raw = self.cls_overlay[key]
                    elif name in c.members:
                        raw = self._eval_member(c, name)
                    if raw is _MISSING:
                        continue
                    if isinstance(raw, PyFunc):
                        return Bound(raw, target)
                    if isinstance(raw, ClassMethodVal):
                        return Bound(raw.func, target if isinstance(target, (ClassVal, BuiltinClass)) else cls)
                    if isinstance(raw, StaticMethodVal):
                        return raw.func
                    return raw
                elif isinstance(c, BuiltinClass):
                    nm = f'{c.name}.{name}'
                    if nm in self.natives:
                        return Bound(self.natives[nm], target)
                    if name in ('__init__', '__init_subclass__', '__post_init__'):
                        return Native('noop', lambda it, a, k: None)
            raise Unsupported(f'super().{name} not found for {target!r}')
        if isinstance(obj, RepoModule):
            return self.module_global(obj.mod, name)
        if isinstance(obj, ModuleVal):
            dn = f'{obj.name}.{name}'
            if dn in self.natives:
                return self.natives[dn]
            if name in BUILTIN_CLASSES and obj.name in ('asyncio', 'builtins', 'struct', 'zlib', 'abc', 'enum',
                                                        'asyncio.exceptions', 're', 'pickle'):
                return BUILTIN_CLASSES[name]
            if f'{obj.name}.{name}' in BUILTIN_CLASSES:
                return BUILTIN_CLASSES[f'{obj.name}.{name}']
            return ModuleAttr(obj.name, name)
        if isinstance(obj, ModuleAttr):
            dn = f'{obj.base}.{obj.attr}.{name}'
            if dn in self.natives:
                return self.natives[dn]
            return ModuleAttr(f'{obj.base}.{obj.attr}', name)
        if isinstance(obj, EnumMember):
            if name == 'name':
                return obj.name
            if name == 'value':
                return obj.value
            if name == '__class__':
                return obj.cls
            try:
                owner, raw = self.class_attr_raw(obj.cls, name)
                if isinstance(raw, PyFunc):
                    return Bound(raw, obj)
                return raw
            except KeyError:
                self.throw('AttributeError', name)
        if isinstance(obj, ExcVal):
            if name in obj.attrs:
                return obj.attrs[name]
            if name == 'args':
                return obj.args
            if name == '__class__':
                return obj.cls
            self.throw('AttributeError', name)
        if isinstance(obj, FieldObj):
            if name == 'name':
                return obj.name
            if name == 'metadata':
                return obj.metadata
            if name == 'default':
                return obj.spec.default
            raise Unsupported(f'Field.{name}')
        if isinstance(obj, BuiltinClass) or (isinstance(obj, Native) and obj.name.startswith('builtins.')):
            base = obj.name if isinstance(obj, BuiltinClass) else obj.name[9:]
            if name == '__name__':
                return base
            dn = f'{base}.{name}'
            if dn in self.natives:
                return self.natives[dn]
            raise Unsupported(f'{dn}')
        if isinstance(obj, Bound):
            if name == '__self__':
                return obj.self_val
            if name == '__func__':
                return obj.func
            if name == '__name__':
                return obj.func.node.name if isinstance(obj.func, PyFunc) else str(obj.func)
        if isinstance(obj, PyFunc) and name == '__name__':
            return obj.node.name
        if name == '__class__':
            return self.class_of(obj)
        if hasattr(obj, 'pyvc_getattr'):
            return obj.pyvc_getattr(self, name)
        # builtin value methods
        from .natives import builtin_method
        return builtin_method(self, obj, name)

    def setattr(self, obj, name: str, value):
        if self.write_log is not None:
            self.write_log.append((obj, name))
        if isinstance(obj, Obj):
            try:
                owner, raw = self.class_attr_raw(obj.cls, name)
                if isinstance(raw, PropertyVal):
                    if raw.fset is None:
                        self.throw('AttributeError', name)
                    self.call(Bound(raw.fset, obj), [value], {})
                    return
            except KeyError:
                pass
            # data abstraction chosen by a contract module: the value stored in a field is replaced by its abstract view (e.g. a fresh
            # empty list[User] by the empty name set) so that later operations on the field stay inside the abstraction
            ab = getattr(self, 'attr_abstractions', None)
            if ab:
                fn = ab.get((obj.cls.name, name))
                if fn is not None:
                    value = fn(self, value)
            obj.attrs[name] = value
            return
        if isinstance(obj, ClassVal):
            self.cls_overlay[(id(obj), name)] = value
            return
        if hasattr(obj, 'pyvc_setattr'):
            return obj.pyvc_setattr(self, name, value)
        raise Unsupported(f'setattr on {obj!r}.{name}')

    # ------------------------------------------------------------------ calls
    @staticmethod
    def _positional_for_hook(f, args: list, kwargs: dict):
        """A contract (hook) of a repository function reads its arguments by POSITION; the analysed code may pass the same arguments by
        keyword.  Arguments given by keyword are moved to their position in the function's own parameter list, as long as they extend the
        positional ones without a gap (the remaining ones stay keywords); the keyword entries are kept as well, so a contract that reads
        `kwargs.get(name, args[i])` sees the value either way."""
        try:
            params = [a.arg for a in f.node.args.posonlyargs + f.node.args.args]
        except AttributeError:
            return args, kwargs
        return HookArgs(args, params, kwargs), kwargs

    def call(self, f, args: list, kwargs: dict):
        if isinstance(f, Bound):
            return self.call(f.func, [f.self_val] + list(args), kwargs)
        if isinstance(f, Native):
            return f.fn(self, list(args), dict(kwargs))
        if isinstance(f, PyFunc):
            hook = self.hooks.get(f.fullname)
            if hook is not None:
                a2, k2 = self._positional_for_hook(f, list(args), dict(kwargs))
                return hook(self, f, a2, k2)
            if f.is_async:
                return CoroVal(f, list(args), dict(kwargs))
            return self.inline(f, args, kwargs)
        if isinstance(f, ClassVal):
            return self.instantiate(f, list(args), dict(kwargs))
        if isinstance(f, BuiltinClass):
            nm = 'builtins.' + f.name
            if nm in self.natives:
                return self.natives[nm].fn(self, list(args), dict(kwargs))
            if self.is_subclass(f, BUILTIN_CLASSES['BaseException']):
                return ExcVal(f, args)
            raise Unsupported(f'call of builtin class {f.name}')
        if isinstance(f, Obj):
            try:
                self.class_attr_raw(f.cls, '__call__')
            except KeyError:
                raise Unsupported(f'object not callable: {f!r}')
            return self.call(self.getattr(f, '__call__'), args, kwargs)
        if hasattr(f, 'pyvc_call'):
            return f.pyvc_call(self, list(args), dict(kwargs))
        if self.on_call_unknown is not None:
            return self.on_call_unknown(self, f, list(args), dict(kwargs))
        raise Unsupported(f'call of {f!r}')

    def bind_params(self, f: PyFunc, args: list, kwargs: dict, env: Env):
        a = f.node.args
        params = [p.arg for p in a.posonlyargs + a.args]
        defaults = a.defaults
        ndef = len(defaults)
        args = list(args)
        kwargs = dict(kwargs)
        for i, p in enumerate(params):
            if i < len(args):
                if p in kwargs:
                    self.throw('TypeError', f'multiple values for {p}')
                env.vars[p] = args[i]
            elif p in kwargs:
                env.vars[p] = kwargs.pop(p)
            else:
                di = i - (len(params) - ndef)
                if di >= 0:
                    env.vars[p] = self.eval(defaults[di], Env(None, f.module, f.closure))
                else:
                    self.throw('TypeError', f'{f.qual}() missing argument {p}')
        extra = args[len(params):]
        if a.vararg is not None:
            env.vars[a.vararg.arg] = tuple(extra)
        elif extra:
            self.throw('TypeError', f'{f.qual}() takes {len(params)} positional arguments')
        for p, d in zip(a.kwonlyargs, a.kw_defaults):
            if p.arg in kwargs:
                env.vars[p.arg] = kwargs.pop(p.arg)
            elif d is not None:
                env.vars[p.arg] = self.eval(d, Env(None, f.module, f.closure))
            else:
                self.throw('TypeError', f'{f.qual}() missing keyword argument {p.arg}')
        if a.kwarg is not None:
            env.vars[a.kwarg.arg] = kwargs
        elif kwargs:
            self.throw('TypeError', f'{f.qual}() got unexpected keyword {list(kwargs)}')
        if params and args:
            env.first_arg = args[0]
        elif params:
            env.first_arg = env.vars.get(params[0])

    def inline(self, f: PyFunc, args, kwargs):
        """Execute the body of a repository function in place."""
        if self.depth > self.MAX_DEPTH:
            raise Unsupported(f'call depth exceeded at {f.fullname}')
        env = Env(f, f.module, f.closure)
        self.bind_params(f, args, kwargs, env)
        self.inlined.add(f.fullname)
        self.depth += 1
        try:
            if isinstance(f.node, ast.Lambda):
                return self.eval(f.node.body, env)
            self.exec_block(f.node.body, env)
        except ReturnEx as r:
            return r.value
        finally:
            self.depth -= 1
        return None

    def run_coro(self, c: CoroVal):
        return self.inline(c.func, c.args, c.kwargs)

    def instantiate(self, cls: ClassVal, args: list, kwargs: dict):
        # builtin-valued subclasses (uint32(int), string(str), array(list), ...)
        for c in cls.mro:
            if isinstance(c, BuiltinClass) and c.name in ('int', 'str', 'bytes', 'list', 'float'):
                try:
                    self.class_attr_raw(cls, '__init__')
                    has_init = True
                except KeyError:
                    has_init = False
                if not has_init and len(args) == 1 and isinstance(args[0], (SymElem, SymList)):
                    return Boxed(cls, args[0])
                if not has_init:
                    conv = self.natives['builtins.' + c.name]
                    return Boxed(cls, unbox(conv.fn(self, args, kwargs)))
        if cls.enum_members is not None:
            (v,) = args
            return self.enum_from_value(cls, v)
        if self.is_subclass(cls, BUILTIN_CLASSES['BaseException']):
            exc = ExcVal(cls, tuple(args))
            try:
                owner, init = self.class_attr_raw(cls, '__init__')
            except KeyError:
                return exc
            holder = ExcObj(exc)
            self.call(Bound(init, holder), args, kwargs)
            return exc
        obj = Obj(cls)
        self.attach_future(obj)
        try:
            owner, init = self.class_attr_raw(cls, '__init__')
        except KeyError:
            init = None
        if init is not None:
            self.call(Bound(init, obj), args, kwargs)
            return obj
        if cls.is_dataclass or any(isinstance(c, ClassVal) and c.is_dataclass for c in cls.mro):
            self.dataclass_init(obj, cls, args, kwargs)
            try:
                owner, post = self.class_attr_raw(cls, '__post_init__')
                self.call(Bound(post, obj), [], {})
            except KeyError:
                pass
            return obj
        if args or kwargs:
            self.throw('TypeError', f'{cls.name}() takes no arguments')
        return obj

    def attach_future(self, obj: Obj):
        """Instances of repo classes deriving from asyncio.Future carry an abstract future (pyvc.aio.TaskVal)."""
        if any(isinstance(c, BuiltinClass) and c.name in ('Future', 'Task') for c in obj.cls.mro) and hasattr(self, 'aio'):
            from .aio import TaskVal
            obj.ghost['future'] = TaskVal(self.aio, None, obj.label, kind='future')
            obj.ghost['future'].owner = obj

    def dataclass_init(self, obj: Obj, cls: ClassVal, args: list, kwargs: dict):
        flds = self.dataclass_fields(cls)
        kwargs = dict(kwargs)
        if len(args) > len(flds):
            self.throw('TypeError', f'{cls.name}() takes {len(flds)} positional arguments')
        for i, fo in enumerate(flds):
            if i < len(args):
                if fo.name in kwargs:
                    self.throw('TypeError', f'{cls.name}() multiple values for {fo.name}')
                obj.attrs[fo.name] = args[i]
            elif fo.name in kwargs:
                obj.attrs[fo.name] = kwargs.pop(fo.name)
            elif fo.spec.has_default:
                obj.attrs[fo.name] = fo.spec.default
            elif fo.spec.default_factory is not None:
                obj.attrs[fo.name] = self.call(fo.spec.default_factory, [], {})
            else:
                self.throw('TypeError', f'{cls.name}() missing required argument {fo.name!r}')
        if kwargs:
            self.throw('TypeError', f'{cls.name}() unexpected keyword {list(kwargs)}')

    def enum_from_value(self, cls: ClassVal, v):
        v = unbox(v)
        if isinstance(v, Sym):
            idx = self.ctx.fresh_int('enumidx')
            conds = []
            for m in cls.enum_members:
                conds.append(z3.And(idx == m.index, z3int(v) == m.value))
            hit = z3.Or(*conds) if conds else False
            if self.ctx.branch(z3.Or(*[z3int(v) == m.value for m in cls.enum_members])):
                self.ctx.assume(hit)
                return Sym(idx, 'enum', cls)
            self.throw('ValueError', 'not a valid enum value')
        for m in cls.enum_members:
            if m.value == v:
                return m
        if getattr(cls, 'is_flag', False) and isinstance(v, int):
            allbits = 0
            for m in cls.enum_members:
                allbits |= m.value
            if v & ~allbits == 0:
                return self.flag_value(cls, v)
        self.throw('ValueError', f'{v!r} is not a valid {cls.name}')

    # ------------------------------------------------------------------ statements
    def exec_block(self, stmts, env: Env):
        for s in stmts:
            self.exec_stmt(s, env)

    def exec_stmt(self, node, env: Env):
        m = getattr(self, 'st_' + type(node).__name__, None)
        if m is None:
            raise Unsupported(f'statement {type(node).__name__} at line {getattr(node, "lineno", "?")}')
        return m(node, env)

    def st_Expr(self, node, env):
        if isinstance(node.value, ast.Constant):
            return   # docstring
        if self.drop_logging and _is_logging_call(node.value):
            self.log_events.append((node.value.func.attr, env.func.fullname if env.func else '', node.value.lineno))
            return
        self.eval(node.value, env)

    def st_Pass(self, node, env):
        pass

    def st_Assign(self, node, env):
        v = self.eval(node.value, env)
        for t in node.targets:
            self.assign(t, v, env)

    def st_AnnAssign(self, node, env):
        if node.value is not None:
            self.assign(node.target, self.eval(node.value, env), env)

    def st_AugAssign(self, node, env):
        if isinstance(node.target, ast.Name):
            cur = self.lookup_name(node.target.id, env)
            new = self.inplace(node.op, cur, self.eval(node.value, env))
            self.assign(node.target, new, env)
        elif isinstance(node.target, ast.Attribute):
            o = self.eval(node.target.value, env)
            cur = self.getattr(o, node.target.attr)
            new = self.inplace(node.op, cur, self.eval(node.value, env))
            self.setattr(o, node.target.attr, new)
        elif isinstance(node.target, ast.Subscript):
            o = self.eval(node.target.value, env)
            idx = self.eval_index(node.target.slice, env)
            cur = self.getitem(o, idx)
            new = self.inplace(node.op, cur, self.eval(node.value, env))
            self.setitem(o, idx, new)
        else:
            raise Unsupported('augassign target')

    def inplace(self, op, cur, val):
        if isinstance(cur, list) and isinstance(op, ast.Add):
            cur.extend(self.iterate(val))
            return cur
        if isinstance(cur, ByteArr) and isinstance(op, ast.Add):
            from .natives import to_rope
            cur.rope = cur.rope + to_rope(self, val)
            return cur
        if isinstance(cur, set) and isinstance(op, (ast.BitOr, ast.Sub, ast.BitAnd)):
            r = self.binop(op, cur, val)
            if not isinstance(r, (set, frozenset)):
                return r            # a concrete (empty) set combined with a symbolic one
            cur.clear()
            cur.update(r)
            return cur
        if hasattr(cur, 'pyvc_inplace'):
            return cur.pyvc_inplace(self, op, val)
        return self.binop(op, cur, val)

    def assign(self, target, value, env: Env):
        if isinstance(target, ast.Name):
            cur = env.vars.get(target.id)
            if isinstance(cur, Cell):
                cur.v = value
            else:
                e = env
                nl = getattr(env, 'nonlocals', ())
                if target.id in nl:
                    e = env.parent
                    while e is not None and target.id not in e.vars:
                        e = e.parent
                    if e is None:
                        raise Unsupported('nonlocal not found')
                e.vars[target.id] = value
        elif isinstance(target, ast.Attribute):
            self.setattr(self.eval(target.value, env), target.attr, value)
        elif isinstance(target, ast.Subscript):
            self.setitem(self.eval(target.value, env), self.eval_index(target.slice, env), value)
        elif isinstance(target, (ast.Tuple, ast.List)):
            items = self.iterate(value)
            star = [i for i, e in enumerate(target.elts) if isinstance(e, ast.Starred)]
            if star:
                si = star[0]
                after = len(target.elts) - si - 1
                if len(items) < len(target.elts) - 1:
                    self.throw('ValueError', 'not enough values to unpack')
                for e, v in zip(target.elts[:si], items[:si]):
                    self.assign(e, v, env)
                self.assign(target.elts[si].value, list(items[si:len(items) - after]), env)
                for e, v in zip(target.elts[si + 1:], items[len(items) - after:]):
                    self.assign(e, v, env)
            else:
                if len(items) != len(target.elts):
                    self.throw('ValueError', f'unpack: expected {len(target.elts)} got {len(items)}')
                for e, v in zip(target.elts, items):
                    self.assign(e, v, env)
        else:
            raise Unsupported(f'assign target {type(target).__name__}')

    def st_Return(self, node, env):
        raise ReturnEx(self.eval(node.value, env) if node.value is not None else None)

    def st_If(self, node, env):
        if self.decide(self.eval(node.test, env)):
            self.exec_block(node.body, env)
        else:
            self.exec_block(node.orelse, env)

    def st_Raise(self, node, env):
        if node.exc is None:
            cur = getattr(env, 'current_exc', None)
            e = env
            while cur is None and e.parent is not None:
                e = e.parent
                cur = getattr(e, 'current_exc', None)
            if cur is None:
                raise Unsupported('bare raise outside handler')
            raise PyRaise(cur)
        old = self.in_exc_ctor
        self.in_exc_ctor = True
        try:
            v = self.eval(node.exc, env)
        finally:
            self.in_exc_ctor = old
        if isinstance(v, (ClassVal, BuiltinClass)):
            v = self.call(v, [], {})
        if not isinstance(v, ExcVal):
            raise Unsupported(f'raise of {v!r}')
        if node.cause is not None:
            v.cause = self.eval(node.cause, env)
        raise PyRaise(v)

    in_exc_ctor = False

    def st_Try(self, node, env):
        try:
            try:
                self.exec_block(node.body, env)
            except PyRaise as pr:
                exc = pr.exc
                for h in node.handlers:
                    if h.type is None:
                        ht = BUILTIN_CLASSES['BaseException']
                    else:
                        ht = self.eval(h.type, env)
                    if self.exc_matches(exc, ht):
                        if h.name:
                            env.vars[h.name] = exc
                        saved = getattr(env, 'current_exc', None)
                        env.current_exc = exc
                        try:
                            self.exec_block(h.body, env)
                        finally:
                            env.current_exc = saved
                        break
                else:
                    raise
            else:
                self.exec_block(node.orelse, env)
        finally:
            if node.finalbody:
                # Note: exceptions/returns from finalbody override the pending one, as in Python
                self.exec_block(node.finalbody, env)

    def loop_ordinal(self, env, node) -> int:
        if env.func is None:
            return -1
        m = getattr(env.func, '_loop_ordinals', None)
        if m is None:
            m = {}

            def walk(n):
                for ch in ast.iter_child_nodes(n):
                    if isinstance(ch, (ast.FunctionDef, ast.AsyncFunctionDef, ast.Lambda, ast.ClassDef)):
                        continue
                    if isinstance(ch, (ast.For, ast.While, ast.AsyncFor)):
                        m[id(ch)] = len(m)
                    walk(ch)
            walk(env.func.node)
            env.func._loop_ordinals = m
        return m.get(id(node), -1)

    def comp_ordinal(self, env, node) -> int:
        if env.func is None:
            return -1
        m = getattr(env.func, '_comp_ordinals', None)
        if m is None:
            m = {}

            def walk(n):
                for ch in ast.iter_child_nodes(n):
                    if isinstance(ch, (ast.FunctionDef, ast.AsyncFunctionDef, ast.Lambda, ast.ClassDef)):
                        continue
                    if isinstance(ch, (ast.ListComp, ast.SetComp, ast.GeneratorExp, ast.DictComp)):
                        m[id(ch)] = len(m)
                    walk(ch)
            walk(env.func.node)
            env.func._comp_ordinals = m
        return m.get(id(node), -1)

    def comp_spec(self, node, env):
        if not self.comp_specs or env.func is None:
            return None
        return self.comp_specs.get((env.func.fullname, self.comp_ordinal(env, node)))

    def st_While(self, node, env):
        ordinal = self.loop_ordinal(env, node)
        spec = self.loop_specs.get((env.func.fullname if env.func else '', ordinal))
        if spec is not None:
            return self._run_loop_spec(spec, node, env)
        n = 0
        while True:
            if not self.decide(self.eval(node.test, env)):
                self.exec_block(node.orelse, env)
                return
            n += 1
            if n > self.MAX_UNROLL:
                raise Unsupported(f'while loop without invariant did not terminate in {self.MAX_UNROLL} iterations '
                                  f'({env.func.fullname if env.func else "?"} loop#{ordinal})')
            try:
                self.exec_block(node.body, env)
            except BreakEx:
                return
            except ContinueEx:
                continue

    MAX_UNROLL = 400

    def _run_loop_spec(self, spec, node, env):
        """A loop contract executes the loop body itself; a `continue` / `break` of the analysed code that the contract does not handle
        ends that iteration / the loop - it must never leave the loop statement (it would surface as an internal error of the checker)."""
        try:
            return spec(self, node, env)
        except (ContinueEx, BreakEx):
            return None

    def st_For(self, node, env, skip_spec=False):
        ordinal = self.loop_ordinal(env, node)
        spec = self.loop_specs.get((env.func.fullname if env.func else '', ordinal))
        if spec is not None and not skip_spec:
            return self._run_loop_spec(spec, node, env)
        it = self.eval(node.iter, env)
        items = self.iterate(it, loop=(env, ordinal))
        for v in items:
            self.assign(node.target, v, env)
            try:
                self.exec_block(node.body, env)
            except BreakEx:
                return
            except ContinueEx:
                continue
        self.exec_block(node.orelse, env)

    st_AsyncFor = st_For

    def st_Break(self, node, env):
        raise BreakEx()

    def st_Continue(self, node, env):
        raise ContinueEx()

    def st_FunctionDef(self, node, env):
        f = PyFunc(node, env.module, (env.func.qual + '.<locals>.' if env.func else '') + node.name,
                   defcls=env.func.defcls if env.func else None, closure=env)
        v: Any = f
        for d in reversed(node.decorator_list):
            dn = _dotted(d)
            if dn in ('functools.wraps', 'wraps'):
                continue
            dv = self.eval(d, env)
            v = self.call(dv, [v], {})
        env.vars[node.name] = v

    st_AsyncFunctionDef = st_FunctionDef

    def st_Nonlocal(self, node, env):
        env.nonlocals = getattr(env, 'nonlocals', ()) + tuple(node.names)

    def st_Global(self, node, env):
        raise Unsupported('global statement')

    def st_Delete(self, node, env):
        for t in node.targets:
            if isinstance(t, ast.Subscript):
                self.delitem(self.eval(t.value, env), self.eval_index(t.slice, env))
            elif isinstance(t, ast.Name):
                env.vars.pop(t.id, None)
            elif isinstance(t, ast.Attribute):
                o = self.eval(t.value, env)
                if isinstance(o, Obj) and t.attr in o.attrs:
                    del o.attrs[t.attr]
                else:
                    raise Unsupported('del attribute')
            else:
                raise Unsupported('del target')

    def st_Assert(self, node, env):
        if not self.decide(self.eval(node.test, env)):
            self.throw('AssertionError')

    def st_With(self, node, env):
        self._with(node, env, is_async=False)

    def st_AsyncWith(self, node, env):
        self._with(node, env, is_async=True)

    def _with(self, node, env, is_async: bool):
        if len(node.items) != 1:
            # nest
            inner = ast.With(items=node.items[1:], body=node.body) if not is_async else \
                ast.AsyncWith(items=node.items[1:], body=node.body)
            outer = (ast.AsyncWith if is_async else ast.With)(items=node.items[:1], body=[inner])
            return self._with(outer, env, is_async)
        item = node.items[0]
        cm = self.eval(item.context_expr, env)
        if not hasattr(cm, 'pyvc_enter'):
            enter = '__aenter__' if is_async else '__enter__'
            exit_ = '__aexit__' if is_async else '__exit__'
            if isinstance(cm, Obj):
                val = self.call(self.getattr(cm, enter), [], {})
                if is_async:
                    val = self.await_value(val)
                if item.optional_vars is not None:
                    self.assign(item.optional_vars, val, env)
                try:
                    self.exec_block(node.body, env)
                except PyRaise as pr:
                    r = self.call(self.getattr(cm, exit_), [pr.exc.cls, pr.exc, None], {})
                    if is_async:
                        r = self.await_value(r)
                    if self.decide(r):
                        return
                    raise
                except (ReturnEx, BreakEx, ContinueEx):
                    r = self.call(self.getattr(cm, exit_), [None, None, None], {})
                    if is_async:
                        self.await_value(r)
                    raise
                r = self.call(self.getattr(cm, exit_), [None, None, None], {})
                if is_async:
                    self.await_value(r)
                return
            raise Unsupported(f'context manager {cm!r}')
        val = cm.pyvc_enter(self, is_async)
        if item.optional_vars is not None:
            self.assign(item.optional_vars, val, env)
        try:
            self.exec_block(node.body, env)
        except PyRaise as pr:
            if cm.pyvc_exit(self, pr.exc, is_async):
                return
            raise
        except (ReturnEx, BreakEx, ContinueEx):
            cm.pyvc_exit(self, None, is_async)
            raise
        cm.pyvc_exit(self, None, is_async)

    def st_Import(self, node, env):
        for a in node.names:
            env.vars[a.asname or a.name.split('.')[0]] = self.resolve_module(a.name)

    def st_ImportFrom(self, node, env):
        raise Unsupported('local from-import')

    def st_ClassDef(self, node, env):
        raise Unsupported('local class definition')

    # ------------------------------------------------------------------ expressions
    def eval(self, node, env: Env):
        m = getattr(self, 'ex_' + type(node).__name__, None)
        if m is None:
            raise Unsupported(f'expression {type(node).__name__} at line {getattr(node, "lineno", "?")}')
        return m(node, env)

    def ex_Constant(self, node, env):
        v = node.value
        if isinstance(v, bytes):
            return Rope.lit(v)
        if v is Ellipsis:
            return None
        return v

    def ex_Name(self, node, env):
        return self.lookup_name(node.id, env)

    def ex_Attribute(self, node, env):
        return self.getattr(self.eval(node.value, env), node.attr)

    def ex_Tuple(self, node, env):
        return tuple(self._elts(node.elts, env))

    def ex_List(self, node, env):
        return list(self._elts(node.elts, env))

    def ex_Set(self, node, env):
        return set(self._elts(node.elts, env))

    def _elts(self, elts, env):
        out = []
        for e in elts:
            if isinstance(e, ast.Starred):
                v = self.eval(e.value, env)
                if hasattr(v, 'pyvc_star'):
                    out.append(StarArg(v))          # *abstract_collection: handed to the callee as one marker
                else:
                    out.extend(self.iterate(v))
            else:
                out.append(self.eval(e, env))
        return out

    def ex_Dict(self, node, env):
        d = {}
        for k, v in zip(node.keys, node.values):
            if k is None:
                src = self.eval(v, env)
                if isinstance(src, DictView):
                    src = dict(src.obj.attrs)
                if not isinstance(src, dict):
                    raise Unsupported('** of non-dict')
                d.update(src)
            else:
                d[self.hashable(self.eval(k, env))] = self.eval(v, env)
        return d

    def hashable(self, k):
        k = unbox(k) if isinstance(k, Boxed) and not isinstance(k.val, (Sym,)) else k
        if isinstance(k, (Sym, Rope)):
            if isinstance(k, Rope) and k.concrete() is not None:
                return k.concrete()
            raise Unsupported(f'symbolic dict key {k!r}')
        return k

    def ex_JoinedStr(self, node, env):
        parts = []
        for v in node.values:
            if isinstance(v, ast.Constant):
                parts.append(v.value)
            else:
                if self.in_exc_ctor:
                    parts.append(None)
                    continue
                val = self.eval(v.value, env)
                if v.conversion == -1 and v.format_spec is None:
                    parts.append(self.to_str(val))
                else:
                    val = unbox(val)
                    if isinstance(val, (int, str, float)) and not isinstance(val, Sym):
                        spec = ''
                        if v.format_spec is not None:
                            fs = self.eval(v.format_spec, env)
                            if not isinstance(fs, str):
                                parts.append(None)
                                continue
                            spec = fs
                        conv = {-1: lambda x: x, 114: repr, 115: str, 97: ascii}[v.conversion]
                        parts.append(format(conv(val), spec))
                    else:
                        parts.append(None)
        if all(isinstance(p, str) for p in parts):
            return ''.join(parts)
        if any(p is None for p in parts):
            return Sym(self.ctx.fresh_str('fstr'), 'str')
        return Sym(z3.Concat(*[z3str(p) for p in parts]) if len(parts) > 1 else z3str(parts[0]), 'str')

    def to_str(self, v):
        """str(v) for f-strings; None when not representable."""
        v = unbox(v)
        if isinstance(v, str):
            return v
        if isinstance(v, (int, float)) and not isinstance(v, bool):
            return str(v)
        if isinstance(v, Sym) and v.k in ('str', 'ustr'):
            return v
        if isinstance(v, Sym) and v.k == 'int':
            # str(int): z3 IntToStr is defined for non-negative ints only
            return Sym(z3.If(v.t >= 0, z3.IntToStr(v.t), z3.Concat(z3.StringVal('-'), z3.IntToStr(-v.t))), 'str')
        return None

    def ex_FormattedValue(self, node, env):
        raise Unsupported('bare FormattedValue')

    def ex_UnaryOp(self, node, env):
        v = self.eval(node.operand, env)
        if isinstance(node.op, ast.Not):
            t = self.truth(v)
            if isinstance(t, bool):
                return not t
            return Sym(z3.Not(t), 'bool')
        v = unbox(v)
        if isinstance(node.op, ast.USub):
            if isinstance(v, Sym):
                return Sym(-v.t, v.k)
            return -v
        if isinstance(node.op, ast.UAdd):
            return v
        if isinstance(node.op, ast.Invert):
            if isinstance(v, EnumMember) and getattr(v.cls, 'is_flag', False):
                allbits = 0
                for m in v.cls.enum_members:
                    allbits |= m.value
                return self.flag_value(v.cls, allbits & ~v.value)
            if isinstance(v, Sym):
                if v.k == 'enum' and getattr(v.enum, 'is_flag', False):
                    raise Unsupported('~ on symbolic flag')
                return Sym(-v.t - 1, 'int')
            return ~v
        raise Unsupported('unary op')

    def flag_value(self, cls, bits: int):
        for m in cls.enum_members:
            if m.value == bits:
                return m
        return EnumMember(cls, f'<{bits}>', bits, -1)

    def ex_BoolOp(self, node, env):
        is_and = isinstance(node.op, ast.And)
        last = None
        for i, e in enumerate(node.values):
            last = self.eval(e, env)
            if i == len(node.values) - 1:
                return last
            d = self.decide(last)
            if is_and and not d:
                return last
            if not is_and and d:
                return last
        return last

    def ex_IfExp(self, node, env):
        if self.decide(self.eval(node.test, env)):
            return self.eval(node.body, env)
        return self.eval(node.orelse, env)

    def ex_NamedExpr(self, node, env):
        v = self.eval(node.value, env)
        self.assign(node.target, v, env)
        return v

    def ex_Lambda(self, node, env):
        return PyFunc(node, env.module, (env.func.qual + '.' if env.func else '') + '<lambda>',
                      defcls=env.func.defcls if env.func else None, closure=env)

    def ex_Await(self, node, env):
        v = self.eval(node.value, env)
        return self.await_value(v)

    def await_value(self, v):
        if isinstance(v, CoroVal):
            hook = self.hooks.get('await:' + v.func.fullname)
            if hook is not None:
                return hook(self, v)
            return self.run_coro(v)
        if hasattr(v, 'pyvc_await'):
            return v.pyvc_await(self)
        if isinstance(v, Obj) and 'future' in v.ghost:
            return v.ghost['future'].pyvc_await(self)
        if self.on_await is not None:
            return self.on_await(self, v)
        raise Unsupported(f'await of {v!r}')

    def ex_Call(self, node, env):
        # zero-arg super()
        if isinstance(node.func, ast.Name) and node.func.id == 'super' and not node.args and not env.has('super'):
            e = env
            while e is not None and (e.func is None or e.func.defcls is None or e.first_arg is None):
                e = e.parent
            if e is None:
                raise Unsupported('super() outside method')
            return SuperVal(e.func.defcls, e.first_arg)
        if self.drop_logging and _is_logging_call(node):
            return None
        f = self.eval(node.func, env)
        args = self._elts(node.args, env)
        kwargs = {}
        for kw in node.keywords:
            if kw.arg is None:
                d = self.eval(kw.value, env)
                if isinstance(d, DictView):
                    d = dict(d.obj.attrs)
                if not isinstance(d, dict):
                    raise Unsupported('** of non-dict in call')
                for k, v in d.items():
                    kwargs[k] = v
            else:
                kwargs[kw.arg] = self.eval(kw.value, env)
        return self.call(f, args, kwargs)

    def ex_BinOp(self, node, env):
        return self.binop(node.op, self.eval(node.left, env), self.eval(node.right, env))

    def binop(self, op, a, b):
        from .natives import binop as nb
        return nb(self, op, a, b)

    def ex_Compare(self, node, env):
        left = self.eval(node.left, env)
        result = None
        for op, rn in zip(node.ops, node.comparators):
            right = self.eval(rn, env)
            r = self.compare(op, left, right)
            if len(node.ops) == 1:
                return r
            if not self.decide(r):
                return False
            result = r
            left = right
        return True

    def compare(self, op, a, b):
        from .natives import compare as nc
        return nc(self, op, a, b)

    def ex_Subscript(self, node, env):
        o = self.eval(node.value, env)
        if isinstance(o, (TypingThing, BuiltinClass)) or (isinstance(o, ClassVal) and not isinstance(node.slice, ast.Slice)
                                                          and '__class_getitem__' not in o.members
                                                          and o.enum_members is None):
            return o   # generic alias (type[X], list[int]) -- typing only
        idx = self.eval_index(node.slice, env)
        return self.getitem(o, idx)

    def eval_index(self, node, env):
        if isinstance(node, ast.Slice):
            lo = self.eval(node.lower, env) if node.lower is not None else None
            hi = self.eval(node.upper, env) if node.upper is not None else None
            st = self.eval(node.step, env) if node.step is not None else None
            return SliceVal(lo, hi, st)
        return self.eval(node, env)

    def getitem(self, o, idx):
        from .natives import getitem as ng
        return ng(self, o, idx)

    def setitem(self, o, idx, v):
        from .natives import setitem as ns
        return ns(self, o, idx, v)

    def delitem(self, o, idx):
        from .natives import delitem as nd
        return nd(self, o, idx)

    def iterate(self, it, loop=None) -> list:
        from .natives import iterate as ni
        return ni(self, it, loop)

    def _comp(self, node, env, emit):
        cenv = Env(env.func, env.module, env)
        cenv.first_arg = env.first_arg

        def rec(gi):
            if gi == len(node.generators):
                emit(cenv)
                return
            g = node.generators[gi]
            for v in self.iterate(self.eval(g.iter, cenv)):
                self.assign(g.target, v, cenv)
                if all(self.decide(self.eval(c, cenv)) for c in g.ifs):
                    rec(gi + 1)
        rec(0)

    def ex_ListComp(self, node, env):
        spec = self.comp_spec(node, env)
        if spec is not None:
            return spec(self, node, env)
        out = []
        self._comp(node, env, lambda e: out.append(self.eval(node.elt, e)))
        return out

    def ex_GeneratorExp(self, node, env):
        return self.ex_ListComp(node, env)

    def ex_SetComp(self, node, env):
        spec = self.comp_spec(node, env)
        if spec is not None:
            return spec(self, node, env)
        out = []
        if getattr(self, 'sym_containers', False):
            import z3 as _z3
            from .symcoll import to_symset
            self._comp(node, env, lambda e: out.append(self.eval(node.elt, e)))
            return to_symset(self, out, _z3.StringSort()).copy()
        self._comp(node, env, lambda e: out.append(self.hashable(self.eval(node.elt, e))))
        return set(out)

    def ex_DictComp(self, node, env):
        spec = self.comp_spec(node, env)
        if spec is not None:
            return spec(self, node, env)
        out = {}

        def emit(e):
            out[self.hashable(self.eval(node.key, e))] = self.eval(node.value, e)
        self._comp(node, env, emit)
        return out

    def ex_Starred(self, node, env):
        raise Unsupported('starred expression')

    on_yield_value = None

    def ex_Yield(self, node, env):
        if self.on_yield_value is None:
            raise Unsupported('yield (generators are verified through loop contracts)')
        return self.on_yield_value(self, self.eval(node.value, env) if node.value is not None else None, env)


class _Missing:
    pass


class StarArg:
    """`*obj` in a call where obj is an abstract collection of unknown length (obj.pyvc_star is True)"""

    def __init__(self, obj):
        self.obj = obj


_MISSING = _Missing()


class SliceVal:
    def __init__(self, lo, hi, step):
        self.lo = lo
        self.hi = hi
        self.step = step


class RepoModule:
    def __init__(self, mod: ModuleInfo):
        self.mod = mod

    def __repr__(self):
        return f'<repo module {self.mod.name}>'


class ModuleAttr:
    """Unresolved attribute of an external module (error only when used)."""

    def __init__(self, base, attr):
        self.base = base
        self.attr = attr

    def __repr__(self):
        return f'<extern {self.base}.{self.attr}>'


class TypingThing:
    def __init__(self, name):
        self.name = name

    def __repr__(self):
        return f'<typing {self.name}>'


class DictView:
    """obj.__dict__"""

    def __init__(self, obj):
        self.obj = obj


class ExcObj:
    """Adapter so that exception __init__ bodies can set attributes on an ExcVal."""

    def __init__(self, exc: ExcVal):
        self.exc = exc
        self.cls = exc.cls

    def pyvc_setattr(self, interp, name, value):
        self.exc.attrs[name] = value

    def pyvc_getattr(self, interp, name):
        if name in self.exc.attrs:
            return self.exc.attrs[name]
        if name == '__init__':
            return Native('exc.__init__', lambda it, a, k: None)
        raise Unsupported(f'exception attribute {name}')

    def pyvc_class(self, interp):
        return self.exc.cls


def _dotted(node) -> Optional[str]:
    if isinstance(node, ast.Call):
        return _dotted(node.func)
    if isinstance(node, ast.Name):
        return node.id
    if isinstance(node, ast.Attribute):
        b = _dotted(node.value)
        return f'{b}.{node.attr}' if b else None
    return None


_LOG_BASES = ('logger', 'adapter', 'logging')
_LOG_METHODS = ('debug', 'info', 'warning', 'error', 'exception', 'critical', 'log')


def _is_logging_call(node) -> bool:
    if not isinstance(node, ast.Call):
        return False
    f = node.func
    if isinstance(f, ast.Attribute) and f.attr in _LOG_METHODS:
        b = f.value
        if isinstance(b, ast.Name) and b.id in _LOG_BASES:
            return True
        if isinstance(b, ast.Attribute) and b.attr in ('logger', '_logger'):
            return True
    return False


def _c3(cls) -> list:
    def merge(seqs):
        res = []
        seqs = [list(s) for s in seqs if s]
        while seqs:
            for s in seqs:
                cand = s[0]
                if not any(cand in t[1:] for t in seqs):
                    break
            else:
                raise Unsupported(f'inconsistent MRO for {cls.name}')
            res.append(cand)
            for s in seqs:
                if s and s[0] is cand:
                    del s[0]
            seqs = [s for s in seqs if s]
        return res
    return [cls] + merge([list(b.mro) for b in cls.bases] + [list(cls.bases)])
