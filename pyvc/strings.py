"""String methods over concrete and symbolic (z3 String) values."""
from __future__ import annotations

import z3

from .ctx import Unsupported
from .values import Sym, Native, unbox, z3int, z3str


def _conc(v):
    v = unbox(v)
    return v if isinstance(v, str) else None


def str_to_int(it, v):
    """int(s) for symbolic s: defined when s is a non-empty digit string (A-int-parse:
    other accepted spellings such as '+1', ' 1 ', '1_0' are treated as raising, which is
    sound only for callers that validated the text with a digit regex first)."""
    t = v.t
    n = z3.StrToInt(t)
    if it.ctx.branch(n >= 0):
        return Sym(n, 'int')
    it.throw('ValueError', 'invalid literal for int()')


def str_method(it, o, name):
    c = _conc(o)
    t = z3str(o)

    def native(fn):
        return Native('str.' + name, fn)

    def allconc(args):
        return c is not None and all(_conc(a) is not None or isinstance(unbox(a), (int, type(None), tuple)) for a in args)

    if name in ('lower', 'upper', 'strip', 'lstrip', 'rstrip', 'title', 'casefold', 'isdigit', 'isalnum', 'isalpha',
                'isspace', 'split', 'rsplit', 'splitlines', 'replace', 'startswith', 'endswith', 'find', 'rfind',
                'index', 'count', 'partition', 'rpartition', 'join', 'format', 'zfill', 'ljust', 'rjust', 'center',
                'removeprefix', 'removesuffix', 'encode', 'hex', 'islower', 'isupper', 'capitalize'):
        def fn(it2, a, k):
            ov = getattr(it2, 'str_method_overrides', {}).get(name)
            if ov is not None:
                r = ov(it2, o, a, k)
                if r is not NotImplemented:
                    return r
            if allconc(a) and name != 'join':
                args = [unbox(x) for x in a]
                try:
                    return getattr(c, name)(*args, **{kk: unbox(v) for kk, v in k.items()})
                except ValueError as e:
                    it2.throw('ValueError', str(e))
            if name == 'join':
                items = it2.iterate(a[0])
                if c is not None and all(_conc(x) is not None for x in items):
                    return c.join(_conc(x) for x in items)
                parts = []
                for i, x in enumerate(items):
                    if i:
                        parts.append(t)
                    parts.append(z3str(x))
                if not parts:
                    return ''
                return Sym(z3.Concat(*parts) if len(parts) > 1 else parts[0], 'str')
            if name == 'startswith':
                p = unbox(a[0])
                if isinstance(p, tuple):
                    return Sym(z3.Or(*[z3.PrefixOf(z3str(x), t) for x in p]), 'bool')
                return Sym(z3.PrefixOf(z3str(p), t), 'bool')
            if name == 'endswith':
                p = unbox(a[0])
                if isinstance(p, tuple):
                    return Sym(z3.Or(*[z3.SuffixOf(z3str(x), t) for x in p]), 'bool')
                return Sym(z3.SuffixOf(z3str(p), t), 'bool')
            if name == 'find':
                return Sym(z3.IndexOf(t, z3str(a[0]), z3.IntVal(0)), 'int')
            if name == 'replace':
                raise Unsupported('symbolic str.replace (replace_all)')
            if name in ('lower', 'upper', 'casefold'):
                # three different functions: casefold is NOT lower ('ß'.casefold() == 'ss', ligatures are expanded) and not length preserving
                f = z3.Function('str_' + name, z3.StringSort(), z3.StringSort())
                r = f(t)
                if name != 'casefold':
                    it2.ctx.assume(z3.Length(r) == z3.Length(t))     # A-lower: length preserving (true outside a few Unicode specials)
                return Sym(r, 'str')
            if name == 'removeprefix':
                p = z3str(a[0])
                return Sym(z3.If(z3.PrefixOf(p, t), z3.SubString(t, z3.Length(p), z3.Length(t) - z3.Length(p)), t), 'str')
            if name == 'removesuffix':
                p = z3str(a[0])
                return Sym(z3.If(z3.And(z3.SuffixOf(p, t), z3.Length(p) > 0), z3.SubString(t, 0, z3.Length(t) - z3.Length(p)), t), 'str')
            raise Unsupported(f'symbolic str.{name}')
        return native(fn)
    raise Unsupported(f'str.{name}')
