"""Path context: path condition, solver glue, branching by re-execution,
named proof obligations.

Exploration strategy: a function is executed once per *path*.  Every symbolic
decision is recorded in a decision list; the untaken feasible alternatives are
queued as decision prefixes and the function is re-executed from the start for
each.  No state copying is needed and fresh-symbol naming is deterministic
(per-path counter), so a prefix always replays to the same point."""
from __future__ import annotations
import os
import subprocess
import tempfile
import time
from dataclasses import dataclass, field
from typing import Any, Callable, Optional

import z3

Z3_TIMEOUT_MS = int(os.environ.get('PYVC_Z3_TIMEOUT_MS', '10000'))
CVC5_TIMEOUT_S = int(os.environ.get('PYVC_CVC5_TIMEOUT_S', '20'))
CVC5_BIN = '/usr/bin/cvc5'


class Unsupported(Exception):
    """Construct outside the supported subset: the function is *undecided*."""


class Vacuous(Exception):
    """Path condition became unsatisfiable where it must not."""


class EngineError(Exception):
    pass


class PathAbort(Exception):
    """Stop the current path silently (e.g. assumption made path infeasible)."""


@dataclass
class Obligation:
    name: str
    verdict: str                 # 'discharged' | 'refuted' | 'undecided'
    backend: str = 'z3'
    seconds: float = 0.0
    path: tuple = ()
    detail: str = ''
    model: Optional[dict] = None
    trivial: bool = False        # decided by the partial evaluator (formula folded to a constant)


class Stats:
    def __init__(self):
        self.queries = 0
        self.solver_s = 0.0
        self.by_backend: dict[str, int] = {}
        self.paths = 0

    def merge(self, other: 'Stats'):
        self.queries += other.queries
        self.solver_s += other.solver_s
        self.paths += other.paths
        for k, v in other.by_backend.items():
            self.by_backend[k] = self.by_backend.get(k, 0) + v


def _cvc5_check(smt2: str, want_model: bool = False) -> str:
    """Run the cvc5 binary on an SMT-LIB text.  Returns 'sat'|'unsat'|'unknown'."""
    if not os.path.exists(CVC5_BIN):
        return 'unknown'
    with tempfile.NamedTemporaryFile('w', suffix='.smt2', delete=False) as f:
        f.write('(set-logic ALL)\n' + smt2 + '\n(check-sat)\n')
        path = f.name
    try:
        args = [CVC5_BIN, '--strings-exp', f'--tlimit={CVC5_TIMEOUT_S * 1000}', path]
        r = subprocess.run(args, capture_output=True, text=True, timeout=CVC5_TIMEOUT_S + 5)
        out = r.stdout.strip().splitlines()
        for line in out:
            if line in ('sat', 'unsat', 'unknown'):
                return line
        return 'unknown'
    except Exception:
        return 'unknown'
    finally:
        os.unlink(path)


class Ctx:
    """One path of one symbolic execution."""

    def __init__(self, explorer: 'Explorer', decisions: list):
        self.ex = explorer
        self.prefix = list(decisions)
        self.decisions: list = []
        self.cursor = 0
        self.pc: list = []
        self.solver = z3.Solver()
        self.solver.set('timeout', Z3_TIMEOUT_MS)
        self.fresh_n = 0
        self.notes: list[str] = []
        self.ghost: dict[str, Any] = {}      # ghost state (traces, counters)
        self.depth = 0
        self.lemmas: list = []               # quantified facts used only when an obligation is proved (never for path feasibility)

    # --- symbols ---------------------------------------------------------
    def fresh_name(self, base: str) -> str:
        self.fresh_n += 1
        return f'{base}!{self.fresh_n}'

    def fresh_int(self, base='i'):
        return z3.Int(self.fresh_name(base))

    def fresh_bool(self, base='b'):
        return z3.Bool(self.fresh_name(base))

    def fresh_real(self, base='r'):
        return z3.Real(self.fresh_name(base))

    def fresh_str(self, base='s'):
        return z3.String(self.fresh_name(base))

    # --- assumptions -------------------------------------------------------
    def assume(self, f):
        if f is True:
            return
        if f is False:
            raise PathAbort()
        f = z3.simplify(f)
        if z3.is_true(f):
            return
        self.pc.append(f)
        self.solver.add(f)

    def lemma(self, f):
        """A (typically quantified) assumption that is handed to the solver only with proof obligations.  Path feasibility is
        decided without it, which over-approximates the feasible paths (sound) and keeps branch queries quantifier-free."""
        self.lemmas.append(f)

    # --- solver ------------------------------------------------------------
    def _check(self, *extra, with_lemmas=False) -> str:
        t0 = time.time()
        if with_lemmas and self.lemmas:
            # 1. E-matching only (the lemmas carry triggers): fast and stable for valid obligations
            s1 = z3.Solver()
            s1.set('auto_config', False)
            s1.set('smt.mbqi', False)
            s1.set('timeout', Z3_TIMEOUT_MS)
            s1.add(*self.pc)
            s1.add(*self.lemmas)
            r = s1.check(*extra)
            if r != z3.unsat:
                # 2. with model-based instantiation, which can also produce counter-models
                self.solver.push()
                self.solver.add(*self.lemmas)
                r = self.solver.check(*extra)
                if r == z3.sat:
                    try:
                        self._lemma_model = self.solver.model()
                    except z3.Z3Exception:
                        self._lemma_model = None
                self.solver.pop()
        else:
            r = self.solver.check(*extra)
        dt = time.time() - t0
        st = self.ex.stats
        st.queries += 1
        st.solver_s += dt
        res = 'sat' if r == z3.sat else 'unsat' if r == z3.unsat else 'unknown'
        backend = 'z3'
        if res == 'unknown' and self.ex.use_cvc5:
            s2 = z3.Solver()
            s2.add(*self.pc)
            if with_lemmas:
                s2.add(*self.lemmas)
            s2.add(*extra)
            t0 = time.time()
            res = _cvc5_check(s2.to_smt2().replace('(check-sat)', ''))
            st.solver_s += time.time() - t0
            backend = 'cvc5'
        st.by_backend[backend] = st.by_backend.get(backend, 0) + 1
        self.last_backend = backend
        return res

    def consistent(self) -> bool:
        """Vacuity guard: the path condition together with the lemmas is not refuted by E-matching instantiation."""
        s1 = z3.Solver()
        s1.set('auto_config', False)
        s1.set('smt.mbqi', False)
        s1.set('timeout', 2000)
        s1.add(*self.pc)
        s1.add(*self.lemmas)
        return s1.check() != z3.unsat

    def feasible(self, f=None) -> bool:
        """May f hold on this path? 'unknown' counts as feasible (sound over-approximation)."""
        if f is None:
            return self._check() != 'unsat'
        if f is True:
            return True
        if f is False:
            return False
        return self._check(f) != 'unsat'

    def valid(self, f) -> bool:
        """Is f implied by the path condition? (unknown -> False)"""
        if f is True:
            return True
        if f is False:
            return False
        f = z3.simplify(f)
        if z3.is_true(f):
            return True
        return self._check(z3.Not(f)) == 'unsat'

    # --- branching ---------------------------------------------------------
    def branch(self, cond) -> bool:
        """Decide a possibly symbolic condition; forks the exploration."""
        if cond is True or cond is False:
            return cond
        cond = z3.simplify(cond)
        if z3.is_true(cond):
            return True
        if z3.is_false(cond):
            return False
        if self.cursor < len(self.prefix):
            d = self.prefix[self.cursor]
        else:
            can_t = self.feasible(cond)
            can_f = self.feasible(z3.Not(cond))
            if can_t and can_f:
                self.ex.push(self.decisions + [False])
                d = True
            elif can_t:
                d = True
            elif can_f:
                d = False
            else:
                raise PathAbort()
        self.cursor += 1
        self.decisions.append(d)
        self.assume(cond if d else z3.Not(cond))
        return d

    def choose(self, n: int, label: str = '') -> int:
        """Non-deterministic choice among n alternatives (all explored)."""
        if n <= 0:
            raise PathAbort()
        if n == 1:
            return 0
        if self.cursor < len(self.prefix):
            d = self.prefix[self.cursor]
        else:
            for alt in range(1, n):
                self.ex.push(self.decisions + [alt])
            d = 0
        self.cursor += 1
        self.decisions.append(d)
        return d

    def split(self, conds: list, label: str = '') -> int:
        """Case split on a list of conditions (all feasible alternatives are explored; the chosen one
        is assumed).  The caller is responsible for the conditions being exhaustive."""
        if self.cursor < len(self.prefix):
            d = self.prefix[self.cursor]
        else:
            feas = [i for i, c in enumerate(conds) if self.feasible(c)]
            if not feas:
                raise PathAbort()
            for alt in feas[1:]:
                self.ex.push(self.decisions + [alt])
            d = feas[0]
        self.cursor += 1
        self.decisions.append(d)
        self.assume(conds[d])
        return d

    # --- obligations ------------------------------------------------------
    def prove(self, name: str, f, detail: str = '', use_lemmas: bool = True) -> bool:
        """Named proof obligation: pc (and the lemmas) => f."""
        t0 = time.time()
        model = None
        backend = 'z3'
        trivial = False
        use_lemmas = use_lemmas and bool(self.lemmas)
        if not isinstance(f, bool) and not z3.is_expr(f):
            # a harness expression such as `xs and xs[0] is y` evaluates to a list / None / object: its truth value is meant
            f = bool(f)
        if f is True:
            verdict = 'discharged'
            trivial = True
            backend = 'partial-eval'
        elif f is False and use_lemmas:
            # the path was followed without the lemmas: it counts only if it is feasible with them
            r = self._check(with_lemmas=True)
            backend = self.last_backend
            if r == 'unsat':
                return True
            verdict = 'refuted' if r == 'sat' else 'undecided'
            model = self._render_model(getattr(self, '_lemma_model', None)) if r == 'sat' and backend == 'z3' else None
        elif f is False:
            verdict = 'refuted'
            trivial = True
            backend = 'partial-eval'
            model = self._model_of_pc()
        else:
            fs = z3.simplify(f)
            if z3.is_true(fs):
                verdict = 'discharged'
                trivial = True
                backend = 'partial-eval'
            else:
                r = self._check(z3.Not(fs), with_lemmas=use_lemmas)
                backend = self.last_backend
                if r == 'unsat':
                    verdict = 'discharged'
                elif r == 'sat':
                    verdict = 'refuted'
                    if use_lemmas:
                        model = self._render_model(getattr(self, '_lemma_model', None)) if backend == 'z3' else None
                    else:
                        model = self._get_model() if backend == 'z3' else self._model_of(z3.Not(fs))
                else:
                    verdict = 'undecided'
        ob = Obligation(name, verdict, backend, time.time() - t0, tuple(self.decisions), detail, model, trivial)
        self.ex.record(ob)
        return verdict == 'discharged'

    def fail(self, name: str, detail: str = '', use_lemmas: bool = True):
        """An obligation that is violated on this (feasible) path."""
        return self.prove(name, False, detail, use_lemmas=use_lemmas)

    def ok(self, name: str, detail: str = ''):
        return self.prove(name, True, detail)

    def _get_model(self):
        try:
            m = self.solver.model()
        except z3.Z3Exception:
            return None
        return _model_dict(m)

    def _render_model(self, m):
        return _model_dict(m) if m is not None else None

    def _model_of(self, extra):
        s = z3.Solver()
        s.set('timeout', Z3_TIMEOUT_MS)
        s.add(*self.pc)
        s.add(extra)
        if s.check() == z3.sat:
            return _model_dict(s.model())
        return None

    def _model_of_pc(self):
        if self._check() == 'sat':
            return self._get_model()
        return None


def _model_dict(m) -> dict:
    out = {}
    for d in m.decls():
        try:
            v = m[d]
            if isinstance(v, z3.FuncInterp):
                continue
            if z3.is_int_value(v):
                out[d.name()] = v.as_long()
            elif z3.is_true(v):
                out[d.name()] = True
            elif z3.is_false(v):
                out[d.name()] = False
            elif z3.is_string_value(v):
                out[d.name()] = v.as_string()
            elif z3.is_rational_value(v):
                out[d.name()] = float(v.as_fraction())
            else:
                out[d.name()] = str(v)
        except Exception:
            pass
    return out


class Explorer:
    """Runs `fn(ctx)` once per feasible path."""

    def __init__(self, max_paths: int = 20000, use_cvc5: bool = True):
        self.work: list[list] = []
        self.obligations: list[Obligation] = []
        self.stats = Stats()
        self.max_paths = max_paths
        self.use_cvc5 = use_cvc5
        self.errors: list[str] = []      # Unsupported / engine errors => undecided

    def push(self, prefix: list):
        self.work.append(prefix)

    def record(self, ob: Obligation):
        self.obligations.append(ob)

    def run(self, fn: Callable[[Ctx], None], label: str = ''):
        self.work = [[]]
        n = 0
        while self.work:
            prefix = self.work.pop()
            n += 1
            if n > self.max_paths:
                self.errors.append(f'{label}: path budget {self.max_paths} exceeded')
                break
            ctx = Ctx(self, prefix)
            try:
                fn(ctx)
            except PathAbort:
                pass
            except Unsupported as e:
                self.errors.append(f'{label}: unsupported: {e}')
            except Exception as e:
                if type(e).__name__ == 'PyRaise':
                    self.errors.append(f'{label}: a Python exception of the program reached the harness unhandled: {e}')
                else:
                    raise
            self.stats.paths += 1
        return n
