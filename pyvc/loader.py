"""Source loader: parses the working tree of the repository on every run and
resolves qualified names to AST nodes.  Nothing is imported from the repository;
the verified text is the text on disk."""
from __future__ import annotations
import ast
import os
from typing import Optional

PKG = 'aioslsk'


class ModuleInfo:
    def __init__(self, name: str, path: str, tree: ast.Module, source: str):
        self.name = name            # dotted, e.g. aioslsk.protocol.primitives
        self.path = path
        self.tree = tree
        self.source = source
        self.is_pkg = os.path.basename(path) == '__init__.py'
        self.toplevel: dict[str, ast.AST] = {}   # name -> defining node (last wins)
        self.imports: dict[str, tuple] = {}      # name -> ('mod', dotted) | ('attr', dotted, attr)
        self._index()

    def _index(self):
        for node in self.tree.body:
            self._index_stmt(node)

    def _index_stmt(self, node):
        if isinstance(node, (ast.FunctionDef, ast.AsyncFunctionDef, ast.ClassDef)):
            self.toplevel[node.name] = node
        elif isinstance(node, ast.Assign):
            for t in node.targets:
                if isinstance(t, ast.Name):
                    self.toplevel[t.id] = node
        elif isinstance(node, ast.AnnAssign):
            if isinstance(node.target, ast.Name) and node.value is not None:
                self.toplevel[node.target.id] = node
        elif isinstance(node, ast.Import):
            for a in node.names:
                nm = a.asname or a.name.split('.')[0]
                self.imports[nm] = ('mod', a.name if a.asname else a.name.split('.')[0])
        elif isinstance(node, ast.ImportFrom):
            base = self._resolve_from(node)
            for a in node.names:
                self.imports[a.asname or a.name] = ('attr', base, a.name)
        elif isinstance(node, ast.If):
            # `if TYPE_CHECKING:` imports are typing-only; still index them for annotations
            for s in node.body:
                self._index_stmt(s)
        elif isinstance(node, ast.Try):
            for s in node.body:
                self._index_stmt(s)

    def _resolve_from(self, node: ast.ImportFrom) -> str:
        if node.level == 0:
            return node.module or ''
        parts = self.name.split('.')
        if not self.is_pkg:
            parts = parts[:-1]
        if node.level > 1:
            parts = parts[:-(node.level - 1)]
        if node.module:
            parts = parts + node.module.split('.')
        return '.'.join(parts)


class Source:
    """All modules under <src_root>/aioslsk."""

    def __init__(self, src_root: str):
        self.src_root = src_root
        self.modules: dict[str, ModuleInfo] = {}
        root = os.path.join(src_root, PKG)
        if not os.path.isdir(root):
            raise FileNotFoundError(f'no package directory {root}')
        for dirpath, _dirs, files in os.walk(root):
            for f in sorted(files):
                if not f.endswith('.py'):
                    continue
                path = os.path.join(dirpath, f)
                rel = os.path.relpath(path, src_root)[:-3]
                parts = rel.split(os.sep)
                if parts[-1] == '__init__':
                    parts = parts[:-1]
                name = '.'.join(parts)
                src = open(path, encoding='utf-8').read()
                tree = ast.parse(src, filename=path)
                self.modules[name] = ModuleInfo(name, path, tree, src)

    def module(self, name: str) -> Optional[ModuleInfo]:
        if not name.startswith(PKG):
            name = PKG + '.' + name if name else PKG
        return self.modules.get(name)

    def find(self, qual: str):
        """'protocol.primitives:uint8.serialize' -> (ModuleInfo, [ClassDef..., FunctionDef])"""
        modname, _, path = qual.partition(':')
        mod = self.module(modname)
        if mod is None:
            raise KeyError(f'module not found: {modname}')
        chain = []
        scope_body = mod.tree.body
        for part in path.split('.'):
            found = None
            for node in scope_body:
                if isinstance(node, (ast.FunctionDef, ast.AsyncFunctionDef, ast.ClassDef)) and node.name == part:
                    found = node   # last definition wins, as in Python
            if found is None:
                raise KeyError(f'not found: {qual} (at {part})')
            chain.append(found)
            scope_body = found.body
        return mod, chain

    def functions(self):
        """Yield (module, qualpath, node) for every function in the tree."""
        for mod in self.modules.values():
            def walk(body, prefix):
                for node in body:
                    if isinstance(node, (ast.FunctionDef, ast.AsyncFunctionDef)):
                        yield mod, prefix + node.name, node
                        yield from walk(node.body, prefix + node.name + '.<locals>.')
                    elif isinstance(node, ast.ClassDef):
                        yield from walk(node.body, prefix + node.name + '.')
            yield from walk(mod.tree.body, '')
