"""Symbolic containers over z3 sets / arrays (elements: strings or ints)."""
from __future__ import annotations
import ast

import z3

from .ctx import Unsupported
from .values import Sym, Native, Obj, unbox, z3str, z3int


def elem_term(v, sort):
    v = unbox(v)
    if hasattr(v, 'pyvc_term'):
        return v.pyvc_term
    if sort == z3.StringSort():
        return z3str(v)
    return z3int(v)


class SymSet:
    """set[str] / set[int] as a z3 set term."""

    def __init__(self, term, sort=None):
        self.term = term
        self.sort = sort if sort is not None else term.sort().domain()
        self.log: list = []

    @staticmethod
    def empty(sort=None):
        sort = sort if sort is not None else z3.StringSort()
        return SymSet(z3.EmptySet(sort), sort)

    @staticmethod
    def fresh(ctx, name, sort=None):
        sort = sort if sort is not None else z3.StringSort()
        return SymSet(z3.Const(ctx.fresh_name(name), z3.SetSort(sort)), sort)

    def copy(self):
        return SymSet(self.term, self.sort)

    def pyvc_contains(self, it, item):
        item = unbox(item)
        if item is None:
            return False
        return z3.IsMember(elem_term(item, self.sort), self.term)

    def pyvc_getattr(self, it, name):
        def native(fn):
            return Native('set.' + name, fn)
        if name == 'add':
            def add(it2, a, k):
                if it2.write_log is not None:
                    it2.write_log.append((self, 'add'))
                self.term = z3.SetAdd(self.term, elem_term(a[0], self.sort))
            return native(add)
        if name == 'discard':
            def discard(it2, a, k):
                if it2.write_log is not None:
                    it2.write_log.append((self, 'discard'))
                self.term = z3.SetDel(self.term, elem_term(a[0], self.sort))
            return native(discard)
        if name == 'remove':
            def remove(it2, a, k):
                e = elem_term(a[0], self.sort)
                if not it2.ctx.branch(z3.IsMember(e, self.term)):
                    it2.throw('KeyError', a[0])
                if it2.write_log is not None:
                    it2.write_log.append((self, 'remove'))
                self.term = z3.SetDel(self.term, e)
            return native(remove)
        if name == 'clear':
            def clear(it2, a, k):
                self.term = z3.EmptySet(self.sort)
            return native(clear)
        if name == 'copy':
            return native(lambda it2, a, k: self.copy())
        if name == 'update':
            def update(it2, a, k):
                for x in a:
                    self.term = z3.SetUnion(self.term, to_symset(it2, x, self.sort).term)
            return native(update)
        raise Unsupported(f'SymSet.{name}')

    def pyvc_binop(self, it, op, other, reflected):
        try:
            # a None element of a python set cannot be a member of a set of strings / ints: as the subtrahend of a difference or an operand
            # of an intersection it is dropped (sound); in a union it has no representation (Unsupported -> UNDECIDED)
            drop = (isinstance(op, ast.Sub) and not reflected) or isinstance(op, ast.BitAnd)
            o = to_symset(it, other, self.sort, drop_none=drop)
        except Unsupported:
            return NotImplemented
        a, b = (o.term, self.term) if reflected else (self.term, o.term)
        if isinstance(op, ast.BitOr):
            return SymSet(z3.SetUnion(a, b), self.sort)
        if isinstance(op, ast.BitAnd):
            return SymSet(z3.SetIntersect(a, b), self.sort)
        if isinstance(op, ast.Sub):
            return SymSet(z3.SetDifference(a, b), self.sort)
        if isinstance(op, ast.BitXor):
            return SymSet(z3.SetUnion(z3.SetDifference(a, b), z3.SetDifference(b, a)), self.sort)
        return NotImplemented

    def pyvc_eq(self, it, other):
        try:
            o = to_symset(it, other, self.sort)
        except Unsupported:
            return NotImplemented
        return self.term == o.term

    def pyvc_truth(self, it):
        return self.term != z3.EmptySet(self.sort)

    def pyvc_toset(self, it):
        return self.copy()

    def pyvc_iter(self, it, loop):
        raise Unsupported('iteration over a symbolic set needs a loop contract')

    def __repr__(self):
        return f'SymSet({self.term})'


class SymSeq:
    """A list of unknown length of strings/ints of which only the SET of elements matters
    (message fields such as usernames): supports set(x), truthiness, `in`."""

    def __init__(self, ctx, name, sort=None):
        self.sort = sort if sort is not None else z3.StringSort()
        self.name = ctx.fresh_name(name)
        self.elems = z3.Const(self.name + '.elems', z3.SetSort(self.sort))
        self.n = z3.Int(self.name + '.len')
        ctx.assume(self.n >= 0)
        ctx.assume((self.n == 0) == (self.elems == z3.EmptySet(self.sort)))

    def pyvc_toset(self, it):
        return SymSet(self.elems, self.sort)

    def pyvc_contains(self, it, item):
        return z3.IsMember(elem_term(item, self.sort), self.elems)

    def pyvc_truth(self, it):
        return self.n > 0

    def pyvc_len(self, it):
        return Sym(self.n, 'int')

    def pyvc_iter(self, it, loop):
        raise Unsupported('iteration over a symbolic list needs a loop contract')

    def pyvc_tolist(self, it):
        return self

    def __repr__(self):
        return f'SymSeq({self.name})'


def to_symset(it, v, sort, drop_none=False) -> SymSet:
    v = unbox(v)
    if isinstance(v, SymSet):
        return v
    if isinstance(v, SymSeq):
        return v.pyvc_toset(it)
    if isinstance(v, (list, tuple, set, frozenset)):
        t = z3.EmptySet(sort)
        for x in v:
            if unbox(x) is None:
                if drop_none:
                    continue
                raise Unsupported('None as an element of a symbolic set of strings / ints')
            t = z3.SetAdd(t, elem_term(x, sort))
        return SymSet(t, sort)
    if isinstance(v, NameSetList):
        return SymSet(v.term, sort)
    raise Unsupported(f'not a set-like value: {v!r}')


class SymMap:
    """dict[str, V] as (domain set, value array)."""

    def __init__(self, dom, val, ksort=None, vsort=None):
        self.dom, self.val = dom, val
        self.ksort = ksort if ksort is not None else z3.StringSort()
        self.vsort = vsort if vsort is not None else z3.StringSort()

    @staticmethod
    def empty(ctx, name='map', ksort=None, vsort=None):
        ksort, vsort = ksort if ksort is not None else z3.StringSort(), vsort if vsort is not None else z3.StringSort()
        return SymMap(z3.EmptySet(ksort), z3.Const(ctx.fresh_name(name + '.val'), z3.ArraySort(ksort, vsort)), ksort, vsort)

    @staticmethod
    def fresh(ctx, name='map', ksort=None, vsort=None):
        ksort, vsort = ksort if ksort is not None else z3.StringSort(), vsort if vsort is not None else z3.StringSort()
        return SymMap(z3.Const(ctx.fresh_name(name + '.dom'), z3.SetSort(ksort)),
                      z3.Const(ctx.fresh_name(name + '.val'), z3.ArraySort(ksort, vsort)), ksort, vsort)

    def _v(self, v):
        return elem_term(v, self.vsort)

    def pyvc_getitem(self, it, key):
        k = elem_term(key, self.ksort)
        if not it.ctx.branch(z3.IsMember(k, self.dom)):
            it.throw('KeyError', key)
        return Sym(z3.Select(self.val, k), 'str' if self.vsort == z3.StringSort() else 'int')

    def pyvc_setitem(self, it, key, value):
        k = elem_term(key, self.ksort)
        self.dom = z3.SetAdd(self.dom, k)
        self.val = z3.Store(self.val, k, self._v(value))

    def pyvc_delitem(self, it, key):
        k = elem_term(key, self.ksort)
        if not it.ctx.branch(z3.IsMember(k, self.dom)):
            it.throw('KeyError', key)
        self.dom = z3.SetDel(self.dom, k)

    def pyvc_contains(self, it, key):
        return z3.IsMember(elem_term(key, self.ksort), self.dom)

    def pyvc_truth(self, it):
        return self.dom != z3.EmptySet(self.ksort)

    def pyvc_getattr(self, it, name):
        if name == 'pop':
            def pop(it2, a, k):
                kk = elem_term(a[0], self.ksort)
                if not it2.ctx.branch(z3.IsMember(kk, self.dom)):
                    if len(a) > 1:
                        return a[1]
                    it2.throw('KeyError', a[0])
                v = Sym(z3.Select(self.val, kk), 'str' if self.vsort == z3.StringSort() else 'int')
                self.dom = z3.SetDel(self.dom, kk)
                return v
            return Native('dict.pop', pop)
        if name == 'get':
            def get(it2, a, k):
                kk = elem_term(a[0], self.ksort)
                if it2.ctx.branch(z3.IsMember(kk, self.dom)):
                    return Sym(z3.Select(self.val, kk), 'str' if self.vsort == z3.StringSort() else 'int')
                return a[1] if len(a) > 1 else None
            return Native('dict.get', get)
        raise Unsupported(f'SymMap.{name}')

    def equals(self, other: 'SymMap'):
        """extensional equality on the domain"""
        k = z3.Const('k!eq', self.ksort)
        return z3.And(self.dom == other.dom,
                      z3.ForAll([k], z3.Implies(z3.IsMember(k, self.dom), z3.Select(self.val, k) == z3.Select(other.val, k))))

    def __repr__(self):
        return f'SymMap({self.dom})'


class NameSetList:
    """list[User] without duplicates, abstracted to the set of user NAMES (objects are unique per name:
    contract of UserManager.get_user_object).  append() requires the element to be absent (obligation)."""

    def __init__(self, term, key='name'):
        self.term = term
        self.key = key
        self.append_violations: list = []

    @staticmethod
    def empty():
        return NameSetList(z3.EmptySet(z3.StringSort()))

    def _k(self, it, obj):
        if isinstance(obj, Obj):
            return z3str(it.getattr(obj, self.key))
        raise Unsupported(f'NameSetList element {obj!r}')

    def pyvc_contains(self, it, item):
        return z3.IsMember(self._k(it, item), self.term)

    def pyvc_getattr(self, it, name):
        if name == 'append':
            def append(it2, a, k):
                e = self._k(it2, a[0])
                if not it2.ctx.valid(z3.Not(z3.IsMember(e, self.term))):
                    self.append_violations.append(a[0])
                self.term = z3.SetAdd(self.term, e)
            return Native('list.append', append)
        if name == 'remove':
            def remove(it2, a, k):
                e = self._k(it2, a[0])
                if not it2.ctx.branch(z3.IsMember(e, self.term)):
                    it2.throw('ValueError', 'list.remove(x): x not in list')
                self.term = z3.SetDel(self.term, e)
            return Native('list.remove', remove)
        if name == 'clear':
            def clear(it2, a, k):
                self.term = z3.EmptySet(z3.StringSort())
            return Native('list.clear', clear)
        raise Unsupported(f'NameSetList.{name}')

    def pyvc_truth(self, it):
        return self.term != z3.EmptySet(z3.StringSort())

    def pyvc_iter(self, it, loop):
        raise Unsupported('iteration over a symbolic list needs a loop contract')

    def __repr__(self):
        return f'NameSetList({self.term})'
