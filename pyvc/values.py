"""Value model of the symbolic interpreter.

Concrete Python immutables (int, bool, str, bytes, None, float, tuple, frozenset)
are represented by themselves.  Everything else is one of the classes below."""
from __future__ import annotations
import ast
from typing import Any, Optional

import z3


class Sym:
    """Symbolic scalar.  k: 'int' | 'bool' | 'real' | 'str' | 'enum'."""
    __slots__ = ('t', 'k', 'enum')

    def __init__(self, t, k: str, enum=None):
        self.t = t
        self.k = k
        self.enum = enum      # ClassVal of the Enum for k == 'enum'

    def __repr__(self):
        return f'Sym<{self.k}:{self.t}>'


class Boxed:
    """Instance of a repo subclass of a builtin value type (uint32(int), string(str), array(list) ...)."""
    __slots__ = ('cls', 'val')

    def __init__(self, cls: 'ClassVal', val):
        self.cls = cls
        self.val = val

    def __repr__(self):
        return f'{self.cls.name}({self.val!r})'


class Obj:
    """Heap object with concrete identity.  Attributes are created lazily from
    the declared types when `lazy` is set (symbolic pre-state)."""
    _n = 0

    def __init__(self, cls: 'ClassVal', attrs: Optional[dict] = None, lazy: bool = False, label: str = ''):
        Obj._n += 1
        self.id = Obj._n
        self.cls = cls
        self.attrs: dict[str, Any] = attrs if attrs is not None else {}
        self.lazy = lazy
        self.label = label or f'{cls.name}#{self.id}'
        self.ghost: dict[str, Any] = {}

    def __repr__(self):
        return f'<{self.label}>'


class EnumMember:
    def __init__(self, cls: 'ClassVal', name: str, value, index: int):
        self.cls = cls
        self.name = name
        self.value = value
        self.index = index

    def __repr__(self):
        return f'{self.cls.name}.{self.name}'


class PyFunc:
    """A function defined in the repository (closure over its defining environment)."""

    def __init__(self, node, module, qual: str, defcls: Optional['ClassVal'] = None, closure=None):
        self.node = node
        self.module = module            # ModuleInfo
        self.qual = qual                # 'Class.method' within module
        self.defcls = defcls
        self.closure = closure          # Env of the enclosing function for nested defs/lambdas
        self.is_async = isinstance(node, ast.AsyncFunctionDef)

    @property
    def fullname(self):
        return f'{self.module.name.split(".", 1)[-1] if "." in self.module.name else self.module.name}:{self.qual}'

    def __repr__(self):
        return f'<func {self.fullname}>'


class Bound:
    def __init__(self, func, self_val):
        self.func = func
        self.self_val = self_val

    def __repr__(self):
        return f'<bound {self.func!r} of {self.self_val!r}>'


class Native:
    """Engine-implemented function: fn(interp, args, kwargs)."""

    def __init__(self, name: str, fn):
        self.name = name
        self.fn = fn

    def __repr__(self):
        return f'<native {self.name}>'


class ClassVal:
    """A class defined in the repository, read from the AST."""

    def __init__(self, node: ast.ClassDef, module, qual: str, outer: Optional['ClassVal'] = None):
        self.node = node
        self.module = module
        self.qual = qual
        self.name = node.name
        self.outer = outer
        self.bases: list = []          # ClassVal | BuiltinClass
        self.mro: list = []
        self.body_env: dict[str, Any] = {}      # evaluated class-level names (lazily)
        self.members: dict[str, ast.AST] = {}   # name -> defining node
        self.annotations: dict[str, ast.AST] = {}
        self.decorators: list = node.decorator_list
        self.is_dataclass = False
        self.dc_params: dict = {}
        self.enum_members: Optional[list[EnumMember]] = None
        self.subclasses: list['ClassVal'] = []   # direct subclasses in definition order
        self.cls_overlay = None   # set per path by the interpreter

    @property
    def fullname(self):
        return f'{self.module.name}:{self.qual}'

    def __repr__(self):
        return f'<class {self.qual}>'


class BuiltinClass:
    """A class from outside the repository (int, str, Exception, Enum, ABC ...)."""
    _cache: dict[str, 'BuiltinClass'] = {}

    def __init__(self, name: str, bases=()):
        self.name = name
        self.bases = list(bases)
        self.mro = [self]
        for b in self.bases:
            for c in b.mro:
                if c not in self.mro:
                    self.mro.append(c)

    def __repr__(self):
        return f'<builtin class {self.name}>'


def _mk_builtin_classes():
    B = {}

    def mk(name, *bases):
        B[name] = BuiltinClass(name, [B[b] for b in bases])
        return B[name]
    mk('object')
    mk('BaseException', 'object')
    mk('Exception', 'BaseException')
    mk('CancelledError', 'BaseException')        # asyncio.CancelledError
    mk('KeyboardInterrupt', 'BaseException')
    mk('GeneratorExit', 'BaseException')
    mk('StopIteration', 'Exception')
    mk('StopAsyncIteration', 'Exception')
    mk('ArithmeticError', 'Exception')
    mk('ZeroDivisionError', 'ArithmeticError')
    mk('OverflowError', 'ArithmeticError')
    mk('AssertionError', 'Exception')
    mk('AttributeError', 'Exception')
    mk('EOFError', 'Exception')
    mk('IncompleteReadError', 'EOFError')        # asyncio.IncompleteReadError
    mk('LookupError', 'Exception')
    mk('IndexError', 'LookupError')
    mk('KeyError', 'LookupError')
    mk('OSError', 'Exception')
    mk('ConnectionError', 'OSError')
    mk('ConnectionResetError', 'ConnectionError')
    mk('FileNotFoundError', 'OSError')
    mk('FileExistsError', 'OSError')
    mk('PermissionError', 'OSError')
    mk('TimeoutError', 'OSError')                # asyncio.TimeoutError is TimeoutError (3.11+)
    mk('RuntimeError', 'Exception')
    mk('NotImplementedError', 'RuntimeError')
    mk('InvalidStateError', 'Exception')         # asyncio.InvalidStateError
    mk('QueueEmpty', 'Exception')
    mk('QueueFull', 'Exception')
    mk('TypeError', 'Exception')
    mk('ValueError', 'Exception')
    mk('UnicodeError', 'ValueError')
    mk('UnicodeDecodeError', 'UnicodeError')
    mk('UnicodeEncodeError', 'UnicodeError')
    mk('struct.error', 'Exception')
    mk('zlib.error', 'Exception')
    mk('re.error', 'Exception')
    mk('PickleError', 'Exception')
    for n in ('int', 'str', 'bytes', 'bytearray', 'list', 'dict', 'set', 'frozenset', 'tuple', 'float', 'bool',
              'type', 'ABC', 'Enum', 'Flag', 'IntEnum', 'IntFlag', 'Protocol', 'Generic', 'NoneType', 'TypedDict',
              'BaseModel', 'BaseSettings', 'Task', 'Future', 'Lock', 'Event', 'Queue', 'StreamReader',
              'StreamWriter', 'function', 'LoggerAdapter', 'WeakSet', 'WeakValueDictionary', 'OrderedDict',
              'deque', 'Field', 'Struct', 'Timeout', 'Pattern', 'Semaphore'):
        mk(n, 'object')
    B['bool'] = BuiltinClass('bool', [B['int']])
    return B


BUILTIN_CLASSES = _mk_builtin_classes()


class ExcVal:
    """A raised Python exception value."""

    def __init__(self, cls, args=(), attrs=None, cause=None):
        self.cls = cls          # ClassVal | BuiltinClass
        self.args = tuple(args)
        self.attrs = attrs or {}
        self.cause = cause
        self.note = ''

    def __repr__(self):
        return f'<exc {self.cls.name}{self.args!r}>'


class ModuleVal:
    def __init__(self, name: str):
        self.name = name

    def __repr__(self):
        return f'<module {self.name}>'


class SuperVal:
    def __init__(self, after, obj):
        self.after = after
        self.obj = obj


class Opaque:
    """A value the engine knows nothing about (result of a havocked call).  Any
    operation on it other than storing/passing it is Unsupported."""
    _n = 0

    def __init__(self, why: str = ''):
        Opaque._n += 1
        self.id = Opaque._n
        self.why = why

    def __repr__(self):
        return f'<opaque {self.why}>'


class Cell:
    """Mutable box (for nonlocal variables)."""
    __slots__ = ('v',)

    def __init__(self, v=None):
        self.v = v


class PyRaise(Exception):
    """Python-level exception propagating through the interpreted program."""

    def __init__(self, exc: ExcVal):
        super().__init__(repr(exc))
        self.exc = exc


class ReturnEx(Exception):
    def __init__(self, value):
        self.value = value


class BreakEx(Exception):
    pass


class ContinueEx(Exception):
    pass


def is_concrete(v) -> bool:
    return v is None or isinstance(v, (int, bool, str, bytes, float))


def z3int(v):
    if isinstance(v, bool):
        return z3.IntVal(1 if v else 0)
    if isinstance(v, int):
        return z3.IntVal(v)
    if isinstance(v, Sym):
        if v.k == 'int':
            return v.t
        if v.k == 'bool':
            return z3.If(v.t, z3.IntVal(1), z3.IntVal(0))
    if isinstance(v, Boxed):
        return z3int(v.val)
    raise TypeError(f'not an int: {v!r}')


def z3real(v):
    if isinstance(v, bool):
        return z3.RealVal(1 if v else 0)
    if isinstance(v, int):
        return z3.RealVal(v)
    if isinstance(v, float):
        return z3.RealVal(repr(v)) if v == v and abs(v) != float('inf') else (_ for _ in ()).throw(TypeError('nan/inf'))
    if isinstance(v, Sym):
        if v.k == 'real':
            return v.t
        if v.k == 'int':
            return z3.ToReal(v.t)
        if v.k == 'bool':
            return z3.If(v.t, z3.RealVal(1), z3.RealVal(0))
    if isinstance(v, Boxed):
        return z3real(v.val)
    raise TypeError(f'not a number: {v!r}')


def z3str(v):
    if isinstance(v, str):
        return z3.StringVal(v)
    if isinstance(v, Sym) and v.k == 'str':
        return v.t
    if isinstance(v, Boxed):
        return z3str(v.val)
    raise TypeError(f'not a str: {v!r}')


def unbox(v):
    while isinstance(v, Boxed):
        v = v.val
    return v
