"""C15 -- user tracking on the server mirrors the set of reasons.  DESIGN.md section 4 / C15."""
from __future__ import annotations

import z3

from pyvc.ctx import Ctx, Explorer, Unsupported, PathAbort
from pyvc.interp import Interp, CoroVal
from pyvc.values import (Sym, Obj, PyRaise, Native, Bound, ExcVal, EnumMember, Opaque, unbox, z3int, z3str, BUILTIN_CLASSES,
                         ReturnEx, ContinueEx, BreakEx)
from pyvc import natives as N
from pyvc import aio as A
from contracts.common import (source, mk, cls, func, new, run, enum, Recorder, Stub, collect, std_result)

UM = 'user.manager'
UMODEL = 'user.model'
MSG = 'protocol.messages'

ASSUMPTIONS = [
    'A-asyncio: Queue.get returns the oldest item; a task that returned is done and its done-callbacks run in a LATER loop iteration '
    '(so other activations can run in between); cancel_task cancels and awaits',
    'flags are written only inside the worker (frame scan: add_flag / remove_flag are reached only through queued requests)',
    'the flag domain is finite (3 reasons): all 8 x 8 x 2 combinations of previous flags, request flag and operation are enumerated, which is exhaustive',
]
TRUSTED_BASE = ['pyvc engine', 'abstract asyncio model']
NOT_DECIDED = ['exact wall-clock retry delays (asyncio.sleep is trusted)']


class QueueVal:
    def __init__(self, aio, items=()):
        self.aio = aio
        self.items = list(items)
        self.puts = []

    def pyvc_getattr(self, it, name):
        if name == 'put_nowait':
            return Native('Queue.put_nowait', lambda it2, a, k: (self.items.append(a[0]), self.puts.append(a[0]))[0])
        if name == 'empty':
            return Native('Queue.empty', lambda it2, a, k: not self.items)
        if name == 'qsize':
            return Native('Queue.qsize', lambda it2, a, k: len(self.items))
        if name == 'get':
            def get(it2, a, k):
                def body(it3):
                    if not self.items:
                        raise PathAbort()          # the worker blocks here: no further step on this path
                    return self.items.pop(0)
                return A.SimpleAwaitable(self.aio, 'Queue.get', body)
            return Native('Queue.get', get)
        raise Unsupported(f'Queue.{name}')

    def pyvc_truth(self, it):
        return True


def flag(it, bits):
    return it.flag_value(cls(it, UMODEL, 'TrackingFlag'), bits)


def mk_world(it, ctx):
    sent, emitted = [], []
    w = {'sent': sent, 'emitted': emitted}
    it.natives['asyncio.Queue'] = Native('Queue', lambda it2, a, k: QueueVal(it2.aio))
    w['net'] = Stub('network', send_server_messages=Recorder('send', fn=lambda it2, a, k: sent.extend(a), is_async=True))
    w['bus'] = Stub('bus', emit=Recorder('emit', fn=lambda it2, a, k: emitted.append(a[0]), is_async=True))
    w['mgr'] = new(it, UM, 'UserTrackingManager', _settings=Stub('settings'), _event_bus=w['bus'], _network=w['net'], _tracked_users={})
    return w


def mk_tracked(it, ctx, w, name='bob', flags=0, state='UNTRACKED', registered=True):
    user = new(it, UMODEL, 'User', name=name)
    tu = new(it, UM, 'TrackedUser', user=user, flags=flag(it, flags), state=enum(it, UMODEL, 'TrackingState', state),
             queue=QueueVal(it.aio), task=None, retry_task=None)
    if registered:
        w['mgr'].attrs['_tracked_users'][name] = tu
    return tu


def prove_worker_step(src_root, ex: Explorer):
    server = ['exists', 'not-exists', 'silence', 'send-error', 'wait-error']

    def path(ctx: Ctx):
        it = mk(src_root, ctx)
        w = mk_world(it, ctx)
        p = ctx.choose(8, 'previous-flags')
        rf = ctx.choose(8, 'request-flag')
        op = ['add_flag', 'remove_flag'][ctx.choose(2, 'operation')]
        more = ctx.choose(2, 'more-queued') == 1
        tu = mk_tracked(it, ctx, w, flags=p, state='TRACKED' if p else 'UNTRACKED')
        old_retry = A.TaskVal(it.aio, None, 'old-retry') if ctx.choose(2, 'retry-pending') == 1 else None
        tu.attrs['retry_task'] = old_retry
        handled = A.EventVal(it.aio)
        req = new(it, UM, 'TrackingRequest', operation=it.getattr(tu, op), flag=flag(it, rf), handled=handled)
        other = new(it, UM, 'TrackingRequest', operation=it.getattr(tu, 'add_flag'), flag=flag(it, 1), handled=A.EventVal(it.aio))
        tu.attrs['queue'].items = [req] + ([other] if more else [])
        f = (p | rf) if op == 'add_flag' else (p & ~rf & 7)
        is_retry = (rf == 0)
        needs_add = f != 0 and (p == 0 or is_retry)
        oc = server[ctx.choose(len(server), 'server')] if needs_add else 'n/a'
        resp = new(it, MSG, 'AddUser.Response', username='bob', exists=(oc == 'exists'))

        def send(it2, a, k):
            w['sent'].extend(a)
            if oc == 'send-error' and any(m.cls.qual == 'AddUser.Request' for m in a):
                raise PyRaise(ExcVal(cls(it2, 'exceptions', 'ConnectionWriteError'), ('x',)))
        w['net'].attrs['send_server_messages'] = Recorder('send', fn=send, is_async=True)

        def wait_for(it2, a, k):
            if oc == 'silence':
                it2.throw('TimeoutError')
            if oc == 'wait-error':
                it2.throw('RuntimeError', 'x')
            return resp
        w['net'].attrs['wait_for_server_message'] = Recorder('wait', fn=wait_for, is_async=True)
        state = {'returned': False, 'registered_at_return': None, 'iterations': 0}

        def loop(it2, node, env):
            state['iterations'] += 1
            try:
                it2.exec_block(node.body, env)
            except ContinueEx:
                pass
            except ReturnEx:
                state['returned'] = True
                state['registered_at_return'] = w['mgr'].attrs['_tracked_users'].get('bob') is tu
                raise
            raise ReturnEx('<next-iteration>')
        it.loop_specs[(f'{UM}:UserTrackingManager._tracking_task', 0)] = loop
        try:
            run(it, it.getattr(w['mgr'], '_tracking_task'), tu)
        except PyRaise as pr:
            ctx.fail('C15.worker.step.no-raise', repr(pr.exc))
            return
        adds = [m for m in w['sent'] if m.cls.qual == 'AddUser.Request']
        rems = [m for m in w['sent'] if m.cls.qual == 'RemoveUser.Request']
        tag = f'p={p},{op}({rf}){",more" if more else ""}{",retry-pending" if old_retry else ""}{"," + oc if needs_add else ""}'
        got_f = tu.attrs['flags'].value
        ctx.prove(f'C15.worker.step.flags[{tag}]', got_f == f)
        want_add, want_rem = (1 if needs_add else 0), (1 if (f == 0 and p != 0) else 0)
        ctx.prove(f'C15.worker.step.messages[{tag}]', len(adds) == want_add and len(rems) == want_rem and all(m.attrs['username'] == 'bob' for m in adds + rems),
                  f'AddUser x{len(adds)} (expected {want_add}), RemoveUser x{len(rems)} (expected {want_rem}): track on empty -> non-empty (or retry while a reason remains), untrack on non-empty -> empty, never otherwise')
        st = tu.attrs['state'].name
        new_retry = tu.attrs['retry_task']
        if f == 0 and p != 0:
            ctx.prove(f'C15.worker.step.state[{tag}]', st == 'UNTRACKED' and (old_retry is None or (old_retry.cancel_requested and old_retry.awaited)))
        elif f == 0:
            ctx.prove(f'C15.worker.step.state[{tag}]', old_retry is None or (old_retry.cancel_requested and old_retry.awaited), 'no retry may stay scheduled once no reason remains')
        elif needs_add:
            if oc == 'exists':
                ctx.prove(f'C15.worker.step.state[{tag}]', st == 'TRACKED')
            else:
                want_delay = 600 if oc == 'not-exists' else 10
                ok = st == 'RETRY_PENDING' and isinstance(new_retry, A.TaskVal) and new_retry is not old_retry and isinstance(new_retry.coro, CoroVal) \
                    and new_retry.coro.func.node.name == '_request_retry' and unbox(new_retry.coro.args[2]) == want_delay \
                    and (old_retry is None or (old_retry.cancel_requested and old_retry.awaited))
                ctx.prove(f'C15.worker.step.state[{tag}]', ok, f'state {st}, retry {new_retry!r}: one retry after {want_delay} s, the previous one cancelled')
        ctx.prove(f'C15.worker.step.handled[{tag}]', handled.is_set is True or (state['returned'] is False and f == 0 and more and False) or handled.is_set,
                  'every request is marked handled')
        should_return = f == 0 and not more
        ctx.prove(f'C15.worker.exit[{tag}]', state['returned'] == should_return, 'the worker ends only when no reason remains and nothing is queued')
        if state['returned']:
            ctx.prove(f'C15.registry.live[{tag}]', state['registered_at_return'] is False,
                      'the worker returned but its entry is still registered (it is only removed by the done-callback, one loop iteration later): '
                      'a track_user() in between is queued to the dead worker and lost')
    ex.run(path, 'worker-step')


def prove_worker_exit_atomic(src_root, ex: Explorer):
    """The last reason is removed (flags become empty) while a NEW request arrives at an arbitrary suspension point of that step
    (RemoveUser being sent, the UNTRACKED event being emitted, the retry being cancelled).  The worker may end only if the queue is empty
    at the moment it ends: the emptiness test, the unregistration and the return form one atomic section.  Otherwise the new request sits
    in the queue of a dead worker and is lost."""
    def path(ctx: Ctx):
        it = mk(src_root, ctx)
        w = mk_world(it, ctx)
        p = 1 + ctx.choose(7, 'previous-flags')
        k = ctx.choose(6, 'request-arrives-at-yield')
        had_retry = ctx.choose(2, 'retry-pending') == 1
        tu = mk_tracked(it, ctx, w, flags=p, state='TRACKED')
        tu.attrs['retry_task'] = A.TaskVal(it.aio, None, 'old-retry') if had_retry else None
        req = new(it, UM, 'TrackingRequest', operation=it.getattr(tu, 'remove_flag'), flag=flag(it, p), handled=A.EventVal(it.aio))
        other = new(it, UM, 'TrackingRequest', operation=it.getattr(tu, 'add_flag'), flag=flag(it, 1), handled=A.EventVal(it.aio))
        q = tu.attrs['queue']
        q.items = [req]
        n = [0]
        injected = []

        def on_yield(it2, label):
            if n[0] == k and not injected:
                injected.append(label)
                q.items.append(other)           # track_user() of another caller: put_nowait on the registered entry's queue
            n[0] += 1
        it.aio.on_yield = on_yield
        state = {'returned': False}

        def loop(it2, node, env):
            try:
                it2.exec_block(node.body, env)
            except ContinueEx:
                pass
            except ReturnEx:
                state['returned'] = True
                state['pending_at_return'] = list(q.items)
                state['registered_at_return'] = w['mgr'].attrs['_tracked_users'].get('bob') is tu
                raise
            raise ReturnEx('<next-iteration>')
        it.loop_specs[(f'{UM}:UserTrackingManager._tracking_task', 0)] = loop
        try:
            run(it, it.getattr(w['mgr'], '_tracking_task'), tu)
        except PyRaise as pr:
            ctx.fail('C15.worker.exit-atomic.no-raise', repr(pr.exc))
            return
        if not injected:
            return
        tag = f'p={p},yield={k}:{injected[0]}{",retry-pending" if had_retry else ""}'
        ctx.prove(f'C15.worker.exit-atomic[{tag}]', (not state['returned']) or state['pending_at_return'] == [],
                  f'a request that arrived while the worker was suspended on {injected[0]} is still queued when the worker ends: it is lost')
    ex.run(path, 'worker-exit-atomic')


def prove_registry(src_root, ex: Explorer):
    def callback(ctx: Ctx):
        it = mk(src_root, ctx)
        w = mk_world(it, ctx)
        newer = ctx.choose(2, 'newer-entry') == 1
        outcome = ['returned', 'cancelled', 'failed'][ctx.choose(3, 'task')]
        old = mk_tracked(it, ctx, w, registered=not newer)
        new_tu = mk_tracked(it, ctx, w, registered=newer)
        task = A.TaskVal(it.aio, None, 'worker')
        task.done = True
        if outcome == 'cancelled':
            task.cancelled = True
        if outcome == 'failed':
            task.exc = ExcVal(BUILTIN_CLASSES['RuntimeError'], ('x',))
        try:
            it.call(it.getattr(w['mgr'], '_on_tracking_task_done'), [old, task], {})
        except PyRaise as pr:
            ctx.fail(f'C15.registry.callback[{outcome}]', repr(pr.exc))
            return
        reg = w['mgr'].attrs['_tracked_users']
        if newer:
            ctx.prove(f'C15.registry.callback-own[{outcome}]', reg.get('bob') is new_tu,
                      'the done-callback of an ended worker removed the entry of a NEWER worker for the same user (the new worker is then unreachable)')
        else:
            ctx.prove(f'C15.registry.callback[{outcome}]', 'bob' not in reg)
    ex.run(callback, 'callback')

    def track(ctx: Ctx):
        it = mk(src_root, ctx)
        w = mk_world(it, ctx)
        known = ctx.choose(2, 'known') == 1
        bits = ctx.choose(7, 'flag') + 1
        user = new(it, UMODEL, 'User', name='bob')
        tu = mk_tracked(it, ctx, w) if known else None
        r = it.call(it.getattr(w['mgr'], 'track_user'), [user, flag(it, bits)], {})
        reg = w['mgr'].attrs['_tracked_users']
        e = reg.get('bob')
        ok = e is not None and e.attrs['queue'].puts == [r] and r.attrs['flag'].value == bits and r.attrs['operation'].func.node.name == 'add_flag' \
            and r.attrs['operation'].self_val is e
        if known:
            ok = ok and e is tu and not it.aio.tasks
        else:
            ok = ok and len(it.aio.tasks) == 1 and e.attrs['task'] is it.aio.tasks[0] and it.aio.tasks[0].coro.func.node.name == '_tracking_task' \
                and it.aio.tasks[0].coro.args[1] is e and len(it.aio.tasks[0].callbacks) == 1
        ctx.prove(f'C15.track_user[{"known" if known else "new"}]', ok, 'the request is queued on the registered worker; a new worker is created (with its done-callback) iff none is registered')
        ctx.prove('C15.track_user.atomic', it.aio.yields == [])
    ex.run(track, 'track')

    def untrack(ctx: Ctx):
        it = mk(src_root, ctx)
        w = mk_world(it, ctx)
        known = ctx.choose(2, 'known') == 1
        user = new(it, UMODEL, 'User', name='bob')
        tu = mk_tracked(it, ctx, w) if known else None
        r = it.call(it.getattr(w['mgr'], 'untrack_user'), [user, flag(it, 2)], {})
        if known:
            ctx.prove('C15.untrack_user[known]', tu.attrs['queue'].puts == [r] and r.attrs['operation'].func.node.name == 'remove_flag' and r.attrs['flag'].value == 2)
        else:
            ctx.prove('C15.untrack_user[unknown]', r is None and not w['mgr'].attrs['_tracked_users'] and not it.aio.tasks)
    ex.run(untrack, 'untrack')


def prove_public_api(src_root, ex: Explorer):
    """UserManager.track_user / untrack_user (the public entry points): every call becomes ONE request on the tracking manager, with the
    user object of the name and the given flag - whatever the flags of the user look like at that moment (an untrack that is still
    waiting in the queue has not changed them yet)"""
    def path(ctx: Ctx):
        it = mk(src_root, ctx)
        which = ['track_user', 'untrack_user'][ctx.choose(2, 'call')]
        bits = [1, 2, 4][ctx.choose(3, 'flag')]
        has = ctx.choose(2, 'flag-currently-set') == 1
        fl = flag(it, bits)
        calls = []
        user = new(it, UMODEL, 'User', name='bob')
        tm = Stub('tracking manager',
                  track_user=Recorder('track_user', fn=lambda it2, a, k: calls.append(('track_user', a[0], k.get('flag', a[1] if len(a) > 1 else None)))),
                  untrack_user=Recorder('untrack_user', fn=lambda it2, a, k: calls.append(('untrack_user', a[0], k.get('flag', a[1] if len(a) > 1 else None)))),
                  get_tracking_flags=Recorder('get_tracking_flags', ret=fl if has else flag(it, 0)),
                  get_tracking_state=Recorder('get_tracking_state', ret=enum(it, UMODEL, 'TrackingState', 'TRACKED' if has else 'UNTRACKED')),
                  is_tracked=Recorder('is_tracked', ret=has))
        um = new(it, UM, 'UserManager', _tracking_manager=tm)
        it.hooks[f'{UM}:UserManager.get_user_object'] = lambda it2, f, a, k: user
        run(it, it.getattr(um, which), 'bob', fl)
        ctx.prove(f'C15.public.{which}.one-request[flag={bits},set={has}]', calls == [(which, user, fl)],
                  f'{which}(bob, {bits}) with the flag currently {"set" if has else "not set"} became {[(c[0], getattr(c[2], "value", c[2])) for c in calls]}')
    ex.run(path, 'public-api')


def prove_friend_changes_relies(src_root, ex: Explorer):
    """The FRIEND reason follows the friends list through the change detection of the user management job (C08.changes.*: every change is
    detected because the job remembers a COPY of the list), discharged here as well."""
    from contracts import C08
    C08.prove_changes(src_root, ex)
    for ob in ex.obligations:
        if ob.name.startswith('C08.'):
            ob.name = 'C15.friends.' + ob.name[4:]


def prove_request_tracking(src_root, ex: Explorer):
    # 'cancelled': the worker is cancelled while it waits for the answer (CLOSED: C15.closed.drop cancels and awaits it) - the cancellation
    # must leave _request_tracking, it is not an outcome to retry
    outs = ['exists', 'not-exists', 'silence', 'send-error', 'wait-error', 'cancelled']

    def path(ctx: Ctx):
        it = mk(src_root, ctx)
        w = mk_world(it, ctx)
        oc = outs[ctx.choose(len(outs), 'server')]
        tu = mk_tracked(it, ctx, w)
        resp = new(it, MSG, 'AddUser.Response', username='bob', exists=(oc == 'exists'))
        waits = []

        def send(it2, a, k):
            w['sent'].extend(a)
            if oc == 'send-error':
                it2.throw('ConnectionResetError')

        def wait_for(it2, a, k):
            waits.append((a, k))
            if oc == 'silence':
                it2.throw('TimeoutError')
            if oc == 'wait-error':
                it2.throw('RuntimeError', 'x')
            if oc == 'cancelled':
                it2.throw('CancelledError')
            return resp
        w['net'].attrs['send_server_messages'] = Recorder('send', fn=send, is_async=True)
        w['net'].attrs['wait_for_server_message'] = Recorder('wait', fn=wait_for, is_async=True)
        try:
            r = run(it, it.getattr(w['mgr'], '_request_tracking'), tu)
            raised = None
        except PyRaise as pr:
            r, raised = None, pr.exc.cls.name
        if oc == 'cancelled':
            ctx.prove('C15.request_tracking.cancellation-passes', raised == 'CancelledError',
                      f'the worker was cancelled while waiting for the AddUser answer: _request_tracking returned {r!r} / raised {raised} - the worker goes on '
                      'after its cancellation (the entry survives the close, AddUser is sent while disconnected)')
            return
        if raised:
            ctx.fail(f'C15.request_tracking.table[{oc}]', f'raises {raised}')
            return
        want = {'exists': (None, resp), 'not-exists': (600, resp), 'silence': (10, None), 'send-error': (10, None), 'wait-error': (10, None)}[oc]
        ctx.prove(f'C15.request_tracking.table[{oc}]', unbox(r[0]) == want[0] and r[2] is want[1] and len(w['sent']) == 1, f'{r!r}')
        if oc != 'send-error':
            ctx.prove(f'C15.request_tracking.waits-for-user[{oc}]', len(waits) == 1 and waits[0][1].get('fields') == {'username': 'bob'})
    ex.run(path, 'request_tracking')

    def retry(ctx: Ctx):
        it = mk(src_root, ctx)
        w = mk_world(it, ctx)
        tu = mk_tracked(it, ctx, w, flags=1)
        # other requests may be waiting in the queue when the delay is over (the worker may handle them BEFORE the retry is due to be
        # noticed - C15.worker.step does not re-request on its own while a retry is pending): the marker is queued regardless
        waiting = ctx.choose(2, 'requests-waiting')
        for j in range(waiting):
            tu.attrs['queue'].items.append(Opaque(f'earlier request {j}'))
        slept = []
        it.aio.sleep_hook = lambda it2, x: slept.append((x, len(tu.attrs['queue'].puts)))
        run(it, it.getattr(w['mgr'], '_request_retry'), tu, 600)
        puts = tu.attrs['queue'].puts
        ctx.prove(f'C15.retry.marker[waiting={waiting}]', slept == [(600, 0)] and len(puts) == 1 and isinstance(puts[0], Obj) and puts[0].attrs['flag'].value == 0
                  and puts[0].attrs['operation'].func.node.name == 'add_flag' and tu.attrs['queue'].items[-1] is puts[0],
                  'after the delay the retry marker (add_flag with no flag) is queued, also behind requests that are still waiting')
    ex.run(retry, 'retry')


def prove_closed(src_root, ex: Explorer):
    def path(ctx: Ctx):
        it = mk(src_root, ctx)
        w = mk_world(it, ctx)
        server = ctx.choose(2, 'server') == 1
        st = ['CLOSED', 'CLOSING', 'CONNECTED'][ctx.choose(3, 'state')]
        a, b = mk_tracked(it, ctx, w, 'bob', 1), mk_tracked(it, ctx, w, 'eve', 2)
        tasks = []
        for tu, nm in ((a, 'bob'), (b, 'eve')):
            tu.attrs['task'] = A.TaskVal(it.aio, None, nm + '-worker')
            tasks.append(tu.attrs['task'])
        b.attrs['retry_task'] = A.TaskVal(it.aio, None, 'eve-retry')
        tasks.append(b.attrs['retry_task'])
        conn = Obj(cls(it, 'network.connection', 'ServerConnection' if server else 'PeerConnection'))
        # the tracking state is server-derived: it is dropped whatever the reason of the close (also a disconnect the client asked for)
        reasons = cls(it, 'network.connection', 'CloseReason').enum_members
        ev = Stub('event', connection=conn, state=enum(it, 'network.connection', 'ConnectionState', st),
                  close_reason=reasons[ctx.choose(len(reasons), 'close-reason')])
        run(it, it.getattr(w['mgr'], '_on_state_changed'), ev)
        if server and st == 'CLOSED':
            ctx.prove('C15.closed.drop', all(t.cancel_requested and t.awaited and t.done is True for t in tasks),
                      'when the server connection closes every worker and retry task is cancelled and awaited')
        else:
            ctx.prove(f'C15.closed.only-server-closed[{"server" if server else "peer"},{st}]', not any(t.cancel_requested for t in tasks))
    ex.run(path, 'closed')


def scan_flag_writers(src_root, ex: Explorer):
    import ast
    src, _ = source(src_root)
    ctx = Ctx(ex, [])
    n = 0
    for mod, qual, node in src.functions():
        for x in ast.walk(node):
            tgt = None
            if isinstance(x, ast.AugAssign):
                tgt = x.target
            elif isinstance(x, ast.Assign):
                tgt = x.targets[0]
            if isinstance(tgt, ast.Attribute) and tgt.attr == 'flags':
                n += 1
                ctx.prove(f'C15.flags.writers[{mod.name.split(".", 1)[-1]}:{qual}]', qual in ('TrackedUser.add_flag', 'TrackedUser.remove_flag'),
                          'tracking flags written outside add_flag / remove_flag')
        for x in ast.walk(node):
            if isinstance(x, ast.Call) and isinstance(x.func, ast.Attribute) and x.func.attr in ('add_flag', 'remove_flag'):
                ctx.prove(f'C15.flags.callers[{mod.name.split(".", 1)[-1]}:{qual}]', False, 'add_flag / remove_flag called directly instead of through a queued request')
    ctx.prove('C15.flags.writers.scan-nonempty', n == 2)


def prove_transfer_reason(src_root, ex: Explorer, res):
    def path(ctx: Ctx):
        it = mk(src_root, ctx)
        it.sym_containers = False
        calls = []
        # the users may be tracked already - for ANOTHER reason (friend, requested): the TRANSFER reason is added regardless, otherwise
        # untracking that other reason ends the tracking while a transfer is unfinished
        um = Stub('user_manager', track_user=Recorder('track', fn=lambda it2, a, k: calls.append(('track', a[0], a[1].name)), is_async=True, params=('username', 'flag')),
                  untrack_user=Recorder('untrack', fn=lambda it2, a, k: calls.append(('untrack', a[0], a[1].name)), is_async=True, params=('username', 'flag')),
                  is_tracked=Recorder('is_tracked', ret=True), get_tracking_flags=Recorder('get_tracking_flags', ret=flag(it, 2)),
                  get_tracking_state=Recorder('get_tracking_state', ret=enum(it, UMODEL, 'TrackingState', 'TRACKED')))
        n = ctx.choose(3, 'n') + 1
        users = ['u0', 'u1']
        ts = []
        for i in range(n):
            fin = ctx.choose(2, f'finished{i}') == 1
            u = users[ctx.choose(2, f'user{i}')]
            t = Stub('transfer', username=u, is_finalized=Recorder('is_finalized', ret=fin))
            ts.append((u, fin))
            ts[-1] = (u, fin, t)
        mgr = new(it, 'transfer.manager', 'TransferManager', _user_manager=um, _transfers=[t for _, _, t in ts])
        run(it, it.getattr(mgr, 'manage_user_tracking'))
        unfinished = {u for u, fin, _ in ts if not fin}
        finished = {u for u, fin, _ in ts if fin}
        want = {('track', u, 'TRANSFER') for u in unfinished} | {('untrack', u, 'TRANSFER') for u in finished - unfinished}
        ctx.prove('C15.transfer.reason[bounded]', set(calls) == want and len(calls) == len(want), f'{calls} vs {sorted(want)}')
    ex.run(path, 'transfer-reason')
    res.bounded.append({'obligations': ['C15.transfer.reason[bounded]'], 'bound': '1..3 transfers over 2 users', 'counted_as_proved': False})


def items(src_root, tier):
    return [('friends-relies', None), ('public', None), ('step', None), ('exit-atomic', None), ('registry', None), ('request', None), ('closed', None), ('scan', None), ('transfer', None)]


def run_item(src_root, item, tier):
    res = std_result('C15')
    ex = Explorer()
    kind, arg = item
    try:
        if kind == 'step':
            prove_worker_step(src_root, ex)
        elif kind == 'exit-atomic':
            prove_worker_exit_atomic(src_root, ex)
        elif kind == 'registry':
            prove_registry(src_root, ex)
        elif kind == 'request':
            prove_request_tracking(src_root, ex)
        elif kind == 'closed':
            prove_closed(src_root, ex)
        elif kind == 'public':
            prove_public_api(src_root, ex)
        elif kind == 'friends-relies':
            prove_friend_changes_relies(src_root, ex)
        elif kind == 'scan':
            scan_flag_writers(src_root, ex)
        elif kind == 'transfer':
            prove_transfer_reason(src_root, ex, res)
    except Unsupported as e:
        res.errors.append(f'{kind}: unsupported: {e}')
    collect(res, ex)
    res.functions.update([f'{UM}:UserTrackingManager.{m}' for m in ('track_user', 'untrack_user', '_get_tracked_user_object', '_tracking_task',
                                                                   '_request_tracking', '_request_untracking', '_request_retry', '_set_tracking_state',
                                                                   '_on_tracking_task_done', '_on_state_changed', 'stop')])
    res.functions.update([f'{UM}:TrackedUser.add_flag', f'{UM}:TrackedUser.remove_flag', 'utils:cancel_task', 'transfer.manager:TransferManager.manage_user_tracking'])
    return res
