"""C10 -- connection life cycle is monotone, registry exact.  DESIGN.md section 4 / C10.  (harness shared with C11)"""
from __future__ import annotations

import z3

from pyvc.ctx import Ctx, Explorer, Unsupported, PathAbort
from pyvc.interp import Interp, CoroVal
from pyvc.values import (Sym, Obj, PyRaise, Native, Bound, ExcVal, EnumMember, Opaque, unbox, z3int, z3str, BUILTIN_CLASSES)
from pyvc import natives as N
from pyvc import aio as A
from pyvc.rope import Rope, Blob
from contracts.common import (source, mk, cls, func, new, run, enum, Recorder, Stub, collect, std_result)

CONN = 'network.connection'
NET = 'network.network'
ORDER = ['UNINITIALIZED', 'CONNECTING', 'CONNECTED', 'CLOSING', 'CLOSED']

ASSUMPTIONS = [
    'A-asyncio: open_connection / start_server / wait_closed / drain either return, raise an Exception, or are cancelled (CancelledError) at the await',
    'A-atomic cooperative scheduling: state written before the first yield of set_state is what concurrent callers see',
    'cancellation of the running activation is explored at EVERY yield point of the functions under contract',
]
TRUSTED_BASE = ['pyvc engine', 'abstract asyncio model']
NOT_DECIDED = ['"the registry contains exactly the open connections at every quiescent moment" as a whole-history statement '
               '(quiescence is not a program point); proved instead: registration before the first yield, removal on CLOSED, and every '
               'exit path of an attempt leaves the connection CONNECTED+returned or CLOSED']


def rank(m):
    return ORDER.index(m.name)


class NetWorld:
    """A Network stub that records ConnectionStateChangedEvent-equivalents and keeps the registry like the real one."""

    def __init__(self, it: Interp, ctx: Ctx, real_network=False):
        self.it, self.ctx = it, ctx
        self.events: list = []      # (connection, state name, reason name, registered?, conn.state at report)
        self.registry: list = []
        w = self

        def on_state_changed(it2, a, k):
            st, conn = a[0], a[1]
            reason = k.get('close_reason')
            w.events.append((conn, st.name, getattr(reason, 'name', None), any(c is conn for c in w.registry), conn.attrs.get('state')))
            if st.name == 'CLOSED' and any(c is conn for c in w.registry):
                w.registry[:] = [c for c in w.registry if c is not conn]
        self.network = Stub('network', on_state_changed=Recorder('on_state_changed', fn=on_state_changed, is_async=True),
                            peer_connections=self.registry)

    def seq(self, conn):
        return [e[1] for e in self.events if e[0] is conn]

    def data_connection(self, kind='PeerConnection', state='UNINITIALIZED', writer=True):
        it = self.it
        c = Obj(cls(it, CONN, kind))
        closed = []
        wr = Stub('writer', is_closing=Recorder('is_closing', ret=False), close=Recorder('close', fn=lambda it2, a, k: closed.append(1)),
                  wait_closed=Recorder('wait_closed', is_async=True), write=Recorder('write'), drain=Recorder('drain', is_async=True),
                  get_extra_info=Recorder('get_extra_info', ret=('1.2.3.4', 5)))
        c.attrs.update(hostname='h', port=1, network=self.network, obfuscated=False, _is_closing=state in ('CLOSING', 'CLOSED'),
                       _reader=Stub('reader') if writer else None, _writer=wr if writer else None, _reader_task=None, _queued_messages=[],
                       _read_timeout_object=None, read_timeout=1.0, incoming=False, connection_type='P', username='bob',
                       transfer_read_timeout=1.0)
        c.attrs['state'] = enum(it, CONN, 'ConnectionState', state)
        c.attrs['connection_state'] = enum(it, CONN, 'PeerConnectionState', 'AWAITING_INIT')
        c.ghost['writer_closed'] = closed
        return c


def monotone(ctx, name, seq, start='UNINITIALIZED', server=False):
    ok = True
    prev = ORDER.index(start)
    closed_count = 0
    for s in seq:
        r = ORDER.index(s)
        if r < prev and not (server and ORDER[prev] == 'CLOSED' and s == 'CONNECTING'):
            ok = False
        if s == 'CLOSED':
            closed_count += 1
        prev = r
    after_closed = 'CLOSED' in seq and seq.index('CLOSED') != len(seq) - 1
    ctx.prove(name, ok and closed_count <= 1 and not after_closed,
              f'reported state sequence {seq}: states must only move forward, CLOSED at most once and nothing after it')


# ---------------------------------------------------------------------------

def prove_set_state(src_root, ex: Explorer):
    def path(ctx: Ctx):
        it = mk(src_root, ctx)
        w = NetWorld(it, ctx)
        c = w.data_connection()
        new_state = enum(it, CONN, 'ConnectionState', ORDER[ctx.choose(5, 'state')])
        run(it, it.getattr(c, 'set_state'), new_state)
        e = w.events
        ok = len(e) == 1 and e[0][1] == new_state.name and e[0][4] is new_state and c.attrs['_is_closing'] is (new_state.name in ('CLOSING', 'CLOSED'))
        ctx.prove(f'C10.set_state.atomic-prefix[{new_state.name}]', ok, 'state and _is_closing are written before the notification (first yield)')
    ex.run(path, 'set_state')


def cancel_policy(which):
    """cancel the running activation at the which-th yield point"""
    def hook(it, label):
        n = len(it.aio.yields)          # already includes this one
        return n - 1 == which
    return hook


def prove_connect(src_root, ex: Explorer):
    # failure kinds of the attempt: OS level, time-out, and any OTHER exception (e.g. OverflowError for a port outside 0..65535 that a peer
    # announced, ValueError from the resolver): every one must leave the connection CLOSED and unregistered
    # 'closed-meanwhile': while the TCP connect is in flight somebody disconnects this (registered, CONNECTING) connection - what
    # Network.disconnect() does to every registered connection on stop(); then the TCP connect completes
    outcomes = ['ok', 'OSError', 'TimeoutError', 'cancelled', 'OverflowError', 'ValueError', 'closed-meanwhile', 'closing-meanwhile']

    def path(ctx: Ctx):
        it = mk(src_root, ctx)
        w = NetWorld(it, ctx)
        kind = ['PeerConnection', 'ServerConnection'][ctx.choose(2, 'kind')]
        c = w.data_connection(kind, writer=False)
        if kind == 'ServerConnection' and ctx.choose(2, 'reconnect') == 1:
            c.attrs['state'] = enum(it, CONN, 'ConnectionState', 'CLOSED')
        start = c.attrs['state'].name
        w.registry.append(c)
        oc = outcomes[ctx.choose(len(outcomes), 'open_connection')]

        late_writer = []

        def open_connection(it2, a, k):
            def body(it3):
                if oc == 'ok':
                    return (Stub('reader'), w.data_connection().attrs['_writer'])
                if oc == 'closing-meanwhile':
                    # the disconnect of the other activation is under way (it reported CLOSING and is suspended in a listener / in
                    # wait_closed) when the TCP connect completes
                    it3.await_value(it3.call(it3.getattr(c, 'set_state'), [enum(it3, CONN, 'ConnectionState', 'CLOSING')],
                                             {'close_reason': enum(it3, CONN, 'CloseReason', 'REQUESTED')}))
                    other = w.data_connection()
                    late_writer.append(other)
                    return (Stub('reader'), other.attrs['_writer'])
                if oc == 'closed-meanwhile':
                    it3.await_value(it3.call(it3.getattr(c, 'disconnect'), [enum(it3, CONN, 'CloseReason', 'REQUESTED')], {}))
                    other = w.data_connection()
                    late_writer.append(other)
                    return (Stub('reader'), other.attrs['_writer'])
                if oc == 'cancelled':
                    it3.throw('CancelledError')
                it3.throw(oc, 'connect failed')
            return A.SimpleAwaitable(it2.aio, 'open_connection', body)
        it.natives['asyncio.open_connection'] = Native('open_connection', open_connection)
        try:
            run(it, it.getattr(c, 'connect'))
            raised = None
        except PyRaise as pr:
            raised = pr.exc.cls.name
        seq = w.seq(c)
        tag = f'{kind},{oc},from={start}'
        monotone(ctx, f'C10.set_state.monotone#connect[{tag}]', seq, start=start, server=(kind == 'ServerConnection'))
        final = c.attrs['state'].name
        if oc == 'ok':
            ctx.prove(f'C10.connect.exit[{tag}]', raised is None and final == 'CONNECTED' and seq == ['CONNECTING', 'CONNECTED'])
        elif oc == 'closing-meanwhile':
            closed_late = bool(late_writer) and bool(late_writer[0].ghost['writer_closed'])
            ctx.prove(f'C10.connect.exit[{tag}]', raised == 'ConnectionFailedError' and 'CONNECTED' not in seq and closed_late,
                      f'a disconnect is under way (CLOSING) when the TCP connect completes: reported {seq}, raised {raised}, socket opened afterwards '
                      f'closed: {closed_late} - the connection goes back to CONNECTED')
        elif oc == 'closed-meanwhile':
            closed_late = bool(late_writer) and bool(late_writer[0].ghost['writer_closed'])
            ctx.prove(f'C10.connect.exit[{tag}]', raised == 'ConnectionFailedError' and final == 'CLOSED' and seq == ['CONNECTING', 'CLOSING', 'CLOSED']
                      and not any(x is c for x in w.registry) and closed_late,
                      f'disconnected while connecting: reported {seq}, ends {final}, raised {raised}, socket opened afterwards closed: {closed_late} - a '
                      'connection that was reported CLOSED (and left the registry) comes back CONNECTED with an open socket nobody can close')
        elif oc == 'cancelled':
            ctx.prove(f'C10.connect.exit[{tag}]', raised == 'CancelledError' and final == 'CLOSED' and not any(x is c for x in w.registry),
                      f'a cancelled connect() leaves the connection {final} and {"registered" if any(x is c for x in w.registry) else "unregistered"}: '
                      f'every exit path of an attempt must leave it CONNECTED (returned) or CLOSED')
        else:
            ctx.prove(f'C10.connect.exit[{tag}]', raised == 'ConnectionFailedError' and final == 'CLOSED' and seq == ['CONNECTING', 'CLOSING', 'CLOSED']
                      and not any(x is c for x in w.registry))
    ex.run(path, 'connect')


def prove_disconnect(src_root, ex: Explorer):
    # 'called-from-a-queued-send': disconnect() runs inside one of the connection's own queued send tasks (its write failed); cancelling
    # the queued sends then cancels the CALLER, and the CancelledError is delivered at the next suspension, wherever that is
    outcomes = ['ok', 'wait_closed-raises', 'wait_closed-timeout', 'cancelled-in-wait_closed', 'no-writer', 'called-from-a-queued-send']

    def path(ctx: Ctx):
        it = mk(src_root, ctx)
        w = NetWorld(it, ctx)
        start = ORDER[ctx.choose(5, 'start')]
        oc = outcomes[ctx.choose(len(outcomes), 'outcome')]
        armed = []
        c = w.data_connection(state=start, writer=(oc != 'no-writer'))
        w.registry.append(c)
        q = A.TaskVal(it.aio, None, 'queued-message')
        c.attrs['_queued_messages'] = [q]
        if oc != 'no-writer':
            def wait_closed(it2, a, k):
                if oc == 'wait_closed-raises':
                    it2.throw('ConnectionResetError', 'reset')
                if oc == 'wait_closed-timeout':
                    it2.throw('TimeoutError')
                if oc == 'cancelled-in-wait_closed':
                    it2.throw('CancelledError')
            c.attrs['_writer'].attrs['wait_closed'] = Recorder('wait_closed', fn=wait_closed, is_async=True)
        second = []
        if oc == 'called-from-a-queued-send':
            key = f'{CONN}:DataConnection._cancel_queued_messages'

            def c_cancel(it2, f, a, k):
                armed.append(1)
                it2.hooks.pop(key)              # run the real body
                try:
                    return it2.call(f, list(a), dict(k))
                finally:
                    it2.hooks[key] = c_cancel
            it.hooks[key] = c_cancel

            def on_yield(it2, label):
                if armed and len(armed) == 1:
                    armed.append(label)
                    raise PyRaise(ExcVal(BUILTIN_CLASSES['CancelledError'], (), {'at': label}))
            it.aio.on_yield = on_yield
        try:
            run(it, it.getattr(c, 'disconnect'), enum(it, CONN, 'CloseReason', 'REQUESTED'))
            raised = None
        except PyRaise as pr:
            raised = pr.exc.cls.name
        it.aio.on_yield = None
        it.hooks.pop(f'{CONN}:DataConnection._cancel_queued_messages', None)
        seq = w.seq(c)
        # a second (concurrent or later) call reports nothing
        n_before = len(w.events)
        run(it, it.getattr(c, 'disconnect'), enum(it, CONN, 'CloseReason', 'EOF'))
        tag = f'from={start},{oc}'
        if start in ('CLOSING', 'CLOSED'):
            ctx.prove(f'C10.disconnect.once[{tag}]', seq == [] and raised is None, 'a connection that is closing / closed reports nothing more')
        else:
            ctx.prove(f'C10.disconnect.once[{tag}]', seq == ['CLOSING', 'CLOSED'] and len(w.events) == n_before and c.attrs['state'].name == 'CLOSED'
                      and raised in (None, 'CancelledError') and (raised == 'CancelledError') == (oc in ('cancelled-in-wait_closed', 'called-from-a-queued-send')),
                      f'{seq}, second call added {len(w.events) - n_before} reports, raised {raised}')
            ctx.prove(f'C10.disconnect.unregisters[{tag}]', not any(x is c for x in w.registry) and c.attrs['_writer'] is None and c.attrs['_reader'] is None)
            ctx.prove(f'C10.disconnect.cancels-queued[{tag}]', q.cancel_requested)
            reasons = {e[2] for e in w.events if e[0] is c}
            ctx.prove(f'C10.disconnect.reason[{tag}]', reasons == {'REQUESTED'})
    ex.run(path, 'disconnect')


def prove_after_closed(src_root, ex: Explorer):
    def send_message(ctx: Ctx):
        it = mk(src_root, ctx)
        w = NetWorld(it, ctx)
        st = ['CLOSING', 'CLOSED'][ctx.choose(2, 'state')]
        c = w.data_connection(state=st)
        sent = []
        it.hooks[f'{CONN}:DataConnection._send'] = lambda it2, f, a, k: A.SimpleAwaitable(it2.aio, '_send', lambda it3: sent.append(a[1]))
        run(it, it.getattr(c, 'send_message'), Rope.lit(b'abc'))
        ctx.prove(f'C10.after-closed.send_message[{st}]', not sent, 'nothing is sent on a closing / closed connection')
    ex.run(send_message, 'after-closed-send')

    def send_whole_frame(ctx: Ctx):
        """send_message on an open connection: the encoded frame is handed to _send in ONE piece (one write on the transport).  Several
        messages are sent concurrently on a connection (queued sends, replies); pieces with a suspension in between would interleave with
        the frames of the others and the receiver loses the framing."""
        it = mk(src_root, ctx)
        w = NetWorld(it, ctx)
        c = w.data_connection(state='CONNECTED')
        c.attrs['_is_closing'] = False
        # a large frame (a shares reply): 1 MiB of concrete bytes, so that any chunking by size is visible
        frame = Rope.lit(b'x' * (1 << 20))
        it.hooks[f'{CONN}:DataConnection.encode_message_data'] = lambda it2, f, a, k: frame
        it.hooks[f'{CONN}:DataConnection._increase_read_timeout'] = lambda it2, f, a, k: None
        sent = []
        it.hooks[f'{CONN}:DataConnection._send'] = lambda it2, f, a, k: A.SimpleAwaitable(it2.aio, '_send', lambda it3: sent.append(a[1]))
        try:
            run(it, it.getattr(c, 'send_message'), new(it, 'protocol.messages', 'Ping.Request'))
        except (PyRaise, Unsupported) as e:
            if isinstance(e, Unsupported):
                raise
            ctx.fail('C10.send_message.one-piece', repr(e.exc))
            return
        ctx.prove('C10.send_message.one-piece', len(sent) == 1 and sent[0] is frame,
                  f'the frame was handed to _send in {len(sent)} pieces')
    ex.run(send_whole_frame, 'send-whole-frame')

    def send_no_writer(ctx: Ctx):
        it = mk(src_root, ctx)
        w = NetWorld(it, ctx)
        c = w.data_connection(state='CLOSED', writer=False)
        try:
            run(it, it.getattr(c, '_send'), Rope.lit(b'abc'))
            raised = None
        except PyRaise as pr:
            raised = pr.exc.cls.name
        ctx.prove('C10.after-closed._send', raised == 'ConnectionWriteError', 'a send on a connection without a socket must fail, not succeed silently')
    ex.run(send_no_writer, 'after-closed-_send')

    def send_failure(ctx: Ctx):
        it = mk(src_root, ctx)
        w = NetWorld(it, ctx)
        c = w.data_connection(state='CONNECTED')
        w.registry.append(c)
        oc = ['drain-raises', 'drain-timeout'][ctx.choose(2, 'outcome')]
        c.attrs['_writer'].attrs['drain'] = Recorder('drain', fn=lambda it2, a, k: it2.throw('TimeoutError' if oc == 'drain-timeout' else 'ConnectionResetError'), is_async=True)
        try:
            run(it, it.getattr(c, '_send'), Rope.lit(b'abc'), timeout=1.0)
            raised = None
        except PyRaise as pr:
            raised = pr.exc.cls.name
        ctx.prove(f'C10._send.failure-closes[{oc}]', raised == 'ConnectionWriteError' and w.seq(c) == ['CLOSING', 'CLOSED'] and not any(x is c for x in w.registry))
    ex.run(send_failure, '_send-failure')

    def send_drains(ctx: Ctx):
        """_send returns only after drain() was awaited: write() never fails by itself, a reset or a stalled peer is reported by drain()
        (then C10._send.failure-closes) - a _send that returns without it reports success for bytes that may never leave"""
        it = mk(src_root, ctx)
        w = NetWorld(it, ctx)
        c = w.data_connection(state='CONNECTED')
        w.registry.append(c)
        buffered = [0, 4096][ctx.choose(2, 'write-buffer')]
        order = []
        wr = c.attrs['_writer']
        wr.attrs['write'] = Recorder('write', fn=lambda it2, a, k: order.append('write'))
        wr.attrs['drain'] = Recorder('drain', fn=lambda it2, a, k: order.append('drain'), is_async=True)
        wr.attrs['transport'] = Stub('transport', get_write_buffer_size=Recorder('get_write_buffer_size', ret=buffered),
                                     is_closing=Recorder('is_closing', ret=False))
        timeout = [None, 1.0][ctx.choose(2, 'timeout')]
        try:
            run(it, it.getattr(c, '_send'), Rope.lit(b'abc'), timeout=timeout)
        except PyRaise as pr:
            ctx.fail(f'C10._send.drains[buffered={buffered},timeout={timeout}]', repr(pr.exc))
            return
        ctx.prove(f'C10._send.drains[buffered={buffered},timeout={timeout}]', order == ['write', 'drain'],
                  f'_send returned after {order}: without drain() a connection reset during the send goes unnoticed')
    ex.run(send_drains, '_send-drains')


def prove_accept(src_root, ex: Explorer):
    # 'handler-cut-short': IF accept() bounds the initialisation handler with a timeout, the expiry (the peer stays silent) ends the handler
    # without its own error handling having run: accept() itself must then close the connection
    outcomes = ['initialized', 'closed-by-handler', 'handler-cut-short']

    def path(ctx: Ctx):
        it = mk(src_root, ctx)
        w = NetWorld(it, ctx)
        oc = outcomes[ctx.choose(3, 'outcome')]
        accepted = []
        expired = []

        def on_peer_accepted(it2, a, k):
            conn = a[0]
            accepted.append(conn)
            w.registry.append(conn)
            if oc == 'handler-cut-short' and it2.aio.timeout_depth > 0:
                expired.append(1)
                it2.throw('TimeoutError')
            if oc == 'closed-by-handler':
                # undecodable / unexpected init message, unknown pierce ticket, EOF ...: the handler disconnects
                it2.await_value(it2.call(it2.getattr(conn, 'disconnect'), [enum(it2, CONN, 'CloseReason', 'REQUESTED')], {}))
        w.network.attrs['on_peer_accepted'] = Recorder('on_peer_accepted', fn=on_peer_accepted, is_async=True)
        lc = new(it, CONN, 'ListeningConnection', hostname='0.0.0.0', port=1, network=w.network, obfuscated=False)
        writer = w.data_connection().attrs['_writer']
        try:
            run(it, it.getattr(lc, 'accept'), Stub('reader'), writer)
        except PyRaise as pr:
            ctx.fail(f'C10.accept.no-raise[{oc}]', repr(pr.exc))
            return
        conn = accepted[0] if accepted else None
        seq = w.seq(conn) if conn else []
        monotone(ctx, f'C10.set_state.monotone#accept[{oc}]', seq)
        if oc == 'handler-cut-short':
            ctx.prove('C10.accept.cut-short-closes', (not expired) or (conn.attrs['state'].name == 'CLOSED' and not any(x is conn for x in w.registry)),
                      f'the initialisation handler was cut short by a timeout of accept(): the connection is {conn.attrs["state"].name} and '
                      f'{"still registered" if any(x is conn for x in w.registry) else "unregistered"} - nobody reads it, its close is never noticed')
        elif oc == 'initialized':
            ctx.prove('C10.accept.connected', 'CONNECTED' in seq and conn.attrs['state'].name == 'CONNECTED')
        else:
            ctx.prove('C10.accept.closed-stays-closed', conn.attrs['state'].name == 'CLOSED' and not any(x is conn for x in w.registry),
                      f'after the initialisation handler closed the accepted connection its state is {conn.attrs["state"].name} (reports {seq})')
    ex.run(path, 'accept')


def prove_accepted_registered(src_root, ex: Explorer):
    """Network.on_peer_accepted (the handler ListeningConnection.accept awaits right after reporting CONNECTED): the accepted connection is
    in the registry BEFORE the handler first suspends - while it waits for the init message the connection is open, so it has to be
    registered (counted, closed by Network.disconnect(), removed again on CLOSED)."""
    def path(ctx: Ctx):
        it = mk(src_root, ctx)
        registry = []
        conn = Stub('accepted connection', receive_message_object=Recorder('receive_message_object', is_async=True),
                    disconnect=Recorder('disconnect', is_async=True))
        net = new(it, NET, 'Network', peer_connections=registry)
        seen = []

        def on_yield(it2, label):
            if not seen:
                seen.append(label)
                ctx.prove('C10.accepted.registered-before-suspension', any(c is conn for c in net.attrs['peer_connections']),
                          f'the handler suspends on {label} while the accepted (open) connection is not in the registry')
            raise PathAbort()
        it.aio.on_yield = on_yield
        try:
            run(it, it.getattr(net, 'on_peer_accepted'), conn)
        except PyRaise:
            pass
        if not seen:
            ctx.prove('C10.accepted.registered-before-suspension', any(c is conn for c in net.attrs['peer_connections']), 'the accepted connection is never registered')
    ex.run(path, 'accepted-registered')


def prove_shutdown_order(src_root, ex: Explorer):
    """Network.disconnect(): the connection-creation tasks are cancelled BEFORE the first suspension - an attempt that is still running
    while the connections are being closed would open a connection after the shutdown (CONNECTED after the registry was closed)."""
    def path(ctx: Ctx):
        it = mk(src_root, ctx)
        order = []
        it.hooks[f'{NET}:Network._cancel_all_tasks'] = lambda it2, f, a, k: order.append('cancel-tasks')
        sc = Stub('server', disconnect=Recorder('disconnect', fn=lambda it2, a, k: order.append('server-closed'), is_async=True))
        net = new(it, NET, 'Network', server_connection=sc, peer_connections=[], listening_connections=[None, None])
        seen = []

        def on_yield(it2, label):
            if not seen:
                seen.append(label)
                ctx.prove('C10.shutdown.cancels-attempts-first', 'cancel-tasks' in order,
                          f'Network.disconnect() suspends on {label} before the connection-creation tasks are cancelled')
        it.aio.on_yield = on_yield
        run(it, it.getattr(net, 'disconnect'))
        if not seen:
            ctx.prove('C10.shutdown.cancels-attempts-first', order[:1] == ['cancel-tasks'])
        ctx.prove('C10.shutdown.closes-server', 'server-closed' in order)
    ex.run(path, 'shutdown-order')

    def exact(ctx: Ctx):
        """the registry stays exact across a shutdown: the peer connections registered at the call are closed (each leaves the registry
        through its own CLOSED report, C10.registry.remove); a connection that is registered WHILE disconnect() is suspended (accepted in
        that window) and is still open afterwards must still be registered - only CLOSED removes an entry"""
        it = mk(src_root, ctx)
        it.hooks[f'{NET}:Network._cancel_all_tasks'] = lambda it2, f, a, k: None
        registry = []

        def mkc(label):
            c = Stub(label)

            def disc(it2, a, k):
                registry[:] = [x for x in registry if x is not c]      # contract of disconnect + registry.remove: CLOSED, removed
            c.attrs['disconnect'] = Recorder('disconnect', fn=disc, is_async=True)
            return c
        early = mkc('registered at the call')
        late = mkc('accepted during the shutdown')
        registry.append(early)
        sc = Stub('server', disconnect=Recorder('disconnect', is_async=True))
        net = new(it, NET, 'Network', server_connection=sc, peer_connections=registry, listening_connections=[None, None])
        seen = []

        def on_yield(it2, label):
            if not seen:
                seen.append(label)
                net.attrs['peer_connections'].append(late)
        it.aio.on_yield = on_yield
        run(it, it.getattr(net, 'disconnect'))
        now = net.attrs['peer_connections']
        late_closed = len(late.attrs['disconnect'].calls) > 0
        ctx.prove('C10.shutdown.registry-exact', isinstance(now, list) and not any(x is early for x in now) and
                  (late_closed or any(x is late for x in now)),
                  'a connection accepted while Network.disconnect() was suspended is open but no longer registered (nothing can close it any more)')
    ex.run(exact, 'shutdown-registry')

    def direct(ctx: Ctx):
        """_make_direct_connection: the connection object is in the registry before connect() is awaited (a CONNECTING connection is an
        open attempt: it must be closed by a shutdown and removed on CLOSED)"""
        it = mk(src_root, ctx)
        registry = []
        created = []
        it.hooks[f'{CONN}:DataConnection.connect'] = lambda it2, f, a, k: (created.append(a[0]), A.SimpleAwaitable(it2.aio, 'connect', lambda it3: None))[1]
        it.hooks[f'{NET}:Network._get_peer_address'] = lambda it2, f, a, k: A.SimpleAwaitable(it2.aio, 'addr', lambda it3: ('1.2.3.4', 5, 0), yields=False)
        it.hooks[f'{NET}:Network.select_port'] = lambda it2, f, a, k: (5, False)
        net = new(it, NET, 'Network', peer_connections=registry, _settings=Stub('settings'), _ip_overrides={})
        seen = []

        def on_yield(it2, label):
            if label == 'connect' and not seen:
                seen.append(label)
                ctx.prove('C10.direct.registered-before-connect', bool(created) and any(x is created[0] for x in net.attrs['peer_connections']),
                          'the outgoing connection is not registered while its connect() is in flight')
                raise PathAbort()
        it.aio.on_yield = on_yield
        try:
            run(it, it.getattr(net, '_make_direct_connection'), 7, 'bob', 'P', ip='1.2.3.4', port=5, obfuscate=False)
            err = None
        except PyRaise as pr:
            err = repr(pr.exc)
        if not seen:
            ctx.fail('C10.direct.registered-before-connect', f'connect() was never awaited ({err})')
    ex.run(direct, 'direct-registered')


def prove_accepted_failures(src_root, ex: Explorer):
    """An accepted connection whose initialisation fails (undecodable first frame, read error, EOF, unexpected message) ends CLOSED - by
    the read contract or by an explicit disconnect - and only that connection is touched.  This is C02.on_peer_accepted.isolation[*];
    it is discharged here as well: without it a dead accepted connection stays in the registry for ever."""
    from contracts import C02
    C02.prove_on_peer_accepted(src_root, ex)
    for ob in ex.obligations:
        if ob.name.startswith('C02.on_peer_accepted.isolation'):
            ob.name = 'C10.accepted.failed-init-closes' + ob.name[len('C02.on_peer_accepted.isolation'):]


def prove_registry(src_root, ex: Explorer):
    def removal(ctx: Ctx):
        it = mk(src_root, ctx)
        net = new(it, NET, 'Network')
        a, b = Obj(cls(it, CONN, 'PeerConnection')), Obj(cls(it, CONN, 'PeerConnection'))
        net.attrs['peer_connections'] = [a, b]
        st = ORDER[ctx.choose(5, 'state')]
        run(it, it.getattr(net, '_on_peer_connection_state_changed'), enum(it, CONN, 'ConnectionState', st), a)
        run(it, it.getattr(net, '_on_peer_connection_state_changed'), enum(it, CONN, 'ConnectionState', st), a)
        ctx.prove(f'C10.registry.remove[{st}]', net.attrs['peer_connections'] == ([b] if st == 'CLOSED' else [a, b]),
                  'CLOSED removes exactly that connection (idempotently); no other state touches the registry')
    ex.run(removal, 'registry-removal')

    def dispatch(ctx: Ctx):
        it = mk(src_root, ctx)
        kind = ['PeerConnection', 'ServerConnection'][ctx.choose(2, 'kind')]
        c = Obj(cls(it, CONN, kind))
        calls, emitted, order = [], [], []
        net = new(it, NET, 'Network', _event_bus=Stub('bus', emit=Recorder('emit', fn=lambda it2, a, k: (emitted.append(a[0]), order.append('event')), is_async=True)))
        it.hooks[f'{NET}:Network._on_peer_connection_state_changed'] = lambda it2, f, a, k: A.SimpleAwaitable(it2.aio, 'peer', lambda it3: (calls.append('peer'), order.append('registry')))
        it.hooks[f'{NET}:Network._on_server_connection_state_changed'] = lambda it2, f, a, k: A.SimpleAwaitable(it2.aio, 'server', lambda it3: (calls.append('server'), order.append('registry')))
        st = enum(it, CONN, 'ConnectionState', 'CLOSED')
        run(it, it.getattr(net, 'on_state_changed'), st, c, close_reason=enum(it, CONN, 'CloseReason', 'EOF'))
        ok = calls == ['peer' if kind == 'PeerConnection' else 'server'] and len(emitted) == 1 and emitted[0].cls.name == 'ConnectionStateChangedEvent' \
            and emitted[0].attrs['connection'] is c and emitted[0].attrs['state'] is st
        ctx.prove(f'C10.on_state_changed.reports[{kind}]', ok and order == ['registry', 'event'],
                  f'registry handler first, then exactly one ConnectionStateChangedEvent (order {order}): a listener that suspends - or the cancellation of the '
                  'reporting task while listeners run - must not leave a CLOSED connection registered')
    ex.run(dispatch, 'on_state_changed')


def prove_connect_sites(src_root, ex: Explorer):
    """The call sites of PeerConnection.connect(): the connection is registered before the call (registry exact while CONNECTING) and is
    a FRESH object (UNINITIALIZED) - a peer connection never goes closed -> connecting.  The harnesses are the ones of C11 (outgoing direct
    attempt, connect-back after ConnectToPeer); only their C10.* obligations are kept here."""
    from contracts import C11
    C11.prove_direct(src_root, ex)
    C11.prove_connect_to_peer(src_root, ex)
    ex.obligations[:] = [ob for ob in ex.obligations if ob.name.startswith('C10.')]


def prove_pierce_relies(src_root, ex: Explorer):
    """An accepted connection whose PeerPierceFirewall names a ticket nobody waits for is closed by the handler (otherwise it stays open and
    registered with no reader): the hand-over contract of C11 (C11.pierce.*), discharged here as well."""
    from contracts import C11
    C11.prove_pierce(src_root, ex)
    for ob in ex.obligations:
        if ob.name.startswith('C11.pierce.'):
            ob.name = 'C10.accepted.pierce.' + ob.name[len('C11.pierce.'):]


def prove_reader_relies(src_root, ex: Explorer):
    """A connection whose peer closes (or breaks) it ends CLOSED because its reader notices: the reader loop goes on reading after a frame
    it cannot decode and ends only when the connection is closing (C02.reader_loop.*), discharged here as well."""
    from contracts import C02
    C02.prove_reader_loop(src_root, ex)
    for ob in ex.obligations:
        if ob.name.startswith('C02.'):
            ob.name = 'C10.reader-notices-close.' + ob.name[4:]


def items(src_root, tier):
    return [('pierce-relies', None), ('reader-relies', None), ('connect-sites', None), ('set_state', None), ('connect', None), ('disconnect', None), ('after', None), ('accept', None), ('registry', None), ('accepted', None), ('accepted-failures', None), ('shutdown', None)]


def run_item(src_root, item, tier):
    res = std_result('C10')
    ex = Explorer()
    kind, arg = item
    try:
        {'set_state': prove_set_state, 'connect': prove_connect, 'disconnect': prove_disconnect, 'after': prove_after_closed,
         'accept': prove_accept, 'registry': prove_registry, 'accepted': prove_accepted_registered, 'accepted-failures': prove_accepted_failures, 'shutdown': prove_shutdown_order,
         'connect-sites': prove_connect_sites, 'reader-relies': prove_reader_relies, 'pierce-relies': prove_pierce_relies}[kind](src_root, ex)
    except Unsupported as e:
        res.errors.append(f'{kind}: unsupported: {e}')
    collect(res, ex)
    res.functions.update([f'{CONN}:Connection.set_state', f'{CONN}:DataConnection.connect', f'{CONN}:DataConnection.disconnect',
                          f'{CONN}:DataConnection.send_message', f'{CONN}:DataConnection._send', f'{CONN}:ListeningConnection.accept',
                          f'{NET}:Network.on_state_changed', f'{NET}:Network.on_peer_accepted', f'{NET}:Network._on_peer_connection_state_changed', f'{NET}:Network.remove_peer_connection'])
    return res
