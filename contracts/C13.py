"""C13 -- distributed tree invariants and truthful advertised place.  DESIGN.md section 4 / C13.
(The harness `Tree` is shared with C14.)"""
from __future__ import annotations

import z3

from pyvc.ctx import Ctx, Explorer, Unsupported, PathAbort
from pyvc.interp import Interp
from pyvc.values import (Sym, Obj, PyRaise, Native, Bound, EnumMember, Opaque, unbox, z3int, z3str, z3real)
from pyvc import natives as N
from pyvc import aio as A
from contracts.common import (source, mk, cls, func, new, run, enum, Recorder, Stub, collect, std_result)

DN = 'distributed'
CONN = 'network.connection'
MSG = 'protocol.messages'

ASSUMPTIONS = [
    'A-atomic: cooperative scheduling; awaited sends / disconnects are yield points',
    'the ghost trace sent[c] is the hand-over point (delivery by the network is trusted)',
    'list shapes: parent (absent / present), 0..2 children and one further distributed connection are enumerated; all '
    'fields (names, levels, roots, speeds, flags) are symbolic.  Obligations that quantify over the children list are '
    'labelled [bounded]; the others do not depend on its length',
]
TRUSTED_BASE = ['pyvc engine', 'z3', 'abstract asyncio model']
NOT_DECIDED = ['liveness of parent/children connections "at all times" (window between CLOSED and its handler)',
               'ordering on the wire of sends issued by interleaved handlers']


def sstr(ctx, name):
    return Sym(ctx.fresh_str(name), 'str')


class Tree:
    """A DistributedNetwork in an arbitrary state of a given SHAPE."""

    def __init__(self, it: Interp, ctx: Ctx, *, parent: bool, n_children: int, extra: bool = True, session: bool = True):
        self.it, self.ctx = it, ctx
        self.me = sstr(ctx, 'me')
        self.sent = {}            # connection label -> list of messages (ghost sent[c])
        self.server_sent: list = []
        self.disconnected: list = []
        self.order: list = []

        def c_queue_messages(it2, f, args, kwargs):
            conn = args[0]
            self.sent.setdefault(conn.label, []).extend(args[1:])
            self.order.append(('queue', conn.label))
            return []

        def c_send_message(it2, f, args, kwargs):
            conn = args[0]

            def body(it3):
                self.sent.setdefault(conn.label, []).append(args[1])
                self.order.append(('send', conn.label))
            return A.SimpleAwaitable(it2.aio, 'send_message', body)

        def c_disconnect(it2, f, args, kwargs):
            conn = args[0]

            def body(it3):
                self.disconnected.append(conn)
                self.order.append(('disconnect', conn.label))
            return A.SimpleAwaitable(it2.aio, 'disconnect', body)
        self.broadcasts: list = []          # ghost: what every child was handed, in order (fan-out contract C14.fanout.* / C13.fanout.*)

        def c_fanout(it2, f, args, kwargs):
            """send_messages_to_children by its contract (proved for an arbitrary child of an arbitrarily long list, never suspending):
            every current child is handed all the messages; recorded once in `broadcasts`, delivered to the concrete children of the shape"""
            msgs = list(args[1:])

            def body(it3):
                self.broadcasts.append(msgs)
                for ch in args[0].attrs['children']:
                    self.sent.setdefault(ch.attrs['connection'].label, []).extend(msgs)
                    self.order.append(('queue', ch.attrs['connection'].label))
            return A.SimpleAwaitable(it2.aio, 'send_messages_to_children', body, yields=False)
        it.hooks[f'{DN}:DistributedNetwork.send_messages_to_children'] = c_fanout
        it.hooks[f'{CONN}:DataConnection.queue_messages'] = c_queue_messages
        it.hooks[f'{CONN}:DataConnection.send_message'] = c_send_message
        it.hooks[f'{CONN}:DataConnection.disconnect'] = c_disconnect
        PC = cls(it, CONN, 'PeerConnection')

        def conn(label, uname):
            c = Obj(PC, label=label)
            c.attrs.update(username=uname, connection_type='D', hostname='h', port=1)
            return c

        def peer(label, complete=None):
            uname = sstr(ctx, label + '_name')
            p = new(it, DN, 'DistributedPeer', username=uname, connection=conn(label, uname), branch_level=None, branch_root=None)
            p.label = label
            if complete is None:
                complete = ctx.choose(2, label + '-complete') == 1
            if complete:
                lv = ctx.fresh_int(label + '_level')
                ctx.assume(lv >= 0)
                p.attrs['branch_level'] = Sym(lv, 'int')
                p.attrs['branch_root'] = sstr(ctx, label + '_root')
            return p
        self.parent = peer('parent', complete=True) if parent else None
        self.children = [peer(f'child{i}') for i in range(n_children)]
        self.extra = peer('other') if extra else None
        peers = ([self.parent] if self.parent else []) + self.children + ([self.extra] if self.extra else [])
        # distinct peers have distinct user names (a name identifies a peer)
        names = [p.attrs['username'].t for p in peers] + [self.me.t]
        if len(names) > 1:
            ctx.assume(z3.Distinct(*names))
        self.search_for_parent = Sym(ctx.fresh_bool('search_for_parent'), 'bool')
        settings = Stub('settings', debug=Stub('debug', search_for_parent=self.search_for_parent))

        def send_server(it2, a, k):
            self.server_sent.extend(a)
            self.order.append(('server', [m.cls.qual for m in a]))
        self.network = Stub('network', send_server_messages=Recorder('send_server_messages', fn=send_server, is_async=True),
                            peer_connections=[p.attrs['connection'] for p in peers])
        sess = Stub('session', user=Stub('user', name=self.me)) if session else None
        self.accept = Sym(ctx.fresh_bool('accept_children'), 'bool')
        self.maxc = Sym(ctx.fresh_int('max_children'), 'int')
        # connection attempts to earlier proposed parents may still be running (they have no influence on what the server is told)
        self.pending_attempts = [A.TaskVal(it.aio, None, 'potential-parent-pending')] if ctx.choose(2, 'pending-parent-attempts') == 1 else []
        self.emitted = []
        bus = Stub('bus', emit=Recorder('emit', fn=lambda it2, a, k: self.emitted.append(a[0]), is_async=True))
        self.dn = new(it, DN, 'DistributedNetwork', _settings=settings, _event_bus=bus, _network=self.network, _session=sess,
                      parent=self.parent, children=list(self.children), potential_parents=[], distributed_peers=list(peers),
                      parent_min_speed=None, parent_speed_ratio=None, min_parents_in_cache=None, parent_inactivity_timeout=None,
                      distributed_alive_interval=None, _max_children=self.maxc, _accept_children=self.accept,
                      _potential_parent_tasks=self.pending_attempts)
        self.peers = peers

    # --- spec functions -----------------------------------------------------
    def adv(self, parent=None):
        """adv(parent, me): (root, level) as z3 terms"""
        p = self.dn.attrs['parent'] if parent is None else parent
        if p is None:
            return self.me.t, z3.IntVal(0)
        root, level = z3str(p.attrs['branch_root']), z3int(p.attrs['branch_level'])
        return z3.If(root == self.me.t, self.me.t, root), z3.If(root == self.me.t, z3.IntVal(0), level + 1)

    def inv_tree(self):
        """INV-tree: parent not among children, parent and children are registered peers, no duplicate children"""
        dn = self.dn.attrs
        p, ch, dp = dn['parent'], dn['children'], dn['distributed_peers']
        ok = (p is None or all(c is not p for c in ch)) and (p is None or any(x is p for x in dp)) and \
            all(any(x is c for x in dp) for c in ch) and len({id(c) for c in ch}) == len(ch)
        return ok

    def last_told_server(self):
        lv = [m for m in self.server_sent if m.cls.qual == 'BranchLevel.Request']
        rt = [m for m in self.server_sent if m.cls.qual == 'BranchRoot.Request']
        tg = [m for m in self.server_sent if m.cls.qual == 'ToggleParentSearch.Request']
        return (lv[-1] if lv else None), (rt[-1] if rt else None), (tg[-1] if tg else None)

    def told_server_formula(self):
        lv, rt, tg = self.last_told_server()
        if lv is None or rt is None:
            return None
        root, level = self.adv()
        f = z3.And(z3int(lv.attrs['level']) == level, z3str(rt.attrs['username']) == root)
        if tg is not None:
            want = z3.And(z3.BoolVal(self.dn.attrs['parent'] is None), self.search_for_parent.t)
            t = self.it.truth(tg.attrs['enable'])
            f = z3.And(f, (z3.BoolVal(t) if isinstance(t, bool) else t) == want)
        return f

    def told_children_formula(self):
        """what ANY child that was present during the handler was told last (from the broadcast log): unbounded in the number of children"""
        flat = [m for b in self.broadcasts for m in b]
        lv = [m for m in flat if isinstance(m, Obj) and m.cls.qual == 'DistributedBranchLevel.Request']
        rt = [m for m in flat if isinstance(m, Obj) and m.cls.qual == 'DistributedBranchRoot.Request']
        if not lv:
            return None
        root, level = self.adv()
        f = z3int(lv[-1].attrs['level']) == level
        if rt:
            f = z3.And(f, z3str(rt[-1].attrs['username']) == root)
        else:
            f = z3.And(f, level == 0, root == self.me.t)
        return f

    def told_child_formula(self, child):
        msgs = self.sent.get(child.attrs['connection'].label, [])
        lv = [m for m in msgs if isinstance(m, Obj) and m.cls.qual == 'DistributedBranchLevel.Request']
        rt = [m for m in msgs if isinstance(m, Obj) and m.cls.qual == 'DistributedBranchRoot.Request']
        if not lv:
            return None
        root, level = self.adv()
        f = z3int(lv[-1].attrs['level']) == level
        if rt:
            f = z3.And(f, z3str(rt[-1].attrs['username']) == root)
        else:
            # without a root message the child assumes the sender is the root: only right at level 0 with root == me
            f = z3.And(f, level == 0, root == self.me.t)
        return f


def tag(parent, n):
    return f'{"parent" if parent else "no-parent"},children={n}'


# ---------------------------------------------------------------------------

def prove_adv(src_root, ex: Explorer):
    def path(ctx: Ctx):
        it = mk(src_root, ctx)
        has_parent = ctx.choose(2, 'parent') == 1
        t = Tree(it, ctx, parent=has_parent, n_children=0, extra=False)
        r = it.call(it.getattr(t.dn, '_get_advertised_branch_values'), [], {})
        root, level = t.adv()
        ctx.prove(f'C13.adv.spec[{"parent" if has_parent else "no-parent"}]',
                  z3.And(z3str(r[0]) == root, z3int(r[1]) == level), 'advertised (root, level) = (parent.root, parent.level+1) / (me, 0)')
    ex.run(path, 'adv')


def prove_check_new_parent(src_root, ex: Explorer):
    def path(ctx: Ctx):
        it = mk(src_root, ctx)
        has_parent = ctx.choose(2, 'parent') == 1
        who = ['other', 'child'][ctx.choose(2, 'who')]
        t = Tree(it, ctx, parent=has_parent, n_children=1)
        peer = t.extra if who == 'other' else t.children[0]
        complete = peer.attrs['branch_level'] is not None
        try:
            run(it, it.getattr(t.dn, '_check_if_new_parent'), peer)
        except PyRaise as pr:
            ctx.fail('C13.parent.single.no-raise', repr(pr.exc))
            return
        now = t.dn.attrs['parent']
        tg = f'{"has-parent" if has_parent else "no-parent"},{who},{"complete" if complete else "incomplete"}'
        should = (not has_parent) and complete and who == 'other'
        ctx.prove(f'C13.parent.single[{tg}]', (now is peer) == should and (should or now is t.parent),
                  f'parent after the call: {now!r}; a peer becomes parent only if there is none, it announced level and root, '
                  f'and it is not one of our children')
        ctx.prove(f'C13.inv-tree#_check_if_new_parent[{tg}]', t.inv_tree(), 'parent is among the children')
        if has_parent and complete and who == 'other':
            ctx.prove(f'C13.parent.single.rejects[{tg}]', t.disconnected == [peer.attrs['connection']],
                      'a complete candidate that is not taken must be disconnected')
        if should:
            f = t.told_server_formula()
            ctx.prove(f'C13.told._set_parent.server[{tg}]', f if f is not None else False)
            cf = t.told_child_formula(t.children[0])
            ctx.prove(f'C13.told._set_parent.children[bounded]', cf if cf is not None else False)
            bf = t.told_children_formula()
            ctx.prove('C13.told._set_parent.children', bf if bf is not None else False, 'the children are not told the position derived from the new parent')
    ex.run(path, 'check_new_parent')


def prove_branch_handlers(src_root, which, ex: Explorer):
    """DistributedBranchLevel / DistributedBranchRoot from the CURRENT parent: server and children are told adv again."""
    def path(ctx: Ctx):
        it = mk(src_root, ctx)
        n = ctx.choose(2, 'children')
        t = Tree(it, ctx, parent=True, n_children=n)
        if which == 'level':
            lv = ctx.fresh_int('new_level')
            ctx.assume(lv >= 0)
            msg = new(it, MSG, 'DistributedBranchLevel.Request', level=Sym(lv, 'int'))
            h = '_on_distributed_branch_level'
        else:
            msg = new(it, MSG, 'DistributedBranchRoot.Request', username=sstr(ctx, 'new_root'))
            h = '_on_distributed_branch_root'
        try:
            run(it, it.getattr(t.dn, h), msg, t.parent.attrs['connection'])
        except PyRaise as pr:
            ctx.fail(f'C13.told.{h}.no-raise', repr(pr.exc))
            return
        changed = True
        if which == 'root':
            changed = not ctx.valid(z3str(t.parent.attrs['branch_root']) != z3str(msg.attrs['username'])) or True
        # the parent's values after the handler are the announced ones
        if which == 'level':
            ctx.prove(f'C13.{h}.records', z3int(t.parent.attrs['branch_level']) == z3int(msg.attrs['level']))
        else:
            ctx.prove(f'C13.{h}.records', z3str(t.parent.attrs['branch_root']) == z3str(msg.attrs['username']))
        ctx.prove(f'C13.inv-tree#{h}', t.inv_tree() and t.dn.attrs['parent'] is t.parent)
        nothing_new = (which == 'root' and not t.server_sent and not t.sent)
        # when nothing changed (root equal to what we had) nothing needs to be told; otherwise everybody is told adv
        unchanged = which == 'root' and ctx.valid(z3.BoolVal(nothing_new)) and nothing_new and \
            len(ctx.decisions) > 0 and not t.order
        if unchanged:
            ctx.ok(f'C13.told.{h}.server')
            return
        f = t.told_server_formula()
        ctx.prove(f'C13.told.{h}.server', f if f is not None else False,
                  'the parent announced new values: the position told to the SERVER no longer equals the position derived '
                  'from the parent (only the children are told)')
        for c in t.children:
            cf = t.told_child_formula(c)
            ctx.prove(f'C13.told.{h}.children[bounded]', cf if cf is not None else False)
        bf = t.told_children_formula()
        ctx.prove(f'C13.told.{h}.children', bf if bf is not None else False, 'the children are not told the new position')
    ex.run(path, f'branch-{which}')


def prove_unset_parent(src_root, ex: Explorer):
    def path(ctx: Ctx):
        it = mk(src_root, ctx)
        n = ctx.choose(2, 'children')
        session = ctx.choose(2, 'session') == 1
        t = Tree(it, ctx, parent=True, n_children=n, session=session)
        closed = enum(it, CONN, 'ConnectionState', 'CLOSED')
        ev = Stub('event', connection=t.parent.attrs['connection'], state=closed)
        try:
            run(it, it.getattr(t.dn, '_on_state_changed'), ev)
        except PyRaise as pr:
            ctx.fail('C13.closed.cleanup.no-raise', repr(pr.exc))
            return
        dn = t.dn.attrs
        tg = f'parent-lost,children={n},{"session" if session else "no-session"}'
        ctx.prove(f'C13.closed.cleanup[{tg}]', dn['parent'] is None and all(x is not t.parent for x in dn['distributed_peers'])
                  and dn['children'] == t.children, 'the lost parent must be forgotten everywhere')
        if session:
            f = t.told_server_formula()
            ctx.prove(f'C13.told._unset_parent.server[{tg}]', f if f is not None else False,
                      'after losing the parent the server must be told level 0, own name and a request for parents')
            for c in t.children:
                cf = t.told_child_formula(c)
                ctx.prove('C13.told._unset_parent.children[bounded]', cf if cf is not None else False)
    ex.run(path, 'unset_parent')

    def child_lost(ctx: Ctx):
        it = mk(src_root, ctx)
        t = Tree(it, ctx, parent=ctx.choose(2, 'parent') == 1, n_children=2)
        closed = enum(it, CONN, 'ConnectionState', 'CLOSED')
        ev = Stub('event', connection=t.children[0].attrs['connection'], state=closed)
        run(it, it.getattr(t.dn, '_on_state_changed'), ev)
        dn = t.dn.attrs
        ctx.prove('C13.closed.cleanup[child-lost]', dn['children'] == [t.children[1]] and all(x is not t.children[0] for x in dn['distributed_peers'])
                  and dn['parent'] is t.parent and not t.server_sent)
    ex.run(child_lost, 'child_lost')


def prove_admit(src_root, ex: Explorer):
    def path(ctx: Ctx):
        it = mk(src_root, ctx)
        n = ctx.choose(3, 'children')
        t = Tree(it, ctx, parent=ctx.choose(2, 'parent') == 1, n_children=n)
        peer = t.extra
        is_candidate = ctx.choose(2, 'potential-parent') == 1
        t.dn.attrs['potential_parents'] = [sstr(ctx, 'pp0')] + ([peer.attrs['username']] if is_candidate else [])
        if not is_candidate:
            ctx.assume(t.dn.attrs['potential_parents'][0].t != peer.attrs['username'].t)
        at_first_yield = []

        def on_yield(it2, label):
            if not at_first_yield:
                at_first_yield.append(any(c is peer for c in t.dn.attrs['children']))
        it.aio.on_yield = on_yield
        try:
            run(it, it.getattr(t.dn, '_check_if_new_child'), peer)
        except PyRaise as pr:
            ctx.fail('C13.admit.no-raise', repr(pr.exc))
            return
        admitted = any(c is peer for c in t.dn.attrs['children'])
        cond = z3.And(t.accept.t, z3.IntVal(n) < t.maxc.t, z3.BoolVal(not is_candidate))
        ctx.prove(f'C13.admit[children={n},{"candidate" if is_candidate else "stranger"}]', z3.BoolVal(admitted) == cond,
                  'a child is accepted iff acceptance is on, the number of children is below the maximum and the peer was not proposed as potential parent')
        if admitted:
            # check and append in one atomic section: the first thing logged is the send to the new child (after the append)
            ctx.prove('C13.admit.atomic', at_first_yield == [True] or not it.aio.yields,
                      'the admission check and the append must be one atomic section (no await in between): a second connection '
                      'checked in the window would exceed the maximum')
            cf = t.told_child_formula(peer)
            ctx.prove('C13.told._add_child', cf if cf is not None else False, 'the new child must be told our position')
        else:
            ctx.prove(f'C13.admit.rejected[{"candidate" if is_candidate else "stranger"}]',
                      (t.disconnected == [peer.attrs['connection']]) if not is_candidate else not t.disconnected)
        ctx.prove('C13.inv-tree#_check_if_new_child', t.inv_tree())
    ex.run(path, 'admit')


def prove_max_children(src_root, ex: Explorer):
    def path(ctx: Ctx):
        it = mk(src_root, ctx)
        t = Tree(it, ctx, parent=False, n_children=0, extra=False)
        own = ctx.choose(2, 'own') == 1
        speed = ctx.fresh_int('speed')
        ctx.assume(speed >= 0)
        ms_known, rt_known = ctx.choose(2, 'min-speed') == 1, ctx.choose(2, 'ratio') == 1
        ms, rt = ctx.fresh_int('min_speed'), ctx.fresh_int('ratio')
        ctx.assume(z3.And(ms >= 0, rt >= 1))
        t.dn.attrs['parent_min_speed'] = Sym(ms, 'int') if ms_known else None
        t.dn.attrs['parent_speed_ratio'] = Sym(rt, 'int') if rt_known else None
        dflt_ms = it.module_global(it.source.module(DN), 'DEFAULT_PARENT_MIN_SPEED')
        dflt_rt = it.module_global(it.source.module(DN), 'DEFAULT_PARENT_SPEED_RATIO')
        stats = new(it, 'protocol.primitives', 'UserStats', avg_speed=Sym(speed, 'int'), uploads=0, shared_file_count=0, shared_folder_count=0)
        uname = t.me if own else sstr(ctx, 'someone')
        if not own:
            ctx.assume(uname.t != t.me.t)
        msg = new(it, MSG, 'GetUserStats.Response', username=uname, user_stats=stats)
        acc0, max0 = t.dn.attrs['_accept_children'], t.dn.attrs['_max_children']
        at_yield = []
        it.aio.on_yield = lambda it2, label: at_yield.append((label, t.dn.attrs['_accept_children'], t.dn.attrs['_max_children']))
        try:
            run(it, it.getattr(t.dn, '_on_get_user_stats'), msg, Opaque('conn'))
        except PyRaise as pr:
            ctx.fail('C13.max_children.no-raise', repr(pr.exc))
            return
        it.aio.on_yield = None
        acc, mx = t.dn.attrs['_accept_children'], t.dn.attrs['_max_children']
        if own:
            # the limits are in force from the moment the server is told: a peer that connects while the message is being written is
            # admitted under the limits the handler computed, not under the old ones
            ctx.prove('C13.max_children.in-force-when-told', all(a is acc and m is mx for _l, a, m in at_yield),
                      f'while the handler is suspended ({[l for l, _a, _m in at_yield]}) the old child limits are still in force')
        if not own:
            ctx.prove('C13.max_children.spec[other-user]', acc is acc0 and mx is max0 and not t.server_sent)
            return
        msv = ms if ms_known else z3.IntVal(dflt_ms)
        rtv = rt if rt_known else z3.IntVal(dflt_rt)
        low = speed < msv * 1024
        acc_t = it.truth(acc)
        acc_t = z3.BoolVal(acc_t) if isinstance(acc_t, bool) else acc_t
        # max children = floor(speed / ((ratio / 10) * 1024))
        q = z3.ToReal(speed) / ((z3.ToReal(rtv) / 10) * 1024)
        mxr = z3.ToReal(z3int(mx))
        ctx.prove('C13.max_children.spec[own]', z3.And(acc_t == z3.Not(low), z3.If(low, z3int(mx) == 0, z3.And(mxr <= q, q < mxr + 1))))
        ac = [m for m in t.server_sent if m.cls.qual == 'AcceptChildren.Request']
        ctx.prove('C13.max_children.told', len(ac) == 1 and len(t.server_sent) == 1 and ctx.valid(
            (z3.BoolVal(it.truth(ac[0].attrs['accept'])) if isinstance(it.truth(ac[0].attrs['accept']), bool) else it.truth(ac[0].attrs['accept'])) == acc_t))
    ex.run(path, 'max_children')


def prove_session_initialized(src_root, ex: Explorer):
    def path(ctx: Ctx):
        it = mk(src_root, ctx)
        t = Tree(it, ctx, parent=ctx.choose(2, 'parent') == 1, n_children=0, extra=False, session=False)
        sess = Stub('session', user=Stub('user', name=t.me))
        run(it, it.getattr(t.dn, '_on_session_initialized'), Stub('event', session=sess))
        f = t.told_server_formula()
        ctx.prove('C13.told._on_session_initialized.server', f if f is not None else False)
    ex.run(path, 'session_initialized')


def prove_candidates(src_root, ex: Explorer):
    """candidate != child rests on the cache of proposed parents.  (a) _on_potential_parents only ADDS the proposed names (earlier
    proposals stay candidates - a connection to them may still be open or arrive later); (b) _set_parent makes the peer the parent BEFORE
    its first suspension, so a second candidate that completes meanwhile sees a parent and cannot be made parent as well."""
    def adds(ctx: Ctx):
        it = mk(src_root, ctx)
        old = [sstr(ctx, 'earlier0'), sstr(ctx, 'earlier1')]
        cache = list(old)
        e1, e2 = sstr(ctx, 'proposed0'), sstr(ctx, 'proposed1')
        entries = [Stub('entry', username=e1, ip='1.2.3.4', port=1), Stub('entry', username=e2, ip='1.2.3.5', port=2)]
        msg = Stub('PotentialParents.Response', entries=entries)
        settings = Stub('settings', debug=Stub('debug', search_for_parent=True))
        net = Stub('network', create_peer_connection=Recorder('create_peer_connection', is_async=True))
        dn = new(it, DN, 'DistributedNetwork', _settings=settings, _network=net, potential_parents=cache, _potential_parent_tasks=[])
        it.natives['aioslsk.utils.task_counter'] = Native('task_counter', lambda it2, a, k: 1)
        run(it, it.getattr(dn, '_on_potential_parents'), msg, Opaque('server'))
        now = dn.attrs['potential_parents']
        names = list(now) if isinstance(now, list) else None
        ok = names is not None and all(any(x is o for x in names) for o in old) and any(x is e1 for x in names) and any(x is e2 for x in names)
        ctx.prove('C13.candidates.only-added', ok, 'a new PotentialParents list must add its names to the candidates and keep the earlier ones '
                  '(up to the capacity of the cache): a dropped candidate can be admitted as a child')
        ctx.prove('C13.candidates.one-attempt-each', len(dn.attrs['_potential_parent_tasks']) == 2)
    ex.run(adds, 'candidates-added')

    def atomic(ctx: Ctx):
        it = mk(src_root, ctx)
        t = Tree(it, ctx, parent=False, n_children=ctx.choose(2, 'children'))
        peer = t.extra
        seen = []

        def on_yield(it2, label):
            if not seen:
                seen.append(label)
                ctx.prove('C13.set_parent.atomic', t.dn.attrs['parent'] is peer,
                          f'_set_parent suspends on {label} before the peer is the parent: another candidate that completes meanwhile becomes parent too')
            raise PathAbort()
        it.aio.on_yield = on_yield
        it.hooks[f'{DN}:DistributedNetwork._cancel_potential_parent_tasks'] = lambda it2, f, a, k: []
        try:
            run(it, it.getattr(t.dn, '_set_parent'), peer)
        except PyRaise:
            pass
        if not seen:
            ctx.prove('C13.set_parent.atomic', t.dn.attrs['parent'] is peer)
    ex.run(atomic, 'set-parent-atomic')


def prove_set_parent_tells_current(src_root, ex: Explorer):
    """_set_parent suspends in its clean-up (cancelling the other attempts, closing the other candidates) BEFORE it tells the server and
    the children.  The parent can be lost during that suspension (server reset, stop(): the CLOSED path detaches it and tells everybody
    "no parent").  What _set_parent tells after it resumes must be the position derived from the parent AT THAT TIME, not a value computed
    before the suspension - otherwise the last thing the server hears is a stale position (truthful advertised place)."""
    def path(ctx: Ctx):
        it = mk(src_root, ctx)
        t = Tree(it, ctx, parent=False, n_children=1)
        peer = t.extra
        if peer.attrs['branch_level'] is None:
            return
        lost = []

        def on_yield(it2, label):
            # effect of the CLOSED path of the parent (C13.closed.cleanup) while _set_parent is suspended, before anything was told
            if not lost and t.dn.attrs['parent'] is peer and not t.server_sent and 'send_server_messages' not in str(label):
                lost.append(str(label))
                t.dn.attrs['parent'] = None
        it.aio.on_yield = on_yield
        try:
            run(it, it.getattr(t.dn, '_set_parent'), peer)
        except PyRaise as pr:
            ctx.fail('C13.told._set_parent.current-after-suspension', repr(pr.exc))
            return
        if not lost:
            return              # no suspension before the server is told on this path: nothing can change in between
        f = t.told_server_formula()
        if f is None:
            ctx.ok('C13.told._set_parent.current-after-suspension')        # nothing was told after the loss: the CLOSED path has told "no parent"
            return
        ctx.prove('C13.told._set_parent.current-after-suspension', f,
                  f'the parent was lost while _set_parent was suspended ({lost[0]}); after resuming it told the server a position that is not the '
                  'one derived from the current parent (none: level 0, own name, searching)')
    ex.run(path, 'set-parent-current')


def prove_candidates_stay(src_root, ex: Explorer):
    """candidate != child for EVERY later moment: a proposed name leaves the cache only by the cache's own rotation inside
    _on_potential_parents (C13.candidates.only-added).  (a) The done-callback of a connection attempt to a candidate - whatever the
    attempt's outcome: connected, failed, cancelled - leaves the cache as it is (a candidate we could not reach may still connect to US,
    and must not be admitted as child then); (b) whole-tree frame scan: no function outside __init__ / _on_potential_parents removes
    from, clears or rebinds `potential_parents`."""
    import ast
    from pyvc.values import ExcVal
    outcomes = ['connected', 'failed', 'cancelled']

    def callback(ctx: Ctx):
        it = mk(src_root, ctx)
        oc = outcomes[ctx.choose(len(outcomes), 'outcome')]
        cand, other = sstr(ctx, 'candidate'), sstr(ctx, 'other-candidate')
        cache = [other, cand]
        settings = Stub('settings', debug=Stub('debug', search_for_parent=True))
        net = Stub('network', create_peer_connection=Recorder('create_peer_connection', is_async=True))
        dn = new(it, DN, 'DistributedNetwork', _settings=settings, _network=net, potential_parents=cache, _potential_parent_tasks=[])
        it.natives['aioslsk.utils.task_counter'] = Native('task_counter', lambda it2, a, k: 1)
        msg = Stub('PotentialParents.Response', entries=[Stub('entry', username=cand, ip='1.2.3.4', port=1)])
        dn.attrs['potential_parents'] = []
        run(it, it.getattr(dn, '_on_potential_parents'), msg, Opaque('server'))
        tasks = [t for t in it.aio.tasks]
        if len(tasks) != 1:
            ctx.fail(f'C13.candidates.stay-after-attempt[{oc}]', f'{len(tasks)} attempts started for one proposed parent')
            return
        before = list(dn.attrs['potential_parents']) if isinstance(dn.attrs['potential_parents'], list) else None
        t = tasks[0]
        t.done = True
        if oc == 'failed':
            t.exc = ExcVal(cls(it, 'exceptions', 'PeerConnectionError'), ('no route',))
        elif oc == 'cancelled':
            t.cancelled = True
        try:
            for cb in list(t.callbacks):
                it.call(cb, [t], {})
        except PyRaise as pr:
            ctx.fail(f'C13.candidates.stay-after-attempt[{oc}]', f'the done-callback raised {pr.exc!r}')
            return
        now = dn.attrs['potential_parents']
        now = list(now) if isinstance(now, list) else None
        ok = before is not None and now is not None and len(before) == len(now) and all(a is b for a, b in zip(before, now)) and any(x is cand for x in now)
        ctx.prove(f'C13.candidates.stay-after-attempt[{oc}]', ok,
                  f'after the attempt to reach a proposed parent ended ({oc}) the candidate cache went from {before} to {now}: a candidate that '
                  'drops out is admitted as a child when it connects to us')
    ex.run(callback, 'candidates-stay')

    src, _ = source(src_root)
    ctx = Ctx(ex, [])
    sites, reads = [], 0
    for mod, qn, node in src.functions():
        for sub in ast.walk(node):
            if isinstance(sub, ast.Attribute) and sub.attr == 'potential_parents':
                reads += 1
            what = None
            if isinstance(sub, ast.Delete):
                for tg in sub.targets:
                    base = tg.value if isinstance(tg, ast.Subscript) else tg
                    if isinstance(base, ast.Attribute) and base.attr == 'potential_parents':
                        what = 'del'
            if isinstance(sub, ast.Call) and isinstance(sub.func, ast.Attribute) and isinstance(sub.func.value, ast.Attribute) \
                    and sub.func.value.attr == 'potential_parents' and sub.func.attr in ('remove', 'pop', 'popleft', 'clear', 'discard', 'rotate', 'insert', '__delitem__'):
                what = sub.func.attr
            if isinstance(sub, (ast.Assign, ast.AnnAssign, ast.AugAssign)):
                for tg in (sub.targets if isinstance(sub, ast.Assign) else [sub.target]):
                    if isinstance(tg, ast.Attribute) and tg.attr == 'potential_parents':
                        what = 'rebind'
            if what:
                sites.append((qn.split(':')[-1], what))
    allowed = ('DistributedNetwork.__init__', 'DistributedNetwork._on_potential_parents')
    bad = [s_ for s_ in sites if s_[0] not in allowed]
    ctx.prove('C13.candidates.removers', reads > 0 and not bad,
              f'the cache of proposed parents is shrunk / rebound outside __init__ and _on_potential_parents: {bad} (all sites: {sorted(set(sites))})')


def prove_registered_before_check(src_root, ex: Explorer):
    """_on_peer_connection_initialized: the new peer is among the registered distributed peers BEFORE the child check runs (which suspends
    on the welcome messages): the CLOSED handler finds a peer through that list (C13.closed.cleanup), so a child whose connection breaks
    during the welcome write is only removed again if it was registered first - INV-tree: every child is a registered peer."""
    def path(ctx: Ctx):
        it = mk(src_root, ctx)
        t = Tree(it, ctx, parent=False, n_children=0, extra=False)
        conn = Stub('incoming distributed connection', username=sstr(ctx, 'newcomer'), connection_type='D',
                    state=enum(it, CONN, 'ConnectionState', 'CONNECTED'))
        seen = []

        def check(it2, f, a, k):
            def body(it3):
                peer = a[1]
                seen.append(any(x is peer for x in t.dn.attrs['distributed_peers']))
                # the child is admitted, then the write of the welcome messages fails: the connection is CLOSED when the check returns
                t.dn.attrs['children'].append(peer)
                conn.attrs['state'] = enum(it3, CONN, 'ConnectionState', 'CLOSED')
            return A.SimpleAwaitable(it2.aio, '_check_if_new_child', body)
        it.hooks[f'{DN}:DistributedNetwork._check_if_new_child'] = check
        run(it, it.getattr(t.dn, '_on_peer_connection_initialized'), Stub('event', connection=conn, requested=False))
        ctx.prove('C13.initialized.registered-before-child-check', seen == [True] and t.inv_tree(),
                  f'registered when the child check ran: {seen}; afterwards every child is a registered peer: {t.inv_tree()}')
    ex.run(path, 'registered-before-check')


def prove_peer_lookup(src_root, ex: Explorer):
    """get_distributed_peer(connection): THE peer object of that connection - a user can have several distributed connections (one it
    opened, one we opened), so the lookup must compare the connection, not only the user name; None when there is none."""
    def path(ctx: Ctx):
        it = mk(src_root, ctx)
        case = ['second-of-same-user', 'first-of-same-user', 'unknown-connection', 'no-username'][ctx.choose(4, 'case')]
        name = sstr(ctx, 'user')
        c1 = Stub('connection 1', username=name)
        c2 = Stub('connection 2', username=name)
        c3 = Stub('connection 3', username=name if case != 'no-username' else None)
        other = Stub('connection of somebody else', username=sstr(ctx, 'other'))
        ctx.assume(other.attrs['username'].t != name.t)
        p0 = new(it, DN, 'DistributedPeer', username=other.attrs['username'], connection=other)
        p1 = new(it, DN, 'DistributedPeer', username=name, connection=c1)
        p2 = new(it, DN, 'DistributedPeer', username=name, connection=c2)
        dn = new(it, DN, 'DistributedNetwork', distributed_peers=[p0, p1, p2])
        arg = {'second-of-same-user': c2, 'first-of-same-user': c1}.get(case, c3)
        r = it.call(it.getattr(dn, 'get_distributed_peer'), [arg], {})
        want = {'second-of-same-user': p2, 'first-of-same-user': p1}.get(case)
        ctx.prove(f'C13.peer-lookup[{case}]', r is want, f'returned {r!r}, expected {want!r}')
    ex.run(path, 'peer-lookup')


def prove_reset(src_root, ex: Explorer):
    """reset() (the server told us to leave the tree): it CLOSES the connections of the parent and of every child and leaves the bookkeeping
    to the CLOSED path (C13.closed.cleanup[*]: parent / child removed, server and children told the new position).  If reset() detaches
    parent or children itself, the CLOSED handler no longer recognises the connections and nobody is told."""
    def path(ctx: Ctx):
        it = mk(src_root, ctx)
        has_parent = ctx.choose(2, 'parent') == 1
        n = ctx.choose(3, 'children')
        t = Tree(it, ctx, parent=has_parent, n_children=n)
        before_children = list(t.dn.attrs['children'])
        seen = []

        def on_yield(it2, label):
            # while reset() is suspended (the connections are closing and their CLOSED events are being handled) the tree is intact
            seen.append((t.dn.attrs['parent'] is t.parent, [c for c in t.dn.attrs['children']] == before_children))
        it.aio.on_yield = on_yield
        run(it, it.getattr(t.dn, 'reset'))
        want = ([t.parent.attrs['connection']] if has_parent else []) + [c.attrs['connection'] for c in t.children]
        ctx.prove(f'C13.reset.closes-tree[{tag(has_parent, n)}]', len(t.disconnected) == len(want) and all(any(d is w_ for d in t.disconnected) for w_ in want),
                  'reset() must close the connection of the parent and of every child, and nothing else')
        ctx.prove(f'C13.reset.leaves-bookkeeping-to-closed[{tag(has_parent, n)}]', all(p and c for p, c in seen) and t.dn.attrs['parent'] is t.parent
                  and list(t.dn.attrs['children']) == before_children,
                  'reset() detaches parent / children itself: the CLOSED handler no longer recognises them and server and children are not told')
    ex.run(path, 'reset')


def prove_fanout_relies(src_root, ex: Explorer):
    """the fan-out contract the unbounded children obligations use (send_messages_to_children: an arbitrary child of an arbitrarily long
    list is handed every message, without suspension) - C14.fanout.*, discharged here as well"""
    from contracts import C14
    C14.prove_fanout(src_root, ex)
    for ob in ex.obligations:
        if ob.name.startswith('C14.fanout'):
            ob.name = 'C13.fanout' + ob.name[len('C14.fanout'):]


def items(src_root, tier):
    return [('registered', None), ('reset', None), ('fanout', None), ('peer-lookup', None), ('candidates', None), ('adv', None), ('check_parent', None), ('branch', 'level'), ('branch', 'root'), ('unset', None), ('admit', None),
            ('max_children', None), ('session', None)]


def run_item(src_root, item, tier):
    res = std_result('C13')
    ex = Explorer()
    kind, arg = item
    try:
        if kind == 'candidates':
            prove_candidates(src_root, ex)
            prove_candidates_stay(src_root, ex)
            prove_set_parent_tells_current(src_root, ex)
        elif kind == 'fanout':
            prove_fanout_relies(src_root, ex)
        elif kind == 'reset':
            prove_reset(src_root, ex)
        elif kind == 'peer-lookup':
            prove_peer_lookup(src_root, ex)
        elif kind == 'registered':
            prove_registered_before_check(src_root, ex)
        elif kind == 'adv':
            prove_adv(src_root, ex)
        elif kind == 'check_parent':
            prove_check_new_parent(src_root, ex)
        elif kind == 'branch':
            prove_branch_handlers(src_root, arg, ex)
        elif kind == 'unset':
            prove_unset_parent(src_root, ex)
        elif kind == 'admit':
            prove_admit(src_root, ex)
        elif kind == 'max_children':
            prove_max_children(src_root, ex)
        elif kind == 'session':
            prove_session_initialized(src_root, ex)
    except Unsupported as e:
        res.errors.append(f'{kind}:{arg}: unsupported: {e}')
    collect(res, ex)
    res.bounded.append({'obligations': '*[bounded]', 'bound': 'children lists of length 0..2', 'counted_as_proved': False})
    res.functions.update([f'{DN}:DistributedNetwork.{m}' for m in (
        '_get_advertised_branch_values', 'get_distributed_peer', '_set_parent', '_check_if_new_parent', '_unset_parent',
        '_notify_server_of_parent', '_notify_children_of_branch_values', '_check_if_new_child', '_add_child', '_remove_child',
        '_on_distributed_branch_level', '_on_distributed_branch_root', '_on_get_user_stats', '_calculate_max_children',
        '_on_state_changed', '_on_session_initialized', 'send_messages_to_children')])
    return res
