"""C08 - files are only offered and uploaded to users entitled to them.

Contracts (each executed from the real AST, for all inputs of the stated shape):
  locked      is_directory_locked / is_item_locked / get_shared_directories_for_user against locked(d, u); UsersSettings.is_blocked against
              the flag table (exhaustive over the finite flag domain)
  query       the visible/locked split and the excluded-phrase filter of SharesManager.query (contracts shared with C07)
  replies     create_shares_reply takes visible shares from unlocked directories only; the peer handlers pass the requester and obey the
              SHARES block; create_directory_reply lists no file of a directory locked for the requester (KNOWN FINDING)
  search      _query_shares_and_reply: blocked for SEARCHES => no query, no reply; the requester and the server-excluded phrases reach query
  uploads     PeerTransferQueue / PeerTransferRequest(upload): blocked => one refusal, no transfer looked up or created; _add_upload creates a
              transfer only after get_shared_item(remote_path, requester) succeeded; get_shared_item_cache raises for unknown / locked files
  evaluate    _evaluate_aborted_state against the decision table (exhaustive); manage_shares_changed issues exactly the stated transition"""
from __future__ import annotations
import itertools

import z3

from pyvc.ctx import Ctx, Explorer, Unsupported, PathAbort
from pyvc.values import Sym, Obj, PyRaise, Native, unbox, z3int, z3str, ReturnEx, BreakEx, ContinueEx, EnumMember
from pyvc.symcoll import SymSet
from contracts.common import mk, cls, func, new, run, enum, Recorder, Stub, std_result, collect
from contracts import C07

MGR, SMODEL, TM, TMODEL, PEER, SM, SETTINGS, UMODEL = ('shares.manager', 'shares.model', 'transfer.manager', 'transfer.model', 'peer',
                                                       'search.manager', 'settings', 'user.model')
S, I, B = z3.StringSort(), z3.IntSort(), z3.BoolSort()
MODES = ['EVERYONE', 'FRIENDS', 'USERS']

ASSUMPTIONS = [
    'the assumptions of C07 for the part of query() before the split (term map invariant, regex lemma, A-weak)',
    'INV-owner: an item is held by the items set of the directory it points to (established by scan: C07.scan.owner, and by the moves: '
    'C07.move.item / C07.add.moves-children / C07.remove.moves-items-to-parent)',
    'str.lower is idempotent on already lower-cased text; excluded phrases are compared after lower-casing both sides',
    'cooperative scheduling; the per-cycle post-state of manage_shares_changed is what is proved (C03 gives that abort is defined from '
    'QUEUED, INITIALIZING, UPLOADING, PAUSED and INCOMPLETE and queue from ABORTED)',
]
TRUSTED_BASE = ['pyvc engine', 'z3 (cvc5 second back end)', 'the contracts of C03 (state transitions) and C07 (query prefilter)']
NOT_DECIDED = ['bytes already on the wire when a block arrives (the upload task is cancelled by abort: C06)',
               'whole histories of configuration changes interleaved with negotiations: one management cycle is proved']


def sstr(ctx, name):
    return Sym(ctx.fresh_str(name), 'str')


def locked_formula(mode, user, friends, users):
    if mode == 'FRIENDS':
        return z3.Not(z3.IsMember(user, friends))
    if mode == 'USERS':
        return z3.Not(z3.IsMember(user, users))
    return z3.BoolVal(False)


# ---------------------------------------------------------------------------

def prove_locked(src_root, ex: Explorer):
    def locked(ctx: Ctx):
        it = mk(src_root, ctx)
        mode = MODES[ctx.choose(3, 'mode')]
        friends, users = ctx.fresh_name('friends'), ctx.fresh_name('users')
        F, U = z3.Const(friends, z3.SetSort(S)), z3.Const(users, z3.SetSort(S))
        settings = Stub('settings', users=Stub('users', friends=SymSet(F, S)))
        d = new(it, SMODEL, 'SharedDirectory', share_mode=enum(it, SMODEL, 'DirectoryShareMode', mode), users=SymSet(U, S))
        mgr = new(it, MGR, 'SharesManager', _settings=settings)
        u = ctx.fresh_str('user')
        r = it.truth(it.call(it.getattr(mgr, 'is_directory_locked'), [d, Sym(u, 'str')], {}))
        r = z3.BoolVal(r) if isinstance(r, bool) else r
        ctx.prove(f'C08.locked.directory[{mode}]', r == locked_formula(mode, u, F, U),
                  'a directory is locked for a user iff it is shared with friends and the user is no friend, or with named users and the user is not named')
        item = new(it, SMODEL, 'SharedItem', shared_directory=d, subdir='a', filename='b')
        r2 = it.truth(it.call(it.getattr(mgr, 'is_item_locked'), [item, Sym(u, 'str')], {}))
        r2 = z3.BoolVal(r2) if isinstance(r2, bool) else r2
        ctx.prove(f'C08.locked.item[{mode}]', r2 == locked_formula(mode, u, F, U), 'an item is locked iff the directory that owns it is')
    ex.run(locked, 'locked')

    def for_user(ctx: Ctx):
        """get_shared_directories_for_user: an arbitrary shared directory goes to exactly one list, the locked one iff it is locked"""
        it = mk(src_root, ctx)
        dirs = C07.DirList(ctx)
        mgr = new(it, MGR, 'SharesManager', _shared_directories=dirs)
        lk = ctx.fresh_bool('locked')
        d = Stub('arbitrary shared directory')
        asked = []
        u = sstr(ctx, 'user')
        it.hooks[f'{MGR}:SharesManager.is_directory_locked'] = lambda it2, f, a, k: (asked.append((a[1], a[2])), Sym(lk, 'bool'))[1]
        seen = []

        def loop(it2, node, env):
            src = it2.eval(node.iter, env)
            pub, loc = env.vars.get('public_dirs'), env.vars.get('locked_dirs')
            if pub != [] or loc != [] or src is not dirs:
                ctx.fail('C08.for_user.iterates-directories', 'unexpected loop state')
                raise PathAbort()
            it2.assign(node.target, d, env)
            it2.exec_block(node.body, env)
            seen.append((list(env.vars['public_dirs']), list(env.vars['locked_dirs'])))
            env.vars['public_dirs'], env.vars['locked_dirs'] = ['PUBLIC'], ['LOCKED']
        it.loop_specs[(f'{MGR}:SharesManager.get_shared_directories_for_user', 0)] = loop
        r = it.call(it.getattr(mgr, 'get_shared_directories_for_user'), [u], {})
        ok = len(seen) == 1 and asked == [(d, u)]
        if ok:
            pub, loc = seen[0]
            ok = (pub, loc) == (([], [d]) if ctx.valid(lk) else ([d], []))
        ctx.prove('C08.for_user.split', ok, 'a directory locked for the user must be listed as locked only, any other as public only')
        ctx.prove('C08.for_user.result', r == (['PUBLIC'], ['LOCKED']), 'the result must be (public directories, locked directories)')
    ex.run(for_user, 'for-user')

    def blocked(ctx: Ctx):
        """UsersSettings.is_blocked, exhaustive over the flag domain: blocked iff the user has an entry whose flags share a bit with the asked flag"""
        it = mk(src_root, ctx)
        BF = cls(it, UMODEL, 'BlockingFlag')
        members = [m for m in BF.enum_members]
        bits = [m for m in members if m.value != 0]
        case = ctx.choose(1 + (1 << len(bits)), 'entry')
        asked = bits[ctx.choose(len(bits), 'asked')]
        from pyvc.interp import Interp
        blocked_map = {}
        if case > 0:
            value = 0
            for i, b in enumerate(bits):
                if (case - 1) >> i & 1:
                    value |= b.value
            blocked_map['bob'] = it.enum_from_value(BF, value)
        # UsersSettings is a pydantic model: the method is taken from the AST and run on an object that has just the `blocked` field
        from pyvc.values import PyFunc
        mod, qn, node = [(m, q, n) for m, q, n in it.source.functions() if m.name.endswith('settings') and q == 'UsersSettings.is_blocked'][0]
        f = PyFunc(node, mod, qn)
        us = Stub('UsersSettings', blocked=blocked_map, friends=set())
        r = it.truth(it.call(f, [us, 'bob', asked], {}))
        want = case > 0 and bool(unbox_flag(blocked_map['bob']) & asked.value)
        ctx.prove('C08.is_blocked.table', r is want or r == want, f'is_blocked(bob, {asked.name}) with entry {blocked_map} gives {r}')
        r2 = it.truth(it.call(f, [us, 'alice', asked], {}))
        ctx.prove('C08.is_blocked.other-user', r2 is False, 'a user without an entry is not blocked')
    ex.run(blocked, 'is-blocked')


def unbox_flag(v):
    if isinstance(v, EnumMember):
        return v.value
    return unbox(v)


# ---------------------------------------------------------------------------

class Phrases:
    """the list of server-excluded phrases (abstract: any length, any letter case)"""

    def __init__(self, ctx):
        self.term = z3.Const('excluded_phrases', z3.SetSort(S))

    def pyvc_truth(self, it):
        return self.term != z3.EmptySet(S)

    def pyvc_iter(self, it, loop):
        raise Unsupported('iteration over the excluded phrases without a contract')


def prove_query(src_root, ex: Explorer):
    focuses = ['excluded', 'filter', 'split', None]

    def path(ctx: Ctx):
        focus = focuses[ctx.choose(len(focuses), 'contract')]
        it, w, tm, mgr, q = C07.make_query_world(src_root, ctx)
        C07.install_set_natives(it, ctx)
        it.hooks[f'{C07.SMODEL}:SearchQuery.matchers_iter'] = lambda it2, f, a, k: C07.Matchers()
        LOCKED = z3.Function('locked_for_user', I, B)
        user = ctx.fresh_str('user')
        ctx.assume(z3.Length(user) > 0)
        asked = []

        def is_item_locked(it2, f, a, k):
            asked.append(a[2])
            return Sym(LOCKED(a[1].pyvc_term), 'bool')
        it.hooks[f'{MGR}:SharesManager.is_item_locked'] = is_item_locked
        phrases = Phrases(ctx)
        state = C07.install_query_contracts(it, ctx, w, tm, focus, phrases=phrases, locked_pred=lambda x: LOCKED(x), prop='C08')
        try:
            r = it.call(it.getattr(mgr, 'query'), [q], {'username': Sym(user, 'str'), 'excluded_search_phrases': phrases})
        except PyRaise as pr:
            ctx.fail('C08.query.no-raise', f'query raises {pr.exc!r}')
            return
        if focus is not None or C07._is_empty_pair(r):
            return
        vis, lck = r
        if not isinstance(vis, C07.ResultList) or not isinstance(lck, C07.ResultList):
            ctx.fail('C08.query.split', f'unexpected result {r!r}')
            return
        x = ctx.fresh_int('x')
        ph = ctx.fresh_str('phrase')
        ctx.prove('C08.query.vacuity-guard', ctx.consistent(), use_lemmas=False)
        ctx.prove('C08.query.split.asks-for-user', all(z3.eq(z3str(unbox(a)), user) for a in asked) or not asked, use_lemmas=False)
        ctx.prove('C08.query.visible-not-locked', z3.Implies(z3.IsMember(x, vis.term), z3.And(z3.Not(LOCKED(x)), z3.IsMember(x, w.LIVE), w.allmatch(x))),
                  'an item that is locked for the user is returned as a normal (downloadable) result')
        ctx.prove('C08.query.locked-are-locked', z3.Implies(z3.IsMember(x, lck.term), z3.And(LOCKED(x), z3.IsMember(x, w.LIVE), w.allmatch(x))),
                  'the locked results contain an item that is not locked or does not match')
        ctx.prove('C08.query.excluded', z3.Implies(z3.And(z3.Or(z3.IsMember(x, vis.term), z3.IsMember(x, lck.term)), z3.IsMember(ph, phrases.term)),
                                                   z3.Not(z3.Contains(C07.LOWER(w.QP(x)), C07.LOWER(ph)))),
                  'a result contains a server-excluded phrase (compared case-insensitively)')
    ex.run(path, 'query-split')


# ---------------------------------------------------------------------------

def prove_replies(src_root, ex: Explorer):
    def shares_reply(ctx: Ctx):
        """create_shares_reply(u): the first list is built from the directories that are not locked for u, the second from the locked ones"""
        it = mk(src_root, ctx)
        mgr = new(it, MGR, 'SharesManager')
        u = sstr(ctx, 'user')
        asked = []

        class DL:
            def __init__(self, tag):
                self.tag = tag

            def pyvc_iter(self, it2, loop):
                raise Unsupported('dirs')

            def pyvc_binop(self, it2, op, other, reflected):
                if isinstance(other, DL):
                    return DL(other.tag + '+' + self.tag if reflected else self.tag + '+' + other.tag)
                return NotImplemented
        vis, lck = DL('visible'), DL('locked')
        it.hooks[f'{MGR}:SharesManager.get_shared_directories_for_user'] = lambda it2, f, a, k: (asked.append(a[1]), (vis, lck))[1]
        it.hooks['shares.utils:convert_items_to_file_data'] = lambda it2, f, a, k: ('filedata', list(a[0]), k.get('use_full_path'))
        LU = f'{MGR}:SharesManager.create_shares_reply.<locals>.list_unique_directories'

        def loop(it2, node, env):
            src = it2.eval(node.iter, env)
            if not isinstance(src, DL):
                raise Unsupported('list_unique_directories: iteration space')
            env.vars['response_dirs'][('from', src.tag)] = [src.tag + '-item']
        it.loop_specs[(LU, 0)] = loop
        r = it.call(it.getattr(mgr, 'create_shares_reply'), [u], {})

        def names(lst):
            return [(d.attrs['name'], d.attrs['files']) for d in lst] if isinstance(lst, list) and all(isinstance(d, Obj) for d in lst) else None
        ok = isinstance(r, tuple) and len(r) == 2 and asked == [u]
        ctx.prove('C08.shares_reply.split', ok and names(r[0]) == [('from\\visible', ('filedata', ['visible-item'], False))]
                  and names(r[1]) == [('from\\locked', ('filedata', ['locked-item'], False))],
                  'the normal list of a shares reply must be built from the directories that are NOT locked for the requester, the locked list from the locked ones')
    ex.run(shares_reply, 'shares-reply')

    def unique_dirs(ctx: Ctx):
        """list_unique_directories, one arbitrary item of one arbitrary directory: the item is listed under its own remote directory and every
        prefix of that directory exists as an entry; nothing else is added"""
        it = mk(src_root, ctx)
        mgr = new(it, MGR, 'SharesManager')
        LU = f'{MGR}:SharesManager.create_shares_reply.<locals>.list_unique_directories'
        parts = ('@@abcde', 'Music', 'Metal')
        item = Stub('item', get_remote_directory_path_parts=Recorder('parts', ret=parts))
        other = Stub('other item')
        prepop = ctx.choose(2, 'prepopulated') == 1

        class Items:
            def pyvc_iter(self, it2, loop):
                raise Unsupported('items')
        d = Stub('dir', items=Items())

        class DL:
            def pyvc_iter(self, it2, loop):
                raise Unsupported('dirs')
        dl = DL()
        it.hooks[f'{MGR}:SharesManager.get_shared_directories_for_user'] = lambda it2, f, a, k: (dl, [])
        it.hooks['shares.utils:convert_items_to_file_data'] = lambda it2, f, a, k: list(a[0])
        out = {}

        def outer(it2, node, env):
            if it2.eval(node.iter, env) is not dl:
                env.vars['response_dirs'].clear()
                return
            it2.assign(node.target, d, env)
            it2.exec_block(node.body, env)

        def inner(it2, node, env):
            src = it2.eval(node.iter, env)
            rd = env.lookup('response_dirs')
            if prepop:
                rd[parts[:2]] = [other]
            it2.assign(node.target, item, env)
            it2.exec_block(node.body, env)
            out['src'] = src
            out['dirs'] = {k: list(v) for k, v in rd.items()}
        it.loop_specs[(LU, 0)] = outer
        it.loop_specs[(LU, 1)] = inner
        it.call(it.getattr(mgr, 'create_shares_reply'), ['u'], {})
        want = {parts[:1]: [], parts[:2]: [other] if prepop else [], parts: [item]}
        ctx.prove('C08.shares_reply.item-placement', out.get('src') is d.attrs['items'] and out.get('dirs') == want,
                  f'an item must be listed under its own remote directory only (got {out.get("dirs")})')
    ex.run(unique_dirs, 'unique-dirs')

    def peer_handlers(ctx: Ctx):
        """PeerManager: a user blocked for SHARES gets no answer; otherwise the reply is built for the REQUESTING user"""
        it = mk(src_root, ctx)
        which = ctx.choose(2, 'handler')
        blocked = ctx.fresh_bool('blocked')
        u = sstr(ctx, 'user')
        ctx.assume(z3.Length(u.t) > 0)
        calls, sent, block_calls = [], [], []
        BF = cls(it, UMODEL, 'BlockingFlag')
        settings = Stub('settings', users=Stub('users', is_blocked=Recorder('is_blocked', fn=lambda it2, a, k: (block_calls.append(a), Sym(blocked, 'bool'))[1])))
        shares = Stub('shares', create_shares_reply=Recorder('csr', fn=lambda it2, a, k: (calls.append(('shares', a, k)), ('VIS', 'LCK'))[1]),
                      create_directory_reply=Recorder('cdr', fn=lambda it2, a, k: (calls.append(('directory', a, k)), 'DIRS')[1]))
        conn = Stub('connection', username=u, send_message=Recorder('send', fn=lambda it2, a, k: sent.append(a[0]), is_async=True))
        pm = new(it, PEER, 'PeerManager', _settings=settings, _shares_manager=shares)
        if which == 0:
            msg = Stub('PeerSharesRequest')
            run(it, it.getattr(pm, '_on_peer_shares_request'), msg, conn)
        else:
            msg = Stub('PeerDirectoryContentsRequest', directory='@@abcde\\Music', ticket=7)
            run(it, it.getattr(pm, '_on_peer_directory_contents_req'), msg, conn)
        name = ['shares', 'directory'][which]
        flag_ok = len(block_calls) == 1 and block_calls[0][0] is u and isinstance(block_calls[0][1], EnumMember) and block_calls[0][1].name == 'SHARES'
        ctx.prove(f'C08.peer.{name}.block-asked', flag_ok, 'the SHARES block of the requesting user must be consulted')
        if ctx.valid(blocked):
            ctx.prove(f'C08.peer.{name}.blocked-gets-nothing', not calls and not sent, 'a user blocked for shares gets a reply')
            return
        if which == 0:
            ok = len(calls) == 1 and calls[0][1] == [u] and len(sent) == 1 and sent[0].attrs.get('directories') == 'VIS' and sent[0].attrs.get('locked_directories') == 'LCK'
            ctx.prove('C08.peer.shares.reply-for-requester', ok, 'the shares reply must be built for the requesting user, visible and locked lists not swapped')
        else:
            ok = len(calls) == 1 and calls[0][1][0] == '@@abcde\\Music' and len(sent) == 1 and sent[0].attrs.get('directories') == 'DIRS'
            ctx.prove('C08.peer.directory.reply', ok)
    ex.run(peer_handlers, 'peer-handlers')

    def directory_reply(ctx: Ctx):
        """create_directory_reply for a requester: an arbitrary shared directory that is LOCKED for the requester contributes no file.
        (The requester is handed over as `username` when the function accepts it.)"""
        it = mk(src_root, ctx)
        dirs = C07.DirList(ctx)
        mgr = new(it, MGR, 'SharesManager', _shared_directories=dirs)
        u = sstr(ctx, 'user')
        locked = ctx.choose(2, 'locked-for-requester') == 1
        it.hooks[f'{MGR}:SharesManager.is_directory_locked'] = lambda it2, f, a, k: locked
        it.hooks[f'{MGR}:SharesManager.is_item_locked'] = lambda it2, f, a, k: locked
        it.hooks['shares.utils:convert_items_to_file_data'] = lambda it2, f, a, k: ('filedata', list(a[0]))
        remote = '@@abcde\\Music'
        item = Stub('item', get_remote_directory_path=Recorder('p', ret=remote), get_remote_directory_path_parts=Recorder('pp', ret=('@@abcde', 'Music')))

        class Items:
            def pyvc_iter(self, it2, loop):
                return [item]
        d = Stub('dir', items=Items())
        CDR = f'{MGR}:SharesManager.create_directory_reply'

        def outer(it2, node, env):
            it2.assign(node.target, d, env)
            try:
                it2.exec_block(node.body, env)
            except ContinueEx:
                pass
        it.loop_specs[(CDR, 0)] = outer
        f = it.class_attr(cls(it, MGR, 'SharesManager'), 'create_directory_reply')
        params = [a.arg for a in f.node.args.args + f.node.args.kwonlyargs]
        kwargs = {'username': u} if 'username' in params else {}
        r = it.call(it.getattr(mgr, 'create_directory_reply'), [remote], kwargs)
        files = [d2.attrs['files'] for d2 in r] if isinstance(r, list) else None
        if locked:
            ctx.prove('C08.directory_reply.locked', files is not None and all(fl == ('filedata', []) for fl in files),
                      'the files of a directory that is locked for the requester are listed in a directory reply (as normal, downloadable entries)')
        else:
            ctx.prove('C08.directory_reply.unlocked', files == [('filedata', [item])], 'the files of the requested directory must be listed')
    ex.run(directory_reply, 'directory-reply')


# ---------------------------------------------------------------------------

def prove_search_gate(src_root, ex: Explorer):
    from contracts import C14

    def path(ctx: Ctx):
        it = mk(src_root, ctx)
        w = C14.mk_search_manager(it, ctx)
        phrases = ['Excluded', 'phrase']
        w['mgr'].attrs['excluded_search_phrases'] = phrases
        asker, query, ticket = sstr(ctx, 'asker'), sstr(ctx, 'query'), Sym(ctx.fresh_int('ticket'), 'int')
        run(it, it.getattr(w['mgr'], '_query_shares_and_reply'), ticket, asker, query)
        bc = w['block_calls']
        ctx.prove('C08.search.block-asked', len(bc) == 1 and bc[0][0] is asker and isinstance(bc[0][1], EnumMember) and bc[0][1].name == 'SEARCHES',
                  'the SEARCHES block of the asking user must be consulted')
        if ctx.valid(w['blocked']):
            ctx.prove('C08.search.blocked-gets-nothing', not it.aio.tasks and not w['queries'] and not w['net'].attrs['send_peer_messages'].calls,
                      'a user blocked for searches gets a reply')
            return
        qs = w['queries']
        ctx.prove('C08.search.query-for-asker', len(qs) == 1 and qs[0][1].get('username') is asker and qs[0][1].get('excluded_search_phrases') is phrases,
                  'the shares must be queried for the asking user with the server-excluded phrases')
        calls = w['net'].attrs['send_peer_messages'].calls
        if calls:
            m = calls[0][0][1]
            ctx.prove('C08.search.reply-split', m.attrs['results'] == ('filedata', w['visible']) and m.attrs['locked_results'] == ('filedata', w['locked'])
                      and calls[0][0][0] is asker, 'visible results must go to `results`, locked ones to `locked_results`, sent to the asker')
    ex.run(path, 'search-gate')


# ---------------------------------------------------------------------------

def mk_transfer_manager(it, ctx, *, blocked):
    from pyvc.values import Opaque
    it.natives['collections.deque'] = Native('deque', lambda it2, a, k: Opaque('deque'))
    u = sstr(ctx, 'user')
    ctx.assume(z3.Length(u.t) > 0)            # an initialised connection (handlers ignore the others)
    log = []
    block_calls = []
    settings = Stub('settings', users=Stub('users', is_blocked=Recorder('is_blocked', fn=lambda it2, a, k: (block_calls.append(a), blocked)[1])))
    queued = []
    conn = Stub('connection', username=u, queue_message=Recorder('queue_message', fn=lambda it2, a, k: queued.append(a[0])),
                send_message=Recorder('send_message', fn=lambda it2, a, k: queued.append(a[0]), is_async=True))
    shares = Stub('shares')
    mgr = new(it, TM, 'TransferManager', _settings=settings, _shares_manager=shares, _transfers=[])
    return dict(mgr=mgr, user=u, log=log, block_calls=block_calls, conn=conn, queued=queued, shares=shares)


def prove_upload_gate(src_root, ex: Explorer):
    def gate(ctx: Ctx):
        """PeerTransferQueue / PeerTransferRequest(direction=upload) from a user blocked for UPLOADS: exactly one refusal, nothing looked up,
        nothing created; from another user whose file is not shared (unknown or locked): refusal, no transfer queued"""
        it = mk(src_root, ctx)
        which = ctx.choose(2, 'message')
        blocked = ctx.choose(2, 'blocked') == 1
        w = mk_transfer_manager(it, ctx, blocked=blocked)
        exc = ['FileNotFoundError', 'FileNotSharedError', None][ctx.choose(3, 'add_upload')] if not blocked else None
        calls = []
        tstate = Stub('state', queue=Recorder('queue', fn=lambda it2, a, k: calls.append('state.queue'), is_async=True))
        transfer = Stub('transfer', state=tstate)

        def add_upload(it2, f, a, k):
            calls.append(('add_upload', a[1], a[2]))

            def body(it3):
                if exc:
                    it3.throw(cls(it3, 'exceptions', exc), 'nope')
                return transfer
            from pyvc import aio as A
            return A.SimpleAwaitable(it2.aio, 'add_upload', body)
        it.hooks[f'{TM}:TransferManager._add_upload'] = add_upload
        it.hooks[f'{TM}:TransferManager.find_transfer'] = lambda it2, f, a, k: (calls.append(('find', a[1], a[2])), None)[1]
        fn = sstr(ctx, 'filename')
        name = ['queue', 'request'][which]
        try:
            if which == 0:
                msg = Stub('PeerTransferQueue', filename=fn)
                run(it, it.getattr(w['mgr'], '_on_peer_transfer_queue'), msg, w['conn'])
            else:
                up = enum(it, TMODEL, 'TransferDirection', 'UPLOAD')
                msg = Stub('PeerTransferRequest', filename=fn, ticket=5, direction=up.value, filesize=None)
                run(it, it.getattr(w['mgr'], '_on_peer_transfer_request'), msg, w['conn'])
        except PyRaise as pr:
            ctx.fail(f'C08.upload.{name}.no-raise', f'the handler raises {pr.exc!r} (blocked={blocked}, _add_upload raises {exc})')
            return
        bc = w['block_calls']
        ctx.prove(f'C08.upload.{name}.block-asked', len(bc) >= 1 and all(b[0] is w['user'] and isinstance(b[1], EnumMember) and b[1].name == 'UPLOADS' for b in bc),
                  'the UPLOADS block of the requesting user must be consulted')
        q = w['queued']
        refused = len(q) == 1 and ((q[0].cls.qual == 'PeerTransferQueueFailed.Request' and q[0].attrs['filename'] is fn) if which == 0 else
                                   (q[0].cls.qual == 'PeerTransferReply.Request' and q[0].attrs['allowed'] is False and q[0].attrs['ticket'] == 5))
        if blocked:
            ctx.prove(f'C08.upload.{name}.blocked-refused', refused and not calls and not w['mgr'].attrs['_transfers'],
                      'a user blocked for uploads must get one refusal; no transfer may be looked up, created or queued')
        elif exc:
            ctx.prove(f'C08.upload.{name}.unshared-refused[{exc}]', refused and 'state.queue' not in calls and ('add_upload', w['user'], fn) in calls
                      and q[0].attrs['reason'] == 'File not shared.',
                      'a request for a file that is unknown or locked for the requester must be refused and nothing queued')
        else:
            ctx.prove(f'C08.upload.{name}.entitled-queued', calls.count('state.queue') == 1 and ('add_upload', w['user'], fn) in calls,
                      'an entitled request must create (through _add_upload, for the requesting user) and queue the upload')
    ex.run(gate, 'upload-gate')

    def existing(ctx: Ctx):
        """a repeated PeerTransferQueue / PeerTransferRequest for an upload that is ALREADY in the list: whether the file is (still) shared
        must be asked for the requesting user - friends, named users and share modes may have changed since the upload was added; when
        it is no longer shared with that user the upload fails and the request is refused, it is never queued again"""
        it = mk(src_root, ctx)
        which = ctx.choose(2, 'message')
        shared = ctx.choose(2, 'shared-with-user') == 1
        sname = ['FAILED', 'COMPLETE', 'QUEUED', 'ABORTED'][ctx.choose(4, 'state')]
        w = mk_transfer_manager(it, ctx, blocked=False)
        calls, asked = [], []
        st = Stub('state', VALUE=enum(it, 'transfer.state', 'TransferState.State', sname),
                  queue=Recorder('queue', fn=lambda it2, a, k: calls.append('queue'), is_async=True),
                  fail=Recorder('fail', fn=lambda it2, a, k: calls.append('fail'), is_async=True))
        t = Stub('upload', state=st)
        it.hooks[f'{TM}:TransferManager.find_transfer'] = lambda it2, f, a, k: t

        def find_shared_item(it2, a, k):
            asked.append(list(a) + list(k.values()))
            return Stub('item') if shared else None
        w['shares'].attrs['find_shared_item'] = Recorder('find_shared_item', fn=find_shared_item, is_async=True)
        fn = sstr(ctx, 'filename')
        name = ['queue', 'request'][which]
        if which == 0:
            run(it, it.getattr(w['mgr'], '_on_peer_transfer_queue'), Stub('PeerTransferQueue', filename=fn), w['conn'])
        else:
            up = enum(it, TMODEL, 'TransferDirection', 'UPLOAD')
            run(it, it.getattr(w['mgr'], '_on_peer_transfer_request'), Stub('PeerTransferRequest', filename=fn, ticket=5, direction=up.value, filesize=None), w['conn'])
        ctx.prove(f'C08.upload.{name}.existing-asks-for-user', len(asked) == 1 and asked[0][0] is fn and any(x is w['user'] for x in asked[0][1:]),
                  'whether the file of an existing upload is shared must be asked for the REQUESTING user (entitlements change after the upload was added)')
        if not shared:
            ctx.prove(f'C08.upload.{name}.existing-unentitled[{sname}]', 'queue' not in calls and 'fail' in calls and
                      any(m.attrs.get('reason') == 'File not shared.' for m in w['queued']),
                      'an existing upload whose file is no longer shared with the user must fail and be refused, never queued again')
    ex.run(existing, 'existing-upload')

    def add_upload(ctx: Ctx):
        """_add_upload(user, path): the transfer exists only after get_shared_item(path, user) returned (it raises for unknown, vanished and
        locked files); it is an upload for that user and path with the item's local path"""
        it = mk(src_root, ctx)
        w = mk_transfer_manager(it, ctx, blocked=False)
        exc = ['FileNotFoundError', 'FileNotSharedError', None][ctx.choose(3, 'get_shared_item')]
        asked, added = [], []
        item = Stub('item', get_absolute_path=Recorder('abs', ret='/music/a.mp3'))

        def get_shared_item(it2, a, k):
            asked.append((a, k))
            if exc:
                it2.throw(cls(it2, 'exceptions', exc), 'nope')
            return item
        w['shares'].attrs['get_shared_item'] = Recorder('get_shared_item', fn=get_shared_item, is_async=True)
        w['shares'].attrs['get_filesize'] = Recorder('get_filesize', ret=42, is_async=True)

        def add(it2, f, a, k):
            added.append(a[1])
            from pyvc import aio as A
            return A.SimpleAwaitable(it2.aio, 'add', lambda it3: a[1])
        it.hooks[f'{TM}:TransferManager.add'] = add
        fn = sstr(ctx, 'remote_path')
        try:
            t = run(it, it.getattr(w['mgr'], '_add_upload'), w['user'], fn)
        except PyRaise as pr:
            ctx.prove('C08.add_upload.raises-unshared', exc is not None and pr.exc.cls.name == exc and not added,
                      'an upload must not be created when the file is not shared with the user')
            return
        args = asked[0][0] + list(asked[0][1].values()) if len(asked) == 1 else []
        ctx.prove('C08.add_upload.entitled', exc is None and len(asked) == 1 and args[0] is fn and w['user'] in args[1:] and added == [t]
                  and t.attrs['username'] is w['user'] and t.attrs['remote_path'] is fn and t.attrs['local_path'] == '/music/a.mp3'
                  and t.attrs['direction'].name == 'UPLOAD' and t.attrs['filesize'] == 42,
                  'the shared item must be looked up for the REQUESTING user before the upload is created')
    ex.run(add_upload, 'add-upload')

    def item_cache(ctx: Ctx):
        """get_shared_item_cache(path, user), one arbitrary shared directory: an item of that directory with this remote path is returned iff it
        is not locked for the user (FileNotSharedError otherwise); when no directory has it: FileNotFoundError"""
        it = mk(src_root, ctx)
        dirs = C07.DirList(ctx)
        mgr = new(it, MGR, 'SharesManager', _shared_directories=dirs)
        found = ctx.choose(2, 'found-here') == 1
        locked = ctx.choose(2, 'locked') == 1 if found else False
        with_user = ctx.choose(2, 'with-user') == 1
        u = sstr(ctx, 'user')
        ctx.assume(z3.Length(u.t) > 0)
        item = Stub('item')
        asked = []

        def get_item(it2, a, k):
            asked.append(a[0])
            if not found:
                it2.throw(cls(it2, 'exceptions', 'FileNotFoundError'), 'no')
            return item
        d = Stub('dir', get_item_by_remote_path=Recorder('gibrp', fn=get_item))
        lock_calls = []
        it.hooks[f'{MGR}:SharesManager.is_item_locked'] = lambda it2, f, a, k: (lock_calls.append((a[1], a[2])), locked)[1]
        outcome = {}

        def loop(it2, node, env):
            if it2.eval(node.iter, env) is not dirs:
                raise Unsupported('iteration space')
            it2.assign(node.target, d, env)
            try:
                it2.exec_block(node.body, env)
            except ContinueEx:
                pass
            outcome['next'] = True
            it2.exec_block(node.orelse, env)            # no (further) directory has the path
        it.loop_specs[(f'{MGR}:SharesManager.get_shared_item_cache', 0)] = loop
        path = sstr(ctx, 'remote_path')
        try:
            r = it.call(it.getattr(mgr, 'get_shared_item_cache'), [path], {'username': u} if with_user else {})
        except PyRaise as pr:
            want = 'FileNotSharedError' if (found and locked and with_user) else 'FileNotFoundError' if not found else None
            ctx.prove('C08.item_cache.raises', pr.exc.cls.name == want and asked == [path],
                      f'raises {pr.exc.cls.name}, expected {want}')
            return
        ctx.prove('C08.item_cache.returns-entitled', r is item and found and not (locked and with_user) and asked == [path]
                  and (lock_calls == [(item, u)] if with_user else not lock_calls),
                  'an item that is locked for the given user must not be returned')
    ex.run(item_cache, 'item-cache')

    def get_item(ctx: Ctx):
        """get_shared_item = get_shared_item_cache (same arguments, exceptions pass) + the file must exist; find_* map the two errors to None"""
        it = mk(src_root, ctx)
        exc = ['FileNotFoundError', 'FileNotSharedError', None][ctx.choose(3, 'cache')]
        exists = ctx.choose(2, 'exists') == 1
        which = ctx.choose(3, 'function')
        item = Stub('item', get_absolute_path=Recorder('abs', ret='/music/a.mp3'))
        asked = []

        def cache(it2, f, a, k):
            asked.append((a[1], k.get('username', a[2] if len(a) > 2 else None)))
            if exc:
                it2.throw(cls(it2, 'exceptions', exc), 'nope')
            return item
        it.hooks[f'{MGR}:SharesManager.get_shared_item_cache'] = cache
        it.natives['aiofiles.os.path.exists'] = Native('exists', lambda it2, a, k: __import__('pyvc.aio', fromlist=['x']).SimpleAwaitable(it2.aio, 'exists', lambda it3: exists))
        mgr = new(it, MGR, 'SharesManager')
        p, u = sstr(ctx, 'remote_path'), sstr(ctx, 'user')
        name = ['get_shared_item', 'find_shared_item', 'find_shared_item_cache'][which]
        try:
            r = run(it, it.getattr(mgr, name), p, u) if which < 2 else it.call(it.getattr(mgr, name), [p, u], {})
        except PyRaise as pr:
            want = exc or ('FileNotFoundError' if not exists else None)
            ctx.prove(f'C08.{name}.raises', which == 0 and pr.exc.cls.name == want, f'raises {pr.exc.cls.name}')
            return
        entitled = exc is None and (exists or which == 2)
        ctx.prove(f'C08.{name}.result', asked == [(p, u)] and (r is item if entitled else (r is None and which != 0)),
                  'the item may only be returned when it is shared with the user (and exists on disk)')
    ex.run(get_item, 'get-item')


# ---------------------------------------------------------------------------

STATES = ['VIRGIN', 'QUEUED', 'INITIALIZING', 'INCOMPLETE', 'COMPLETE', 'UPLOADING', 'DOWNLOADING', 'FAILED', 'ABORTED', 'PAUSED']
REASONS = [None, 'Requested', 'Blocked', 'File not shared']


def expected_reason(abort_reason, blocked, shared):
    if abort_reason == 'Requested':
        return 'Requested'
    if blocked:
        return 'Blocked'
    if not shared:
        return 'File not shared'
    return None


def prove_evaluate(src_root, ex: Explorer):
    def table(ctx: Ctx):
        """_evaluate_aborted_state, exhaustive: reason = Requested if the user asked for the abort, else Blocked if the user is blocked for
        uploads, else File not shared if the file is not shared with the user, else None; change needed iff (state is ABORTED) != (reason set)"""
        it = mk(src_root, ctx)
        sname = STATES[ctx.choose(len(STATES), 'state')]
        ar = REASONS[ctx.choose(len(REASONS), 'abort_reason')]
        blocked = ctx.choose(2, 'blocked') == 1
        shared = ctx.choose(2, 'shared') == 1
        asked = []
        settings = Stub('settings', users=Stub('users', is_blocked=Recorder('is_blocked', fn=lambda it2, a, k: (asked.append(('blocked', a)), blocked)[1])))
        shares = Stub('shares', find_shared_item_cache=Recorder('find', fn=lambda it2, a, k: (asked.append(('shared', a, k)), Stub('item') if shared else None)[1]))
        mgr = new(it, TM, 'TransferManager', _settings=settings, _shares_manager=shares)
        st = Stub('state', VALUE=enum(it, 'transfer.state', 'TransferState.State', sname))
        t = new(it, TMODEL, 'Transfer', username='bob', remote_path='@@a\\f.mp3', abort_reason=ar, state=st)
        r = it.call(it.getattr(mgr, '_evaluate_aborted_state'), [t], {})
        want_reason = expected_reason(ar, blocked, shared)
        want_change = (sname == 'ABORTED') != (want_reason is not None)
        ok = isinstance(r, tuple) and len(r) == 2 and it.truth(r[0]) is want_change and r[1] == want_reason
        ctx.prove('C08.evaluate.table', ok, f'state {sname}, abort_reason {ar!r}, blocked {blocked}, shared {shared}: got {r!r}, expected {(want_change, want_reason)!r}')
        for a in asked:
            if a[0] == 'blocked':
                ctx.prove('C08.evaluate.asks-upload-block', a[1][0] == 'bob' and isinstance(a[1][1], EnumMember) and a[1][1].name == 'UPLOADS')
            else:
                args = list(a[1]) + list(a[2].values())
                ctx.prove('C08.evaluate.asks-share-for-user', args[0] == '@@a\\f.mp3' and 'bob' in args[1:],
                          'whether the file is shared must be asked for the user of the upload')
    ex.run(table, 'evaluate-table')

    def cycle(ctx: Ctx):
        """manage_shares_changed, one arbitrary transfer: only unfinished uploads are considered; ABORTED and reason None -> queue();
        not ABORTED and reason set -> abort(reason); otherwise no transition, but a changed reason is recorded"""
        it = mk(src_root, ctx)
        sname = STATES[ctx.choose(len(STATES), 'state')]
        upload = ctx.choose(2, 'upload') == 1
        reason = REASONS[ctx.choose(len(REASONS), 'reason')]
        calls = []
        st = Stub('state', VALUE=enum(it, 'transfer.state', 'TransferState.State', sname),
                  queue=Recorder('queue', fn=lambda it2, a, k: calls.append(('queue',)), is_async=True, yields=False),
                  abort=Recorder('abort', fn=lambda it2, a, k: calls.append(('abort', k.get('reason', a[0] if a else None))), is_async=True, yields=False))
        t = new(it, TMODEL, 'Transfer', username='bob', remote_path='f', abort_reason='old', state=st,
                direction=enum(it, TMODEL, 'TransferDirection', 'UPLOAD' if upload else 'DOWNLOAD'))
        aborted = sname == 'ABORTED'
        change = aborted != (reason is not None)
        evaluated = []
        # a second upload, evaluated AFTER the first one, that must be aborted for ANOTHER reason: every abort carries the reason of its own
        # upload (a reason applied to the wrong upload makes a blocked upload look user-aborted, which is never queued again)
        calls2 = []
        st2 = Stub('state', VALUE=enum(it, 'transfer.state', 'TransferState.State', 'QUEUED'),
                   queue=Recorder('queue', fn=lambda it2, a, k: calls2.append(('queue',)), is_async=True, yields=False),
                   abort=Recorder('abort', fn=lambda it2, a, k: calls2.append(('abort', k.get('reason', a[0] if a else None))), is_async=True, yields=False))
        t2 = new(it, TMODEL, 'Transfer', username='eve', remote_path='g', abort_reason=None, state=st2, direction=enum(it, TMODEL, 'TransferDirection', 'UPLOAD'))
        it.hooks[f'{TM}:TransferManager._evaluate_aborted_state'] = lambda it2, f, a, k: \
            (True, 'reason of the second upload') if a[1] is t2 else (evaluated.append(a[1]), (change, reason))[1]
        mgr = new(it, TM, 'TransferManager', _transfers=[t, t2])
        it.natives['builtins.filter'] = Native('builtins.filter', lambda it2, a, k: [x for x in it2.iterate(a[1]) if it2.truth(it2.call(a[0], [x], {})) is True])
        run(it, it.getattr(mgr, 'manage_shares_changed'))
        considered = upload and sname not in ('COMPLETE', 'FAILED')
        if not considered:
            ctx.prove('C08.cycle.ignores-others', not calls and not evaluated and t.attrs['abort_reason'] == 'old',
                      'downloads and finished uploads must be left alone')
            return
        if change and aborted:
            want = [('queue',)]
        elif change:
            want = [('abort', reason)]
        else:
            want = []
        ctx.prove('C08.cycle.transition', calls == want and evaluated == [t], f'state {sname}, reason {reason!r}: issued {calls}, expected {want}')
        ctx.prove('C08.cycle.own-reason', calls2 == [('abort', 'reason of the second upload')],
                  f'the second upload must be aborted once, for ITS reason: {calls2}')
        if not change and reason:
            ctx.prove('C08.cycle.records-reason', t.attrs['abort_reason'] == reason)
    ex.run(cycle, 'cycle')


# ---------------------------------------------------------------------------
# configuration changes reach the management cycle

def prove_requeue_clears_reason(src_root, ex: Explorer):
    """An upload that is queued again (by its owner, or by the re-evaluation) is a fresh upload for the re-evaluation: its abort reason is
    cleared by queue() - a stale 'Requested' would make a later block look like a user's abort, which is never queued again"""
    from contracts import C03

    def path(ctx: Ctx):
        it = mk(src_root, ctx)
        effects: list = []
        C03.install_env(it, ctx, effects)
        direction = ['UPLOAD', 'DOWNLOAD'][ctx.choose(2, 'direction')]
        t, lock = C03.mk_transfer(it, ctx, direction, [])
        st = it.call(cls(it, 'transfer.state', 'AbortedState'), [t], {})
        t.attrs['state'] = st
        t.attrs['abort_reason'] = 'Requested'
        lock.locked = True
        r = run(it, it.getattr(st, 'queue'))
        ctx.prove(f'C08.requeue.clears-abort-reason[{direction.lower()}]', it.truth(r) is True and t.attrs['abort_reason'] is None,
                  f'ABORTED -> QUEUED keeps abort_reason={t.attrs["abort_reason"]!r}')
    ex.run(path, 'requeue-clears-reason')


def prove_changes(src_root, ex: Explorer):
    def update(ctx: Ctx):
        """update_shared_directory: a given share mode and a given user list - including the EMPTY list - replace the old values; None leaves
        them; the change event is emitted (it requests the re-evaluation of the uploads)"""
        it = mk(src_root, ctx)
        mode_case = ctx.choose(2, 'share_mode-given') == 1
        users_case = ['none', 'empty', 'some'][ctx.choose(3, 'users')]
        by_path = ctx.choose(2, 'by-path') == 1
        old_mode, new_mode = enum(it, SMODEL, 'DirectoryShareMode', 'USERS'), enum(it, SMODEL, 'DirectoryShareMode', 'EVERYONE')
        old_users = ['carol']
        d = new(it, SMODEL, 'SharedDirectory', share_mode=old_mode, users=old_users, absolute_path='/m', directory='/m', alias='mmmmm')
        events = []
        bus = Stub('bus', emit_sync=Recorder('emit_sync', fn=lambda it2, a, k: events.append(a[0])))
        it.hooks[f'{MGR}:SharesManager.get_shared_directory'] = lambda it2, f, a, k: d
        mgr = new(it, MGR, 'SharesManager', _event_bus=bus)
        new_users = {'none': None, 'empty': [], 'some': ['dave']}[users_case]
        r = it.call(it.getattr(mgr, 'update_shared_directory'), ['/m' if by_path else d], {'share_mode': new_mode if mode_case else None, 'users': new_users})
        ctx.prove('C08.update.share-mode', d.attrs['share_mode'] is (new_mode if mode_case else old_mode), 'a given share mode must replace the old one, None must leave it')
        want_users = old_users if new_users is None else new_users
        ctx.prove(f'C08.update.users[{users_case}]', d.attrs['users'] is want_users or d.attrs['users'] == want_users,
                  'a given user list must replace the old one - also the EMPTY list, which removes every named user')
        ctx.prove('C08.update.event', r is d and len(events) == 1 and isinstance(events[0], Obj) and events[0].cls.name == 'SharedDirectoryChangeEvent'
                  and any(v is d for v in events[0].attrs.values()), 'the change must be announced (the transfer manager re-evaluates the uploads on this event)')
    ex.run(update, 'update-directory')

    def detect(ctx: Ctx):
        """UserManager._management_job (the poll that turns an edit of settings.users.friends / blocked into the change events): a
        difference between the live collections and the remembered ones is announced, and what is remembered afterwards is a COPY of the
        live collections - the user edits them in place, an alias would compare equal for ever after"""
        it = mk(src_root, ctx)
        case = ['friend-added', 'friend-removed', 'blocked', 'unblocked', 'flags-changed', 'nothing'][ctx.choose(6, 'change')]
        BF = cls(it, UMODEL, 'BlockingFlag')
        up = [m for m in BF.enum_members if m.name == 'UPLOADS'][0]
        sh = [m for m in BF.enum_members if m.name == 'SHARES'][0]
        old_f, old_b = {'alice'}, {'bob': up}
        new_f = {'friend-added': {'alice', 'carol'}, 'friend-removed': set()}.get(case, {'alice'})
        new_b = {'blocked': {'bob': up, 'mallory': up}, 'unblocked': {}, 'flags-changed': {'bob': sh}}.get(case, {'bob': up})
        users = Stub('users', friends=new_f, blocked=new_b)
        context = Stub('context', friends=set(old_f), blocked=dict(old_b))
        events = []
        bus = Stub('bus', emit=Recorder('emit', fn=lambda it2, a, k: events.append(a[0]), is_async=True))
        um = new(it, 'user.manager', 'UserManager', _settings=Stub('settings', users=users), _event_bus=bus)
        run(it, it.getattr(um, '_management_job'), context)
        names = sorted(e.cls.name for e in events)
        want = {'friend-added': ['FriendListChangedEvent'], 'friend-removed': ['FriendListChangedEvent'], 'blocked': ['BlockListChangedEvent'],
                'unblocked': ['BlockListChangedEvent'], 'flags-changed': ['BlockListChangedEvent'], 'nothing': []}[case]
        ctx.prove(f'C08.changes.detected[{case}]', names == want, f'announced {names}, expected {want}')
        cf, cb = context.attrs['friends'], context.attrs['blocked']
        ctx.prove(f'C08.changes.remembers-a-copy[{case}]', cf == new_f and cb == new_b and cf is not new_f and cb is not new_b,
                  'the remembered friends / block list must equal the live ones and be COPIES of them (the live collections are edited in place: '
                  'an alias hides every later change)')
    ex.run(detect, 'change-detection')

    def wiring(ctx: Ctx):
        """the three change events request a SHARES_CHANGE management cycle"""
        it = mk(src_root, ctx)
        flags = []
        it.hooks[f'{TM}:TransferManager.request_management_cycle'] = lambda it2, f, a, k: flags.append(a[1])
        mgr = new(it, TM, 'TransferManager')
        it.call(it.getattr(mgr, '_request_shares_cycle'), [Stub('event')], {})
        ctx.prove('C08.changes.request-shares-cycle', len(flags) == 1 and isinstance(flags[0], EnumMember) and flags[0].name == 'SHARES_CHANGE')
        regs = []
        bus = Stub('bus', register=Recorder('register', fn=lambda it2, a, k: regs.append((a[0], a[1]))))
        mgr2 = new(it, TM, 'TransferManager', _event_bus=bus)
        it.call(it.getattr(mgr2, 'register_listeners'), [], {})
        names = {getattr(e, 'name', None): getattr(getattr(h, 'func', h), 'node', None) for e, h in regs}
        ok = all(n in names and names[n] is not None and names[n].name == '_request_shares_cycle'
                 for n in ('BlockListChangedEvent', 'FriendListChangedEvent', 'SharedDirectoryChangeEvent'))
        ctx.prove('C08.changes.events-wired', ok, 'block list, friend list and shared directory changes must all request the shares cycle')
    ex.run(wiring, 'change-wiring')

    def request(ctx: Ctx):
        """request_management_cycle(flag): the flag is ADDED to the pending flags and the queue holds a wake-up token afterwards"""
        it = mk(src_root, ctx)
        RF = cls(it, TM, '_RequestFlag')
        shares, transfer = [m for m in RF.enum_members if m.name == 'SHARES_CHANGE'][0], [m for m in RF.enum_members if m.name == 'TRANSFER_CHANGE'][0]
        pending = [it.enum_from_value(RF, 0), shares, transfer][ctx.choose(3, 'pending')]
        full = ctx.choose(2, 'queue-full') == 1
        puts = []

        def put_nowait(it2, a, k):
            puts.append(a)
            if full:
                it2.throw(it2.natives['asyncio.QueueFull'] if 'asyncio.QueueFull' in it2.natives else cls_builtin(it2, 'QueueFull'), 'full')
        q = Stub('queue', put_nowait=Recorder('put_nowait', fn=put_nowait), full=Recorder('full', ret=full), empty=Recorder('empty', ret=not full),
                 qsize=Recorder('qsize', ret=1 if full else 0))
        mgr = new(it, TM, 'TransferManager', _management_flags=pending, _management_queue=q)
        it.call(it.getattr(mgr, 'request_management_cycle'), [shares], {})
        after = mgr.attrs['_management_flags']
        # the flag is recorded ALSO when a wake-up is already waiting in the queue (the pending cycle then evaluates it); a wake-up token is
        # in the queue afterwards either way
        ctx.prove('C08.cycle.request-adds-flag', unbox_flag(after) == (unbox_flag(pending) | shares.value) and (len(puts) == 1 or full),
                  'a request must be added to the pending ones (and a wake-up token be offered to the queue)')
    ex.run(request, 'request-cycle')

    def job(ctx: Ctx):
        """_management_job, a change requested at ANY suspension point of the job is not lost: either manage_shares_changed starts after
        the request in this very job, or the SHARES_CHANGE flag is still pending when the job ends (the request also left a wake-up token)"""
        it = mk(src_root, ctx)
        RF = cls(it, TM, '_RequestFlag')
        shares = [m for m in RF.enum_members if m.name == 'SHARES_CHANGE'][0]
        transfer = [m for m in RF.enum_members if m.name == 'TRANSFER_CHANGE'][0]
        pending0 = [shares, transfer][ctx.choose(2, 'pending')]
        inject_at = ['queue.get', 'manage_shares_changed', 'manage_user_tracking', 'never'][ctx.choose(4, 'change-arrives-during')]
        log = []
        q = Stub('queue', get=Recorder('queue.get', fn=lambda it2, a, k: log.append('get-returned'), is_async=True),
                 put_nowait=Recorder('put_nowait', fn=lambda it2, a, k: log.append('token')))
        mgr = new(it, TM, 'TransferManager', _management_flags=pending0, _management_queue=q)
        from pyvc import aio as A
        it.hooks[f'{TM}:TransferManager.manage_shares_changed'] = lambda it2, f, a, k: A.SimpleAwaitable(it2.aio, 'manage_shares_changed', lambda it3: log.append('shares-done'), on_start=None) \
            if False else _awaitable(it2, 'manage_shares_changed', log)
        it.hooks[f'{TM}:TransferManager.manage_user_tracking'] = lambda it2, f, a, k: _awaitable(it2, 'manage_user_tracking', log)
        it.hooks[f'{TM}:TransferManager.manage_transfers'] = lambda it2, f, a, k: log.append('manage_transfers')
        it.natives['time.monotonic'] = Native('time.monotonic', lambda it2, a, k: 1.0)
        injected = []

        def on_yield(it2, label):
            if label == inject_at and not injected:
                injected.append(len(log))
                log.append('CHANGE')
                it2.call(it2.getattr(mgr, 'request_management_cycle'), [shares], {})
        it.aio.on_yield = on_yield
        run(it, it.getattr(mgr, '_management_job'))
        after = unbox_flag(mgr.attrs['_management_flags'])
        if pending0 is shares:
            ctx.prove('C08.cycle.job-processes-shares-change', 'shares-start' in log, 'a pending SHARES_CHANGE must run manage_shares_changed')
        if inject_at == 'never':
            ctx.prove('C08.cycle.job-consumes-flags', after == 0, 'the processed flags must be cleared')
            return
        if not injected:
            if not (inject_at == 'manage_shares_changed' and pending0 is transfer):
                ctx.fail('C08.cycle.no-lost-change', f'the job never suspended on {inject_at}')
            return
        handled_here = 'shares-start' in log[log.index('CHANGE'):]
        ctx.prove(f'C08.cycle.no-lost-change[{inject_at}]', (handled_here or bool(after & shares.value)) and 'token' in log,
                  f'a block / friend / share change that arrives while the job is suspended on {inject_at} is lost: the uploads are not re-evaluated')
    ex.run(job, 'management-job')


def _awaitable(it, name, log):
    from pyvc import aio as A

    def body(it3):
        log.append(name.replace('manage_shares_changed', 'shares') + '-done' if name == 'manage_shares_changed' else name + '-done')
    log_start = 'shares-start' if name == 'manage_shares_changed' else name + '-start'

    class Started(A.SimpleAwaitable):
        pass
    log.append(log_start)
    return A.SimpleAwaitable(it.aio, name, body)


def cls_builtin(it, name):
    from pyvc.values import BUILTIN_CLASSES
    return BUILTIN_CLASSES[name]


def prove_owner(src_root, ex: Explorer):
    """INV-owner (every item is held by the directory it points to, the INNERMOST shared directory containing it) is what makes the
    lock predicate of an item the lock predicate of its real directory.  It is established by the scan and by the moves of
    add_shared_directory / remove_shared_directory: the C07 obligations about them are discharged here as well."""
    from contracts import C07
    C07.prove_dirs(src_root, ex)
    C07.prove_scan(src_root, ex)
    C07.prove_scan_directory(src_root, ex)
    for ob in ex.obligations:
        if ob.name.startswith('C07.'):
            ob.name = 'C08.owner.' + ob.name[4:]


def prove_abort_stops_upload(src_root, ex: Explorer):
    """A block or a share-mode change takes effect on an upload through abort() (C08.changes.* / C08.evaluate.*).  That an aborted upload
    then sends NOTHING more rests on the task-slot contracts of C06, discharged here as well: (a) the selection never starts a second
    negotiation for a transfer that still holds a task - finished or not - so a task handle is never overwritten or cleared while its task
    runs (C06.slot-free#*); (b) abort() of every state cancels and awaits both task slots before the change is reported (C06.cancel-all.*);
    (c) the done-callbacks clear exactly the slot their task filled (C06.manage_transfers.*)."""
    from contracts import C06
    C06.prove_slot_selection(src_root, ex)
    C06.prove_cancel_all(src_root, ex)
    C06.prove_manage_assigns(src_root, ex)
    for ob in ex.obligations:
        if ob.name.startswith('C06.'):
            ob.name = 'C08.abort-stops-upload.' + ob.name[4:]


PARTS = {'owner': prove_owner, 'locked': prove_locked, 'query': prove_query, 'replies': prove_replies, 'search': prove_search_gate, 'uploads': prove_upload_gate,
         'evaluate': prove_evaluate, 'changes': prove_changes, 'requeue': prove_requeue_clears_reason, 'abort-stops': prove_abort_stops_upload}


def items(src_root, tier):
    return [(k, None) for k in PARTS]


def run_item(src_root, item, tier):
    res = std_result('C08')
    ex = Explorer()
    kind, arg = item
    try:
        PARTS[kind](src_root, ex)
    except Unsupported as e:
        res.errors.append(f'{kind}: unsupported: {e}')
    collect(res, ex)
    res.functions.update([f'{MGR}:SharesManager.is_directory_locked', f'{MGR}:SharesManager.is_item_locked', f'{MGR}:SharesManager.query',
                          f'{MGR}:SharesManager.get_shared_directories_for_user', f'{MGR}:SharesManager.create_shares_reply',
                          f'{MGR}:SharesManager.create_directory_reply', f'{MGR}:SharesManager.get_shared_item_cache', f'{MGR}:SharesManager.get_shared_item',
                          f'{MGR}:SharesManager.find_shared_item', f'{MGR}:SharesManager.find_shared_item_cache', f'{SETTINGS}:UsersSettings.is_blocked',
                          f'{PEER}:PeerManager._on_peer_shares_request', f'{PEER}:PeerManager._on_peer_directory_contents_req',
                          f'{SM}:SearchManager._query_shares_and_reply', f'{TM}:TransferManager._on_peer_transfer_queue',
                          f'{TM}:TransferManager._on_peer_transfer_request', f'{TM}:TransferManager._add_upload',
                          f'{TM}:TransferManager._evaluate_aborted_state', f'{TM}:TransferManager.manage_shares_changed',
                          f'{TM}:TransferManager._management_job', f'{TM}:TransferManager.request_management_cycle', 'user.manager:UserManager._management_job', f'{MGR}:SharesManager.update_shared_directory'])
    return res
