"""C09 -- peer-chosen names never escape the download directory or clobber a file.  DESIGN.md section 4 / C09."""
from __future__ import annotations

import z3

from pyvc.ctx import Ctx, Explorer, Unsupported, PathAbort
from pyvc.interp import Interp, CoroVal
from pyvc.values import (Sym, Obj, PyRaise, Native, Bound, ExcVal, EnumMember, Opaque, unbox, z3int, z3str, BUILTIN_CLASSES)
from pyvc import natives as N
from pyvc import aio as A
from pyvc.symcoll import SymSet
from contracts.common import (source, mk, cls, func, new, run, enum, Recorder, Stub, collect, std_result)

NAMING = 'naming'
UTILS = 'utils'
S = z3.StringSort()

ASSUMPTIONS = [
    'A-re (split): re.split on the character class [\\\\/]+ returns pieces none of which contains \\\\ or /',
    'A-re (numbered): the pattern re.escape(f) + " \\((\\d+)\\)" + re.escape(e) matches f + " (k)" + e with group 1 == str(k) (BOUNDED-checked against CPython)',
    'A-ospath (POSIX): join(a, b) == a + "/" + b when b is not absolute and a does not end with "/"; splitext(n) == (r, e) with r + e == n; a path '
    'D + "/" + c1 + ... + "/" + cn whose components are plain (not "", ".", "..", no separator) is strictly inside D and equal to its normpath',
    'A-int-str: str(k) of a non-negative int consists of decimal digits only',
    'A-fs: os.listdir lists every entry of the directory; nobody else creates files (single process)',
    'the download directory D is absolute and is not the root (does not end with "/")',
]
TRUSTED_BASE = ['pyvc engine', 'z3 string theory (cvc5 as second back end)', 'the axioms above']
NOT_DECIDED = ['chains that never apply a strategy which sets the filename (e.g. [KeepDirectoryStrategy] alone) yield an empty name: outside the claim, '
               'which is stated for chains in which DefaultNamingStrategy is applied (what the library installs)']


def sstr(ctx, name):
    return Sym(ctx.fresh_str(name), 'str')


NSf = z3.Function('separator_free', S, z3.BoolSort())


def no_sep(t):
    """t contains neither / nor \\.  The predicate is expanded syntactically over concatenations (a ++ b is separator free iff
    a and b are), literals and decimal numerals; on variables it is the uninterpreted predicate separator_free."""
    t = z3.simplify(t) if not z3.is_string_value(t) else t
    if z3.is_string_value(t):
        v = t.as_string()
        return z3.BoolVal('/' not in v and '\\' not in v)
    if z3.is_app(t) and t.decl().kind() == z3.Z3_OP_SEQ_CONCAT:
        return z3.And(*[no_sep(c) for c in t.children()])
    if z3.is_app(t) and t.decl().kind() == z3.Z3_OP_INT_TO_STR:
        return z3.BoolVal(True)               # A-int-str
    return NSf(t)


def clean(t):
    """a plain path component"""
    return z3.And(t != z3.StringVal(''), t != z3.StringVal('.'), t != z3.StringVal('..'), no_sep(t))


def assume_clean(ctx, t):
    """assume that t is a plain component, together with the consequences of `separator free` that the interpreted string
    operations of os.path.join look at"""
    ctx.assume(clean(t))
    ctx.assume(z3.Not(z3.PrefixOf(z3.StringVal('/'), t)))
    ctx.assume(z3.Not(z3.SuffixOf(z3.StringVal('/'), t)))


class PatternVal:
    def __init__(self, pattern):
        self.pattern = pattern


class PatExpr:
    """a regular-expression source text assembled by + from escaped symbolic strings and literals"""

    def __init__(self, parts):
        self.parts = list(parts)

    def pyvc_binop(self, it, op, other, reflected):
        import ast as _ast
        if not isinstance(op, _ast.Add):
            return NotImplemented
        o = other.parts if isinstance(other, PatExpr) else [other]
        return PatExpr(o + self.parts if reflected else self.parts + o)


class Parts:
    """result of split_remote_path by its contract (C09.split.parts): n >= 0 parts, each a plain component"""

    def __init__(self, ctx, path):
        self.ctx = ctx
        self.n = ctx.fresh_int('n_parts')
        ctx.assume(self.n >= 0)
        self.part = z3.Function(ctx.fresh_name('part'), z3.IntSort(), S)
        self.used = set()

    def elem(self, i):
        t = self.part(i)
        key = t.get_id()
        if key not in self.used:
            self.used.add(key)
            assume_clean(self.ctx, t)
        return t

    def pyvc_len(self, it):
        return Sym(self.n, 'int')

    def pyvc_getitem(self, it, idx):
        i = unbox(idx)
        if not isinstance(i, int):
            raise Unsupported('symbolic part index')
        pos = self.n + i if i < 0 else z3.IntVal(i)
        if not it.ctx.branch(z3.And(pos >= 0, pos < self.n)):
            it.throw('IndexError', 'list index out of range')
        return Sym(self.elem(z3.simplify(pos)), 'str')


def install_os(it, ctx, listing=None):
    def join(it2, a, k):
        x, y = z3str(unbox(a[0])), z3str(unbox(a[1]))
        r = z3.If(z3.PrefixOf(z3.StringVal('/'), y), y,
                  z3.If(x == z3.StringVal(''), y, z3.If(z3.SuffixOf(z3.StringVal('/'), x), z3.Concat(x, y), z3.Concat(x, z3.StringVal('/'), y))))
        return Sym(z3.simplify(r), 'str')
    it.natives['os.path.join'] = Native('os.path.join', join)

    def splitext(it2, a, k):
        n = z3str(unbox(a[0]))
        r, e = ctx.fresh_str('root'), ctx.fresh_str('ext')
        ctx.assume(z3.Concat(r, e) == n)
        ctx.assume(z3.And(no_sep(r), no_sep(e)) == no_sep(n))       # root ++ ext == name, expanded for the separator predicate
        ctx.assume(z3.Or(e == z3.StringVal(''), z3.PrefixOf(z3.StringVal('.'), e)))
        ctx.assume(z3.Implies(n != z3.StringVal(''), r != z3.StringVal('')))
        ctx.ghost['splitext'] = (r, e)
        return (Sym(r, 'str'), Sym(e, 'str'))
    it.natives['os.path.splitext'] = Native('os.path.splitext', splitext)
    it.natives['re.escape'] = Native('re.escape', lambda it2, a, k: PatExpr([('escaped', a[0])]))
    it.natives['re.compile'] = Native('re.compile', lambda it2, a, k: PatternVal(a[0]))


# ---------------------------------------------------------------------------

def prove_split(src_root, ex: Explorer):
    """comprehension of split_remote_path, element-wise (arbitrary piece of re.split): kept iff it is a plain component"""
    def path(ctx: Ctx):
        it = mk(src_root, ctx)
        install_os(it, ctx)
        e = ctx.fresh_str('piece')
        ctx.assume(no_sep(e))                         # A-re (split)

        def re_split(it2, a, k):
            pat = a[0].pattern if isinstance(a[0], PatternVal) else a[0]
            if unbox(pat) != r"[\\/]+":
                raise Unsupported(f're.split with pattern {pat!r}')
            return [Sym(e, 'str')]                    # the arbitrary piece (independent-iterations rule for the comprehension)
        it.natives['re.split'] = Native('re.split', re_split)
        r = it.call(func(it, UTILS, 'split_remote_path'), [sstr(ctx, 'remote_path')], {})
        kept = len(r) == 1
        if kept:
            ctx.prove('C09.split.parts', clean(z3str(r[0])),
                      'a part "." or ".." (or an empty one) survives the split: DefaultNamingStrategy takes it as the file name and '
                      'KeepDirectoryStrategy joins it to the download directory (x\\..\\f.mp3 => <download>/../f.mp3)')
        else:
            ctx.prove('C09.split.drops-only-non-components', z3.Not(clean(e)), 'a plain component was dropped from the remote path')
    ex.run(path, 'split')


def hook_split(it, ctx):
    made = []

    def c_split(it2, f, a, k):
        p = Parts(ctx, a[0])
        made.append(p)
        return p
    it.hooks[f'{UTILS}:split_remote_path'] = c_split
    return made


def check_numbered_axiom(ctx, literal):
    """BOUNDED stand-in for A-re (numbered), with the PATTERN literal read from the source: CPython's re on sample names with regex
    metacharacters and indices 0..120 plus large ones; the formatted name must match with group 1 == str(k), an unnumbered name must not"""
    import re
    roots = ['song', 'a.b', 'a (1)', '(x)', '[y]+', 'a\\b', '^$', 'sp ace', 'é', '', '*', '{2}', 'a|b', '.']
    exts = ['', '.mp3', '.(1)', '.a+b']
    bad = None
    for r in roots:
        for e in exts:
            try:
                rx = re.compile(re.escape(r) + literal + re.escape(e))
            except re.error as err:
                bad = f'pattern does not compile: {err}'
                break
            for k in list(range(0, 121)) + [999, 10 ** 6, 10 ** 12]:
                m = rx.match(f'{r} ({k}){e}')
                if m is None or m.group(1) != str(k) or int(m.group(1)) != k:
                    bad = f'{r!r} ({k}){e!r} is not matched with index {k}'
                    break
            if bad is None and e and rx.match(r + e) is not None:
                bad = f'the unnumbered name {r + e!r} is matched'
            if bad:
                break
        if bad:
            break
    ctx.prove('C09.A-re.numbered[bounded]', bad is None, bad or '')


def prove_strategies(src_root, ex: Explorer):
    def default(ctx: Ctx):
        it = mk(src_root, ctx)
        install_os(it, ctx)
        hook_split(it, ctx)
        s = it.call(cls(it, NAMING, 'DefaultNamingStrategy'), [], {})
        d, fn = sstr(ctx, 'local_dir'), sstr(ctx, 'local_filename')
        try:
            r = it.call(it.getattr(s, 'apply'), [sstr(ctx, 'remote_path'), d, fn], {})
        except PyRaise as pr:
            ctx.prove('C09.Default.apply.rejects-empty', pr.exc.cls.name == 'IndexError', 'a remote path without components is rejected')
            return
        ctx.prove('C09.Default.apply.clean', z3.And(z3str(r[0]) == d.t, clean(z3str(r[1]))), 'directory unchanged, file name is a plain component')
    ex.run(default, 'default')

    def keep(ctx: Ctx):
        it = mk(src_root, ctx)
        install_os(it, ctx)
        hook_split(it, ctx)
        it.natives['re.match'] = Native('re.match', lambda it2, a, k: (None if ctx.choose(2, 're.match') == 0 else Opaque('match')))
        s = it.call(cls(it, NAMING, 'KeepDirectoryStrategy'), [], {})
        d, fn = sstr(ctx, 'local_dir'), sstr(ctx, 'local_filename')
        ctx.assume(z3.Not(z3.SuffixOf(z3.StringVal('/'), d.t)))
        ctx.assume(d.t != z3.StringVal(''))
        try:
            r = it.call(it.getattr(s, 'apply'), [sstr(ctx, 'remote_path'), d, fn], {})
        except PyRaise as pr:
            ctx.prove('C09.Keep.apply.rejects-empty', pr.exc.cls.name == 'IndexError', 'a remote path without components is rejected')
            return
        c = ctx.fresh_str('component')
        nd = z3str(r[0])
        ok = z3.And(z3str(r[1]) == fn.t, z3.Or(nd == d.t, z3.Exists([c], z3.And(clean(c), nd == z3.Concat(d.t, z3.StringVal('/'), c)))))
        ctx.prove('C09.Keep.apply.clean', ok, 'file name unchanged; the directory is unchanged or extended by ONE plain component')
    ex.run(keep, 'keep')

    def number(ctx: Ctx):
        it = mk(src_root, ctx)
        install_os(it, ctx)
        s = it.call(cls(it, NAMING, 'NumberDuplicateStrategy'), [], {})
        d, fn = sstr(ctx, 'local_dir'), sstr(ctx, 'local_filename')
        ctx.assume(clean(fn.t))
        LS = z3.Const('listing', z3.SetSort(S))                       # os.listdir(local_dir) as a set of names
        NUM = z3.Function('numbered_index', S, z3.IntSort())           # index of an entry that matches the pattern, -1 otherwise
        IDX = z3.Const('indices', z3.SetSort(z3.IntSort()))
        state = {}

        class Listing:
            def pyvc_iter(self, it2, loop):
                raise Unsupported('listing iterated without the loop contract')

        it.natives['os.listdir'] = Native('os.listdir', lambda it2, a, k: Listing() if a[0] is d else (_ for _ in ()).throw(Unsupported('listdir of another directory')))

        class Match:
            def __init__(self, entry):
                self.entry = entry

            def pyvc_getattr(self, it2, name):
                if name == 'group':
                    return Native('group', lambda it3, a, k: ('group1', self.entry))
                raise Unsupported(name)

        def re_match(it2, a, k):
            entry = z3str(unbox(a[1]))
            state['pattern'] = a[0]
            if ctx.branch(NUM(entry) >= 0):
                return Match(entry)
            return None
        it.natives['re.match'] = Native('re.match', re_match)
        orig_int = it.natives['builtins.int']

        def py_int(it2, a, k):
            if a and isinstance(a[0], tuple) and a[0][0] == 'group1':
                return Sym(NUM(a[0][1]), 'int')        # A-re: int(group 1) is the index of the matching entry
            return orig_int.fn(it2, a, k)
        it.natives['builtins.int'] = Native('builtins.int', py_int)

        class Indices:
            """the list `indices` after the loop: only its set of values matters (set(), min(), max(), truthiness)"""

            def pyvc_toset(self, it2):
                return SymSet(IDX, z3.IntSort())

            def pyvc_truth(self, it2):
                return IDX != z3.EmptySet(z3.IntSort())

            def pyvc_minmax(self, it2, which):
                return N._minmax_symset(it2, which, SymSet(IDX, z3.IntSort()))

        def loop(it2, node, env):
            """loop contract (independent iterations over the directory listing):
               post  for every entry of the listing that matches the pattern, its index is in `indices`; all indices are >= 0"""
            which = ctx.choose(2, 'loop')
            if which == 0:
                entry = ctx.fresh_str('entry')
                ctx.assume(z3.IsMember(entry, LS))
                lst = env.vars.get('indices')
                if not isinstance(lst, list) or lst:
                    raise Unsupported('numbering loop: accumulator')
                it2.assign(node.target, Sym(entry, 'str'), env)
                it2.exec_block(node.body, env)
                got = [z3int(x) for x in lst]
                pat = state.get('pattern')
                shape = None
                if isinstance(pat, PatExpr) and len(pat.parts) == 3 and 'splitext' in ctx.ghost:
                    a0, lit, a2 = pat.parts
                    if isinstance(a0, tuple) and isinstance(a2, tuple) and isinstance(unbox(lit), str):
                        root, ext = ctx.ghost['splitext']
                        shape = z3.And(z3str(unbox(a0[1])) == root, z3str(unbox(a2[1])) == ext)
                        check_numbered_axiom(ctx, unbox(lit))
                ctx.prove('C09.Number.pattern', shape if shape is not None else z3.BoolVal(False),
                          'the entries are not matched against escape(root) + PATTERN + escape(ext) for the splitext parts of the name')
                ctx.prove('C09.Number.loop.collects', z3.Implies(NUM(entry) >= 0, z3.Or(*[g == NUM(entry) for g in got]) if got else z3.BoolVal(False)),
                          'an existing numbered file is not taken into account')
                raise PathAbort()
            e = z3.Const('e!ls', S)
            ctx.assume(z3.ForAll([e], z3.Implies(z3.And(z3.IsMember(e, LS), NUM(e) >= 0), z3.IsMember(NUM(e), IDX))))
            x = z3.Int('x!idx')
            ctx.assume(z3.ForAll([x], z3.Implies(z3.IsMember(x, IDX), x >= 0)))
            env.vars['indices'] = Indices()
        it.loop_specs[(f'{NAMING}:NumberDuplicateStrategy.apply', 0)] = loop
        try:
            r = it.call(it.getattr(s, 'apply'), [sstr(ctx, 'remote_path'), d, fn], {})
        except PyRaise as pr:
            ctx.fail('C09.Number.apply.no-raise', repr(pr.exc))
            return
        name = z3str(r[1])

        def numerals(e, acc):
            if z3.is_app(e):
                if e.decl().kind() == z3.Z3_OP_INT_TO_STR:
                    acc.append(e)
                for ch in e.children():
                    numerals(ch, acc)
            return acc
        for nm in numerals(name, []):
            ctx.assume(z3.Length(nm) >= 1)              # A-int-str
        ctx.prove('C09.Number.apply.length', z3.Length(name) >= 4)
        ctx.assume(z3.Length(name) >= 4)
        ctx.prove('C09.Number.apply.clean', z3.And(z3str(r[0]) == d.t, clean(name)), 'directory unchanged, the numbered name is a plain component')
        # the produced name has the numbered form root + " (k)" + ext for the (root, ext) splitext returned and an index k that is not taken
        nums = numerals(name, [])
        if 'splitext' not in ctx.ghost:
            ctx.fail('C09.number.form', 'the file name is not split with os.path.splitext')
            return
        # candidate for the index: the integer that is formatted into the name (the literal 1 when none is)
        k = nums[0].arg(0) if nums else z3.IntVal(1)
        root, ext = ctx.ghost['splitext']
        ctx.prove('C09.number.form', z3.And(k >= 1, name == z3.Concat(root, z3.StringVal(' ('), z3.IntToStr(k), z3.StringVal(')'), ext)),
                  'the result is not "<root> (<k>)<ext>" with k >= 1 for the splitext parts of the file name')
        ctx.prove('C09.number.free', z3.Not(z3.IsMember(k, IDX)), 'the chosen index is already taken by an existing file')
        ctx.assume(NUM(name) == k)                # A-re (numbered): the formatted name matches the pattern with index k
        ctx.prove('C09.number.fresh', z3.Not(z3.IsMember(name, LS)), 'the chosen name already exists in the directory')
    ex.run(number, 'number')

    def should(ctx: Ctx):
        it = mk(src_root, ctx)
        install_os(it, ctx)
        EX = z3.Function('exists', S, z3.BoolSort())
        it.natives['os.path.exists'] = Native('exists', lambda it2, a, k: Sym(EX(z3str(unbox(a[0]))), 'bool'))
        s = it.call(cls(it, NAMING, 'NumberDuplicateStrategy'), [], {})
        d, fn = sstr(ctx, 'local_dir'), sstr(ctx, 'local_filename')
        full = z3str(it.call(it.natives['os.path.join'], [d, fn], {}))
        ctx.assume(z3.Implies(EX(full), EX(d.t)))            # A-fs: an entry exists only in an existing directory
        r = it.truth(it.call(it.getattr(s, 'should_be_applied'), [d, fn], {}))
        ctx.prove('C09.Number.should_be_applied', z3.Implies(EX(full), r), 'join(dir, name) exists but the duplicate strategy is not applied')
    ex.run(should, 'should')


def prove_chain(src_root, ex: Explorer):
    """loop contract of chain_strategies (any list of shipped strategies, any length):
         invariant  path == D ++ R with R a (possibly empty) sequence of "/" + plain component, and filename == '' or plain
       Each strategy's contract (above) preserves it; DefaultNamingStrategy establishes `filename is plain`."""
    strategies = ['DefaultNamingStrategy', 'KeepDirectoryStrategy', 'NumberDuplicateStrategy']

    def step(ctx: Ctx):
        it = mk(src_root, ctx)
        install_os(it, ctx)
        sname = strategies[ctx.choose(3, 'strategy')]
        D = ctx.fresh_str('D')
        ctx.assume(z3.And(z3.PrefixOf(z3.StringVal('/'), D), z3.Not(z3.SuffixOf(z3.StringVal('/'), D))))
        REL = z3.Function('plain_components', S, z3.BoolSort())      # R is a sequence of "/" + plain component
        R = ctx.fresh_str('R')
        ctx.assume(REL(R))
        ctx.assume(z3.Or(R == z3.StringVal(''), z3.Not(z3.SuffixOf(z3.StringVal('/'), R))))
        path = Sym(z3.Concat(D, R), 'str')
        fn = sstr(ctx, 'filename')
        ctx.assume(z3.Or(fn.t == z3.StringVal(''), clean(fn.t)))
        s = it.call(cls(it, NAMING, sname), [], {})
        applied = ctx.choose(2, 'applied') == 1
        comp = ctx.fresh_str('c')

        # the strategies by their contracts (C09.<S>.apply.clean)
        def c_apply(it2, f, a, k):
            if sname == 'DefaultNamingStrategy':
                assume_clean(ctx, comp)
                return (a[2], Sym(comp, 'str'))
            if sname == 'KeepDirectoryStrategy':
                if ctx.choose(2, 'extends') == 1:
                    assume_clean(ctx, comp)
                    return (Sym(z3.Concat(z3str(a[2]), z3.StringVal('/'), comp), 'str'), a[3])
                return (a[2], a[3])
            ctx.assume(clean(comp))
            return (a[2], Sym(comp, 'str'))
        it.hooks[f'{NAMING}:{sname}.apply'] = c_apply
        should_args = []
        it.hooks[f'{NAMING}:DuplicateNamingStrategy.should_be_applied'] = lambda it2, f, a, k: (should_args.append((a[1], a[2])), applied)[1]
        it.hooks[f'{NAMING}:NamingStrategy.should_be_applied'] = lambda it2, f, a, k: applied
        state = {}

        start_dir = Sym(D, 'str')

        def loop(it2, node, env):
            # the two values the chain carries are identified by their role, not by their names: the local that holds the download directory
            # the function was given, and the local that holds the empty file name, when the loop is first reached
            from pyvc.interp import ContinueEx, BreakEx
            dirs = [k for k, v in env.vars.items() if v is start_dir and k not in ('local_dir',)] or [k for k, v in env.vars.items() if v is start_dir]
            names = [k for k, v in env.vars.items() if isinstance(v, str) and v == '']
            if len(dirs) != 1 or len(names) != 1:
                raise Unsupported(f'chain_strategies: cannot identify the carried directory / file name among {dirs} / {names}')
            dvar, nvar = dirs[0], names[0]
            env.vars[dvar], env.vars[nvar] = path, fn
            it2.assign(node.target, s, env)
            try:
                it2.exec_block(node.body, env)
            except (ContinueEx, BreakEx):
                pass
            state['path'], state['filename'] = env.vars[dvar], env.vars[nvar]
        it.loop_specs[(f'{NAMING}:chain_strategies', 0)] = loop
        it.call(func(it, NAMING, 'chain_strategies'), [[s], sstr(ctx, 'remote_path'), start_dir], {})
        if 'path' not in state:
            raise Unsupported('chain_strategies: the loop over the strategies was not reached')
        if sname == 'NumberDuplicateStrategy':
            ctx.prove('C09.chain.checks-current-location', all(z3.eq(z3str(sa[0]), z3str(path)) and sa[1] is fn for sa in should_args),
                      'should_be_applied must be asked about the directory and name chosen SO FAR, not about the initial download directory')
        p2, f2 = z3str(state['path']), z3str(state['filename'])
        # definitional instance of REL: appending "/" + plain component keeps it
        ctx.assume(z3.Implies(z3.And(REL(R), clean(comp)), REL(z3.Concat(R, z3.StringVal('/'), comp))))
        R2 = ctx.fresh_str('R2')
        inv = z3.And(z3.Exists([R2], z3.And(p2 == z3.Concat(D, R2), REL(R2))), z3.Or(f2 == z3.StringVal(''), clean(f2)))
        ctx.prove(f'C09.chain.invariant[{sname}]', inv, 'the chain leaves the download directory or produces a name that is not a plain component')
        if sname == 'DefaultNamingStrategy' and applied:
            ctx.prove('C09.chain.default-sets-name', clean(f2))
    ex.run(step, 'chain-step')

    def last(ctx: Ctx):
        """the chosen path does not exist yet: decided by the LAST strategy of the chain.  With NumberDuplicateStrategy last (what the
        library installs) it holds from the contracts C09.Number.should_be_applied and C09.number.fresh; with another strategy last the
        name or directory is replaced after the check (refuted: known finding about `any order`)."""
        it = mk(src_root, ctx)
        install_os(it, ctx)
        sname = strategies[ctx.choose(3, 'last')]
        EX = z3.Function('exists', S, z3.BoolSort())
        it.natives['os.path.exists'] = Native('exists', lambda it2, a, k: Sym(EX(z3str(unbox(a[0]))), 'bool'))
        path, fn = sstr(ctx, 'path'), sstr(ctx, 'filename')
        ctx.assume(z3.Not(z3.SuffixOf(z3.StringVal('/'), path.t)))
        ctx.assume(path.t != z3.StringVal(''))
        s = it.call(cls(it, NAMING, sname), [], {})
        comp = ctx.fresh_str('c')

        def c_apply(it2, f, a, k):
            if sname == 'DefaultNamingStrategy':
                assume_clean(ctx, comp)
                return (a[2], Sym(comp, 'str'))
            if sname == 'KeepDirectoryStrategy':
                if ctx.choose(2, 'extends') == 1:
                    assume_clean(ctx, comp)
                    return (Sym(z3.Concat(z3str(a[2]), z3.StringVal('/'), comp), 'str'), a[3])
                return (a[2], a[3])
            # C09.Number.apply.clean + C09.number.fresh + A-fs (a plain name exists in d iff it is listed in d)
            assume_clean(ctx, comp)
            ctx.assume(z3.Not(EX(z3.Concat(z3str(a[2]), z3.StringVal('/'), comp))))
            return (a[2], Sym(comp, 'str'))
        it.hooks[f'{NAMING}:{sname}.apply'] = c_apply
        state = {}

        start_dir = sstr(ctx, 'initial_download_directory')

        def loop(it2, node, env):
            from pyvc.interp import ContinueEx, BreakEx
            dirs = [k for k, v in env.vars.items() if v is start_dir and k not in ('local_dir',)] or [k for k, v in env.vars.items() if v is start_dir]
            names = [k for k, v in env.vars.items() if isinstance(v, str) and v == '']
            if len(dirs) != 1 or len(names) != 1:
                raise Unsupported(f'chain_strategies: cannot identify the carried directory / file name among {dirs} / {names}')
            dvar, nvar = dirs[0], names[0]
            env.vars[dvar], env.vars[nvar] = path, fn
            it2.assign(node.target, s, env)
            try:
                it2.exec_block(node.body, env)
            except (ContinueEx, BreakEx):
                pass
            state['path'], state['filename'] = env.vars[dvar], env.vars[nvar]
        it.loop_specs[(f'{NAMING}:chain_strategies', 0)] = loop
        ctx.assume(z3.Implies(EX(z3str(it.call(it.natives['os.path.join'], [path, fn], {}))), EX(path.t)))       # A-fs
        it.call(func(it, NAMING, 'chain_strategies'), [[s], sstr(ctx, 'remote_path'), start_dir], {})
        if 'path' not in state:
            raise Unsupported('chain_strategies: the loop over the strategies was not reached')
        p2, f2 = z3str(state['path']), z3str(state['filename'])
        full = z3str(it.call(it.natives['os.path.join'], [Sym(p2, 'str'), Sym(f2, 'str')], {}))
        ctx.prove(f'C09.chain.not-exists[last={sname}]', z3.Not(EX(full)),
                  'the path chosen by a chain that ends with this strategy may exist already: the existing file is appended to')
    ex.run(last, 'chain-last')

    def installed(ctx: Ctx):
        """SharesManager.__init__ installs [DefaultNamingStrategy(), NumberDuplicateStrategy()] (the assignment is evaluated from the AST)"""
        import ast
        it = mk(src_root, ctx)
        init_node = [n for m, q, n in it.source.functions() if m.name.endswith('shares.manager') and q == 'SharesManager.__init__'][0]
        names = None
        for node in ast.walk(init_node):
            if isinstance(node, ast.Assign) and any(isinstance(t, ast.Attribute) and t.attr == 'naming_strategies' for t in node.targets):
                v = node.value
                if isinstance(v, ast.List) and all(isinstance(e, ast.Call) and isinstance(e.func, ast.Name) and not e.args and not e.keywords for e in v.elts):
                    names = [e.func.id for e in v.elts]
        ctx.prove('C09.installed-chain', names == ['DefaultNamingStrategy', 'NumberDuplicateStrategy'],
                  f'SharesManager installs the chain {names}: not (default name, then number duplicates)')
    ex.run(installed, 'installed')

    def init(ctx: Ctx):
        it = mk(src_root, ctx)
        install_os(it, ctx)
        D = sstr(ctx, 'D')
        r = it.call(func(it, NAMING, 'chain_strategies'), [[], sstr(ctx, 'remote_path'), D], {})
        ctx.prove('C09.chain.init', z3.And(z3str(r[0]) == D.t, z3.BoolVal(unbox(r[1]) == '')), 'the chain starts at the download directory with no name')
    ex.run(init, 'chain-init')


def prove_download_path(src_root, ex: Explorer):
    def calc(ctx: Ctx):
        it = mk(src_root, ctx)
        install_os(it, ctx)
        it.natives['os.path.abspath'] = Native('abspath', lambda it2, a, k: ('abs', a[0]))
        calls = []
        it.hooks[f'{NAMING}:chain_strategies'] = lambda it2, f, a, k: (calls.append(a), ('DIR', 'NAME'))[1]
        strategies = [Opaque('s1'), Opaque('s2')]
        sm = new(it, 'shares.manager', 'SharesManager', naming_strategies=strategies, _settings=Stub('settings', shares=Stub('shares', download='dl')))
        rp = sstr(ctx, 'remote_path')
        r = it.call(it.getattr(sm, 'calculate_download_path'), [rp], {})
        ctx.prove('C09.calculate_download_path', r == ('DIR', 'NAME') and len(calls) == 1 and calls[0][0] is strategies and calls[0][1] is rp and calls[0][2] == ('abs', 'dl'),
                  'the chain starts at the ABSOLUTE configured download directory')
    ex.run(calc, 'calculate_download_path')

    def prepare(ctx: Ctx):
        it = mk(src_root, ctx)
        install_os(it, ctx)
        it.natives['os.path.split'] = Native('split', lambda it2, a, k: (('dirname', a[0]), ('basename', a[0])))
        has = ctx.choose(2, 'local_path-set') == 1
        created = []
        shares = Stub('shares', calculate_download_path=Recorder('calc', ret=(Sym(z3.StringVal('/dl'), 'str'), Sym(z3.StringVal('f.mp3'), 'str'))),
                      create_directory=Recorder('mkdir', fn=lambda it2, a, k: created.append(a[0]), is_async=True))
        old = Sym(z3.StringVal('/dl/old.mp3'), 'str')
        t = new(it, 'transfer.model', 'Transfer', remote_path='r', local_path=old if has else None)
        mgr = new(it, 'transfer.manager', 'TransferManager', _shares_manager=shares)
        run(it, it.getattr(mgr, '_prepare_download_path'), t)
        lp = t.attrs['local_path']
        if has:
            ctx.prove('C09.prepare.keeps-path', lp is old and not shares.attrs['calculate_download_path'].calls, 'a download that already has a local path (resume) keeps it')
        else:
            ctx.prove('C09.prepare.sets-path', z3str(lp) == z3.StringVal('/dl/f.mp3') and len(shares.attrs['calculate_download_path'].calls) == 1)
        ctx.prove(f'C09.prepare.creates-directory[{has}]', len(created) == 1 and created[0] == ('dirname', lp))
    ex.run(prepare, 'prepare')

    def mkdir_fails(ctx: Ctx):
        """the ONLY local path a download is ever given is the one the chain produced (C09.chain.*: inside the download directory, a
        plain file name, not existing): when the directory cannot be created the error surfaces (the caller fails the download) - no
        other path is substituted, because nothing was proved about any other path"""
        import posixpath
        it = mk(src_root, ctx)
        install_os(it, ctx)
        it.natives['os.path.split'] = Native('split', lambda it2, a, k: posixpath.split(unbox(a[0])))
        it.natives['os.path.join'] = Native('join', lambda it2, a, k: posixpath.join(*[unbox(x) for x in a]))

        def mkdir(it2, a, k):
            it2.throw('OSError', 'File name too long')
        shares = Stub('shares', calculate_download_path=Recorder('calc', ret=('/dl/Some Album', 'f.mp3')),
                      create_directory=Recorder('mkdir', fn=mkdir, is_async=True),
                      get_download_directory=Recorder('get_download_directory', ret='/dl'),
                      _settings=Stub('settings', shares=Stub('shares', download='/dl')))
        t = new(it, 'transfer.model', 'Transfer', remote_path='r', local_path=None)
        mgr = new(it, 'transfer.manager', 'TransferManager', _shares_manager=shares, _settings=shares.attrs['_settings'])
        try:
            run(it, it.getattr(mgr, '_prepare_download_path'), t)
            raised = None
        except PyRaise as pr:
            raised = pr.exc.cls.name
        lp = t.attrs['local_path']
        ctx.prove('C09.prepare.path-only-from-chain', lp in (None, '/dl/Some Album/f.mp3') and raised == 'OSError',
                  f'the directory chosen by the strategies could not be created: the download was given {lp!r} (raised: {raised}) instead of '
                  'failing - a path the chain did not produce was never checked for existence or containment')
    ex.run(mkdir_fails, 'prepare-mkdir-fails')

    def unique(ctx: Ctx):
        """class invariant over active downloads: t1 != t2 => local_path(t1) != local_path(t2).  _prepare_download_path yields
        (create_directory) between choosing the name and the moment the file exists (aiofiles.open): at that yield another
        download of an equally named file runs the same code and sees the same directory listing."""
        it = mk(src_root, ctx)
        install_os(it, ctx)
        it.natives['os.path.split'] = Native('split', lambda it2, a, k: (('dirname', a[0]), ('basename', a[0])))
        files = set()                   # the file system: names that exist in the download directory

        def calc(it2, a, k):
            # DefaultNamingStrategy + NumberDuplicateStrategy by their contracts on a concrete directory state
            name = 'song.mp3'
            if name in files:
                i = 1
                while f'song ({i}).mp3' in files:
                    i += 1
                name = f'song ({i}).mp3'
            return ('/dl', name)
        shares = Stub('shares', calculate_download_path=Recorder('calc', fn=calc), create_directory=Recorder('mkdir', is_async=True))
        mgr = new(it, 'transfer.manager', 'TransferManager', _shares_manager=shares)
        t1 = new(it, 'transfer.model', 'Transfer', remote_path='alice\\\\song.mp3', local_path=None)
        t2 = new(it, 'transfer.model', 'Transfer', remote_path='bob\\\\song.mp3', local_path=None)
        second_started = []

        def on_yield(it2, label):
            # the other download's start-up is scheduled in the window
            if label == 'mkdir' and not second_started:
                second_started.append(1)
                it2.await_value(it2.call(it2.getattr(mgr, '_prepare_download_path'), [t2], {}))
        it.aio.on_yield = on_yield
        run(it, it.getattr(mgr, '_prepare_download_path'), t1)
        p1, p2 = t1.attrs['local_path'], t2.attrs['local_path']
        ctx.prove('C09.prepare.unique', z3.simplify(z3str(p1) != z3str(p2)),
                  'two downloads of equally named files that start together are given the same local path (the name is chosen with '
                  'exists()/listdir() before the file is created): both append to one file')
    ex.run(unique, 'unique')


def prove_window(src_root, ex: Explorer):
    """Pin of the check-then-create window (the recorded finding C09.prepare.unique is that this window exists at all).  Whole-tree scan:
    the local path is chosen in ONE place - _prepare_download_path, called by _download_file only - and between that call and the
    creation of the file (aiofiles.open) _download_file suspends on nothing but the state transition to DOWNLOADING.  A change that
    chooses the path earlier (before the offset is negotiated, say) widens the window in which another download can be given the same
    path and is reported here."""
    import ast
    ctx = Ctx(ex, [])
    src, _ = source(src_root)
    callers, awaits_between = [], None
    for mod, qn, node in src.functions():
        for sub in ast.walk(node):
            if isinstance(sub, ast.Call) and isinstance(sub.func, ast.Attribute) and sub.func.attr == '_prepare_download_path':
                callers.append(qn)
        if qn.endswith('TransferManager._download_file'):
            seq = []
            for sub in ast.walk(node):
                if isinstance(sub, ast.Await):
                    seq.append((sub.lineno, 'await', ast.unparse(sub.value)[:60]))
                if isinstance(sub, ast.Call) and ast.unparse(sub.func) == 'aiofiles.open':
                    seq.append((sub.lineno, 'open', ''))
            seq.sort()
            idx_p = [i for i, s_ in enumerate(seq) if '_prepare_download_path' in s_[2]]
            idx_o = [i for i, s_ in enumerate(seq) if s_[1] == 'open']
            if idx_p and idx_o:
                awaits_between = [s_[2] for s_ in seq[idx_p[0] + 1:idx_o[0]] if s_[1] == 'await']
    # awaits inside the except OSError handler of the preparation do not lie on the path to open(): only count those after it
    on_path = [a for a in (awaits_between or []) if 'disconnect' not in a and '.fail(' not in a]
    ctx.prove('C09.prepare.window', sorted(set(callers)) == ['TransferManager._download_file'] and awaits_between is not None
              and all('start_transferring' in a for a in on_path) and len(on_path) <= 1,
              f'the local path is chosen by {sorted(set(callers))}; suspensions between the choice and the creation of the file: {on_path}')


def prove_requeue_clears_path(src_root, ex: Explorer):
    """_prepare_download_path keeps a local path that is already set (C09.prepare.keeps-path: resuming an interrupted download).  A download
    that starts over from a FINISHED file (COMPLETE -> QUEUED) or from a file that was removed (ABORTED -> QUEUED) must therefore have its
    local path cleared by queue(): otherwise the new attempt is given a path that was chosen long ago - it exists (the finished file is
    appended to) or was taken by another download meanwhile."""
    from contracts import C03

    def path(ctx: Ctx):
        it = mk(src_root, ctx)
        effects: list = []
        C03.install_env(it, ctx, effects)
        sname = ['CompleteState', 'AbortedState'][ctx.choose(2, 'state')]
        notified: list = []
        t, lock = C03.mk_transfer(it, ctx, 'DOWNLOAD', notified)
        st = it.call(cls(it, 'transfer.state', sname), [t], {})
        t.attrs['state'] = st
        t.attrs['local_path'] = '/dl/song.mp3'
        t.attrs['filesize'] = 10
        t.attrs['bytes_transfered'] = 10
        lock.locked = True
        r = run(it, it.getattr(st, 'queue'))
        if it.truth(r) is True:
            ctx.prove(f'C09.requeue.clears-path[{sname[:-5].upper()}]', t.attrs['local_path'] is None,
                      f'the download starts over but keeps the local path {t.attrs["local_path"]!r} chosen for the previous attempt')
        else:
            ctx.fail(f'C09.requeue.clears-path[{sname[:-5].upper()}]', 'queue() refused')
    ex.run(path, 'requeue-clears-path')


def prove_removal_clears_path(src_root, ex: Explorer):
    """A download whose local path is set holds that name: the file exists (created right after the choice, C09.prepare.window), so the
    duplicate strategy of another download sees it.  Removing the file while the path stays set gives the name away - the next download
    of an equally named file takes it and both write to one file.  (a) whole-tree scan: every call that removes a file named by some
    `.local_path` is followed, in the same function, by `<transfer>.local_path = None`; (b) the one helper that does it today is executed:
    whenever it returns, the path is cleared."""
    import ast
    src, _ = source(src_root)

    def scan(ctx: Ctx):
        sites = []
        for mod, qn, node in src.functions():
            for sub in ast.walk(node):
                if isinstance(sub, ast.Call) and isinstance(sub.func, ast.Attribute) and sub.func.attr in ('remove', 'unlink', 'rmtree') \
                        and any('local_path' in ast.unparse(a) for a in sub.args) \
                        and ast.unparse(sub.func.value).split('.')[0] in ('os', 'asyncos', 'aiofiles', 'shutil', 'pathlib'):
                    cleared = any(isinstance(st, ast.Assign) and st.lineno > sub.lineno and isinstance(st.value, ast.Constant) and st.value.value is None
                                  and any(isinstance(tg, ast.Attribute) and tg.attr == 'local_path' for tg in st.targets) for st in ast.walk(node))
                    sites.append((qn, sub.lineno, cleared))
        ctx.prove('C09.local-file.removal-clears-path', bool(sites) and all(c for _q, _l, c in sites),
                  f'file removals of a local path (function, line, path cleared afterwards): {sites}')
    ex.run(scan, 'removal-sites')

    def helper(ctx: Ctx):
        from contracts import C03
        it = mk(src_root, ctx)
        effects: list = []
        C03.install_env(it, ctx, effects)
        t, _lock = C03.mk_transfer(it, ctx, 'DOWNLOAD', [])
        t.attrs['local_path'] = '/dl/song.mp3'
        run(it, func(it, 'transfer.state', '_remove_local_file'), t)
        ctx.prove('C09.local-file._remove_local_file.clears-path', t.attrs['local_path'] is None,
                  f'effects {effects}: the helper returned with the local path still set')
    ex.run(helper, 'removal-helper')


def prove_one_attempt_relies(src_root, ex: Explorer):
    """Two attempts of the SAME download must not run at once either (both would append to the one local path): a second
    PeerTransferRequest while the first initialisation is in flight starts nothing (C06.slot-free#_on_peer_transfer_request), discharged
    here as well."""
    from contracts import C06
    C06.prove_transfer_request_site(src_root, ex)
    for ob in ex.obligations:
        if ob.name.startswith('C06.'):
            ob.name = 'C09.one-attempt-per-path.' + ob.name[4:]


def items(src_root, tier):
    return [('one-attempt', None), ('removal', None), ('requeue', None), ('split', None), ('strategies', None), ('chain', None), ('path', None), ('window', None)]


def run_item(src_root, item, tier):
    res = std_result('C09')
    ex = Explorer()
    kind, arg = item
    try:
        {'split': prove_split, 'strategies': prove_strategies, 'chain': prove_chain, 'path': prove_download_path, 'window': prove_window,
         'requeue': prove_requeue_clears_path, 'removal': prove_removal_clears_path, 'one-attempt': prove_one_attempt_relies}[kind](src_root, ex)
    except Unsupported as e:
        res.errors.append(f'{kind}: unsupported: {e}')
    collect(res, ex)
    res.functions.update([f'{UTILS}:split_remote_path', f'{NAMING}:DefaultNamingStrategy.apply', f'{NAMING}:KeepDirectoryStrategy.apply',
                          f'{NAMING}:NumberDuplicateStrategy.apply', f'{NAMING}:DuplicateNamingStrategy.should_be_applied', f'{NAMING}:chain_strategies',
                          'shares.manager:SharesManager.calculate_download_path', 'shares.manager:SharesManager.get_download_directory',
                          'transfer.manager:TransferManager._prepare_download_path', 'transfer.state:CompleteState.queue', 'transfer.state:AbortedState.queue'])
    return res
