"""Shared harness helpers for the sidecar contract modules."""
from __future__ import annotations
import ast
from typing import Any, Optional

import z3

from pyvc.ctx import Ctx, Explorer, Unsupported, PathAbort
from pyvc.interp import Interp, ClassTable, CoroVal, Env
from pyvc.loader import Source
from pyvc.values import (Sym, Boxed, Obj, ClassVal, BuiltinClass, BUILTIN_CLASSES, PyRaise, Native, Bound, PyFunc,
                         ExcVal, EnumMember, Opaque, unbox, z3int)
from pyvc import natives as N
from pyvc import aio as A

_SRC: dict = {}
_TABLE: dict = {}


def source(src_root):
    if src_root not in _SRC:
        _SRC[src_root] = Source(src_root)
        _TABLE[src_root] = ClassTable(_SRC[src_root])
    return _SRC[src_root], _TABLE[src_root]


def mk(src_root, ctx: Ctx) -> Interp:
    src, table = source(src_root)
    it = Interp(src, ctx, table)
    A.install(it)
    return it


def cls(it: Interp, modname: str, name: str):
    v = it.module_global(it.source.module(modname), name.split('.')[0])
    for part in name.split('.')[1:]:
        v = it.class_attr(v, part)
    return v


def func(it: Interp, modname: str, name: str):
    return it.module_global(it.source.module(modname), name)


def new(it: Interp, modname: str, clsname: str, /, **attrs) -> Obj:
    """An object of a repo class *without* running __init__ (symbolic pre-state); fields given explicitly."""
    o = Obj(cls(it, modname, clsname))
    o.attrs.update(attrs)
    it.attach_future(o)
    return o


def construct(it: Interp, modname: str, name: str, *args, **kwargs):
    return it.call(cls(it, modname, name), list(args), kwargs)


def enum(it: Interp, modname: str, name: str, member: str) -> EnumMember:
    c = cls(it, modname, name)
    for m in c.enum_members:
        if m.name == member:
            return m
    raise KeyError(member)


def run(it: Interp, f, *args, **kwargs):
    """Call a (possibly async) repo function and run it to completion in this activation."""
    r = it.call(f, list(args), kwargs)
    if isinstance(r, CoroVal):
        return it.await_value(r)
    return r


def method(it: Interp, obj, name: str):
    return it.getattr(obj, name)


def exc_is(it: Interp, exc: ExcVal, name: str) -> bool:
    return any(getattr(c, 'name', None) == name for c in exc.cls.mro)


def is_exception(it: Interp, exc: ExcVal) -> bool:
    """Subclass of Exception (not merely BaseException)?"""
    return it.is_subclass(exc.cls, BUILTIN_CLASSES['Exception'])


# positional parameter names of the real methods that stand-ins replace (so that a call by keyword reaches the stand-in by position)
STUB_PARAMS = {
    'is_blocked': ('username', 'flag'), 'emit': ('event',), 'get_user_object': ('username',), 'track_user': ('username', 'flag'),
    'untrack_user': ('username', 'flag'), 'disconnect': ('reason',), 'queue_message': ('message',), 'send_message': ('message',),
    'send': ('message',), 'get_shared_item': ('remote_path', 'username'), 'find_shared_item': ('remote_path', 'username'),
    'create_directory': ('absolute_path',), 'calculate_download_path': ('remote_path',), 'calc': ('remote_path',), 'mkdir': ('absolute_path',),
}


class Recorder:
    """Callable stand-in for a collaborator method: records calls, returns a fixed value / runs a function."""

    def __init__(self, name, ret=None, fn=None, is_async=False, aio=None, yields=True, params=None):
        self.name = name
        self.params = params
        self.calls: list = []
        self.ret = ret
        self.fn = fn
        self.is_async = is_async
        self.aio = aio
        self.yields = yields

    def pyvc_call(self, it, args, kwargs):
        # stand-ins are read by position; the analysed code may pass the same arguments by keyword (parameter names of the real methods)
        params = self.params or STUB_PARAMS.get(self.name)
        if params and kwargs:
            args = list(args)
            for nm in params[len(args):]:
                if nm in kwargs:
                    args.append(kwargs[nm])
                else:
                    break
        self.calls.append((args, kwargs))
        if self.is_async:
            def body(it2):
                return self.fn(it2, args, kwargs) if self.fn else self.ret
            return A.SimpleAwaitable(self.aio or it.aio, self.name, body, yields=self.yields)
        return self.fn(it, args, kwargs) if self.fn else self.ret

    def pyvc_truth(self, it):
        return True

    def __repr__(self):
        return f'<recorder {self.name}>'


class Stub:
    """Object whose attributes are given explicitly (collaborator boundary: network, event bus, settings...)."""

    def __init__(self, _stubname, /, **attrs):
        self._name = _stubname
        self.attrs = dict(attrs)

    def pyvc_getattr(self, it, name):
        if name in self.attrs:
            return self.attrs[name]
        raise Unsupported(f'stub {self._name} has no attribute {name}')

    def pyvc_setattr(self, it, name, value):
        self.attrs[name] = value

    def pyvc_truth(self, it):
        return True

    def __repr__(self):
        return f'<stub {self._name}>'


def std_result(prop):
    from pyvc.report import Result
    return Result(prop)


def collect(res, ex: Explorer):
    res.add(ex.obligations)
    res.errors.extend(ex.errors)
    res.stats.merge(ex.stats)
    res.externs.update(N.EXTERNS_USED)
