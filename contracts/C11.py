"""C11 -- connecting to a peer succeeds iff a path works, and leaves nothing behind.  DESIGN.md section 4 / C11.

Exit-path contracts: asserted at return, at every escaping exception AND at the CancelledError successor of every await."""
from __future__ import annotations

import z3

from pyvc.ctx import Ctx, Explorer, Unsupported, PathAbort
from pyvc.interp import Interp, CoroVal
from pyvc.values import (Sym, Obj, PyRaise, Native, Bound, ExcVal, EnumMember, Opaque, unbox, z3int, z3str, BUILTIN_CLASSES)
from pyvc import natives as N
from pyvc import aio as A
from contracts.common import (source, mk, cls, func, new, run, enum, Recorder, Stub, collect, std_result)
from contracts.C10 import NetWorld, CONN, NET

MSG = 'protocol.messages'

ASSUMPTIONS = [
    'A-asyncio: asyncio.wait returns (done, pending); a cancelled task/future that is awaited is done afterwards; done-callbacks run later',
    'the outcomes of the two sub-attempts in race mode are taken from their own exit-path contracts (C11.direct.exit / C11.indirect.exit)',
    'cancellation of the running activation is explored at every yield point',
    'C10 contracts (connect / disconnect / send_message of a connection)',
]
TRUSTED_BASE = ['pyvc engine', 'abstract asyncio model']
NOT_DECIDED = ['"returns a usable connection WHENEVER one of the attempts can succeed": success of an attempt is a fact about the environment '
               'over time; the contracts give the case analysis on outcomes, not the existence of an outcome']


def exc(it, name, *args):
    return ExcVal(cls(it, 'exceptions', name), args)


def mk_network(it, ctx):
    w = NetWorld(it, ctx)
    server_sent = []
    sc = Stub('server_connection', send_message=Recorder('send_message', fn=lambda it2, a, k: server_sent.append(a[0]), is_async=True))
    emitted = []
    settings = Stub('settings', credentials=Stub('credentials', username='me'),
                    network=Stub('network', peer=Stub('peer', obfuscate=False, connect_mode=None)))
    net = new(it, NET, 'Network', _settings=settings, server_connection=sc, peer_connections=w.registry, _expected_connection_futures={},
              _expected_response_futures=[], _ip_overrides={}, _create_peer_connection_tasks=[],
              _event_bus=Stub('bus', emit=Recorder('emit', fn=lambda it2, a, k: emitted.append(a[0]), is_async=True)),
              _upload_rate_limiter=Opaque('ul'), _download_rate_limiter=Opaque('dl'))

    class Gen:
        def pyvc_next(self, it2):
            return 77
    net.attrs['_ticket_generator'] = Gen()
    w.net, w.server_sent, w.emitted, w.sc = net, server_sent, emitted, sc
    return w


def waiters(w):
    """pending waiters for the ticket / for a cannot-connect notice that are NOT done (=> their removal callback will not run)"""
    out = []
    for f in w.net.attrs['_expected_connection_futures'].values():
        if f.ghost['future'].done is not True:
            out.append('ticket-waiter')
    for f in w.net.attrs['_expected_response_futures']:
        if f.ghost['future'].done is not True:
            out.append('notice-waiter')
    return out


def cancel_at(index):
    def hook(it, label):
        return len(it.aio.yields) - 1 == index
    return hook


# ---------------------------------------------------------------------------

def prove_indirect(src_root, ex: Explorer):
    outcomes = ['pierced', 'cannot-connect', 'timeout', 'send-fails', 'cancel@send', 'cancel@wait']

    def path(ctx: Ctx):
        it = mk(src_root, ctx)
        w = mk_network(it, ctx)
        oc = outcomes[ctx.choose(len(outcomes), 'outcome')]
        pierced_conn = w.data_connection(state='CONNECTED')
        at_send = []
        if oc == 'send-fails':
            w.sc.attrs['send_message'] = Recorder('send_message', fn=lambda it2, a, k: (_ for _ in ()).throw(PyRaise(exc(it2, 'ConnectionWriteError', 'x'))), is_async=True)
        else:
            orig_send = w.sc.attrs['send_message']

            def send_and_look(it2, a, k):
                # the peer may answer while the request is still being written: the ticket has to be awaited already
                at_send.append(77 in w.net.attrs['_expected_connection_futures'])
                return orig_send.fn(it2, a, k) if orig_send.fn else None
            w.sc.attrs['send_message'] = Recorder('send_message', fn=send_and_look, is_async=True)
        if oc == 'cancel@send':
            it.aio.cancel_at = cancel_at(0)
        if oc == 'cancel@wait':
            it.aio.cancel_at = cancel_at(1)

        def policy(it2, items, k):
            tick = [x for x in items if x.cls.name == 'PeerFuture'][0]
            notice = [x for x in items if x.cls.name == 'ExpectedResponse'][0]
            if oc == 'pierced':
                tick.ghost['future'].result_val = pierced_conn
                tick.ghost['future'].complete(it2)
                return [tick], [notice]
            if oc == 'cannot-connect':
                notice.ghost['future'].result_val = ('conn', 'msg')
                notice.ghost['future'].complete(it2)
                return [notice], [tick]
            return [], [tick, notice]
        it.aio.wait_policy = policy
        try:
            r = run(it, it.getattr(w.net, '_make_indirect_connection'), 77, 'bob', 'P')
            raised = None
        except PyRaise as pr:
            r, raised = None, pr.exc.cls.name
        if oc.startswith('cancel@') and raised != 'CancelledError':
            raise PathAbort()            # the un-cancelled alternative of this yield point is covered by the other outcomes
        left = waiters(w)
        ctx.prove(f'C11.indirect.exit[{oc}].no-waiters', not left,
                  f'on this exit the {" and the ".join(left)} for ticket 77 stay pending for ever: a late pierce would hand a connection to nobody, '
                  f'a late CannotConnect would be matched against a dead request')
        if oc == 'pierced':
            ctx.prove('C11.indirect.waiter-registered-before-send', at_send == [True],
                      'ConnectToPeer is sent before the ticket is awaited: a PeerPierceFirewall that arrives while the send is pending is dropped as an unknown ticket')
            ctx.prove('C11.indirect.exit[pierced].result', r is pierced_conn and raised is None)
            m = [x for x in w.server_sent if x.cls.qual == 'ConnectToPeer.Request']
            ctx.prove('C11.indirect.request', len(m) == 1 and m[0].attrs['ticket'] == 77 and m[0].attrs['username'] == 'bob' and m[0].attrs['typ'] == 'P')
        elif oc in ('cannot-connect', 'timeout'):
            ctx.prove(f'C11.indirect.exit[{oc}].result', raised == 'PeerConnectionError')
        elif oc == 'send-fails':
            ctx.prove('C11.indirect.exit[send-fails].result', raised in ('ConnectionWriteError', 'PeerConnectionError'))
        else:
            ctx.prove(f'C11.indirect.exit[{oc}].result', raised == 'CancelledError')
        # registration: ticket future registered with its removal callback
        if oc == 'pierced':
            ctx.ok('C11.indirect.registered')
    ex.run(path, 'indirect')

    def removal(ctx: Ctx):
        it = mk(src_root, ctx)
        w = mk_network(it, ctx)
        f = new(it, NET, 'PeerFuture', ticket=77, username='bob', typ='P')
        w.net.attrs['_expected_connection_futures'][77] = f
        it.call(it.getattr(w.net, '_remove_connection_future'), [77, f], {})
        ctx.prove('C11._remove_connection_future', 77 not in w.net.attrs['_expected_connection_futures'])
    ex.run(removal, 'indirect-removal')


def prove_direct(src_root, ex: Explorer):
    outcomes = ['ok', 'address-fails', 'connect-fails', 'init-send-fails'] + [f'cancel@{i}' for i in range(4)]

    def path(ctx: Ctx):
        it = mk(src_root, ctx)
        w = mk_network(it, ctx)
        oc = outcomes[ctx.choose(len(outcomes), 'outcome')]
        given = ctx.choose(2, 'address-given') == 1
        created = []
        order = []

        def c_get_addr(it2, f, a, k):
            def body(it3):
                order.append('address')
                if oc == 'address-fails':
                    raise PyRaise(exc(it3, 'PeerConnectionError', 'no address'))
                return ('1.2.3.4', 10, 0)
            return A.SimpleAwaitable(it2.aio, '_get_peer_address', body)
        it.hooks[f'{NET}:Network._get_peer_address'] = c_get_addr

        class ConnectAwaitable:
            """PeerConnection.connect() by its C10 contract (C10.connect.exit): CONNECTED on return; CLOSED and unregistered
            before ConnectionFailedError AND before a CancelledError leaves it"""

            def __init__(self, conn):
                self.conn = conn

            def pyvc_await(self, it3):
                conn = self.conn
                order.append(('connect', any(x is conn for x in w.registry), conn.attrs['state'].name))
                try:
                    it3.aio.yield_point('connect')
                except PyRaise:
                    conn.attrs['state'] = enum(it3, CONN, 'ConnectionState', 'CLOSED')
                    w.registry[:] = [x for x in w.registry if x is not conn]
                    raise
                if oc == 'connect-fails':
                    conn.attrs['state'] = enum(it3, CONN, 'ConnectionState', 'CLOSED')
                    w.registry[:] = [x for x in w.registry if x is not conn]
                    raise PyRaise(exc(it3, 'ConnectionFailedError', 'refused'))
                conn.attrs['state'] = enum(it3, CONN, 'ConnectionState', 'CONNECTED')

        def c_connect(it2, f, a, k):
            created.append(a[0])
            return ConnectAwaitable(a[0])
        it.hooks[f'{CONN}:PeerConnection.connect'] = c_connect

        def c_send(it2, f, a, k):
            conn = a[0]

            def body(it3):
                order.append(('send', a[1]))
                if oc == 'init-send-fails':
                    conn.attrs['state'] = enum(it3, CONN, 'ConnectionState', 'CLOSED')      # C10._send.failure-closes
                    w.registry[:] = [x for x in w.registry if x is not conn]
                    raise PyRaise(exc(it3, 'ConnectionWriteError', 'x'))
            return A.SimpleAwaitable(it2.aio, 'send_message', body)
        it.hooks[f'{CONN}:DataConnection.send_message'] = c_send

        def c_disconnect(it2, f, a, k):
            conn = a[0]

            def body(it3):
                conn.attrs['state'] = enum(it3, CONN, 'ConnectionState', 'CLOSED')
                w.registry[:] = [x for x in w.registry if x is not conn]
            return A.SimpleAwaitable(it2.aio, 'disconnect', body)
        it.hooks[f'{CONN}:DataConnection.disconnect'] = c_disconnect
        it.hooks[f'{CONN}:PeerConnection.set_connection_state'] = lambda it2, f, a, k: a[0].attrs.__setitem__('connection_state', a[1])
        if oc.startswith('cancel@'):
            idx = int(oc[7:])
            it.aio.cancel_at = cancel_at(idx)
        args = dict(ip='1.2.3.4', port=10) if given else {}
        try:
            r = run(it, it.getattr(w.net, '_make_direct_connection'), 77, 'bob', 'P', **args)
            raised = None
        except PyRaise as pr:
            r, raised = None, pr.exc.cls.name
        if oc.startswith('cancel@') and raised != 'CancelledError':
            raise PathAbort()           # fewer yield points on this path than the cancellation index
        tag = f'{oc},{"given" if given else "lookup"}'
        conn = created[0] if created else None
        if raised is None:
            ok = r is conn and conn.attrs['state'].name == 'CONNECTED' and any(x is conn for x in w.registry) \
                and conn.attrs['connection_state'].name == 'ESTABLISHED'
            sends = [o[1] for o in order if isinstance(o, tuple) and o[0] == 'send']
            ok = ok and len(sends) == 1 and sends[0].cls.qual == 'PeerInit.Request' and sends[0].attrs['username'] == 'me' \
                and sends[0].attrs['typ'] == 'P' and sends[0].attrs['ticket'] == 77
            ctx.prove(f'C11.direct.exit[{tag}].success', ok, 'success: CONNECTED, registered, PeerInit(me, typ, ticket) first, state finalised')
            ev = [e for e in w.emitted if e.cls.name == 'PeerInitializedEvent']
            ctx.prove(f'C11.direct.exit[{tag}].event', len(ev) == 1 and ev[0].attrs['connection'] is conn and ev[0].attrs['requested'] is True)
        else:
            leftover = [x for x in w.registry]
            ctx.prove(f'C11.direct.exit[{tag}].nothing-left', not leftover and (conn is None or conn.attrs['state'].name == 'CLOSED'),
                      f'the attempt ended with {raised} but its connection is {conn.attrs["state"].name if conn else None} and '
                      f'{"still registered" if leftover else "unregistered"}: a failed or cancelled attempt must leave its socket closed and unregistered')
            if not oc.startswith('cancel@'):
                ctx.prove(f'C11.direct.exit[{tag}].error-type', raised in ('PeerConnectionError', 'ConnectionFailedError', 'ConnectionWriteError'))
        reg = [o for o in order if isinstance(o, tuple) and o[0] == 'connect']
        if reg:
            ctx.prove(f'C10.registry.add#_make_direct_connection[{tag}]', reg[0][1] is True, 'registered before the first yield of the attempt')
            ctx.prove(f'C10.connect.fresh#_make_direct_connection[{tag}]', all(o[2] == 'UNINITIALIZED' for o in reg),
                      f'connect() called on a peer connection that is {[o[2] for o in reg]}: a peer connection is connected once (closed -> connecting is not monotone)')
    ex.run(path, 'direct')


def prove_fallback(src_root, ex: Explorer):
    # every way the direct attempt can fail according to its exit-path contract (C11.direct.exit[*]): the TCP connect fails, the peer has no
    # usable port / the address lookup fails (PeerConnectionError), or a send fails (GetPeerAddress to the server, PeerInit to the peer)
    direct_outs = ['ok', 'ConnectionFailedError', 'PeerConnectionError', 'ConnectionWriteError']
    outs = ['ok', 'fail']

    def path(ctx: Ctx):
        it = mk(src_root, ctx)
        w = mk_network(it, ctx)
        d, i = direct_outs[ctx.choose(4, 'direct')], outs[ctx.choose(2, 'indirect')]
        c1, c2 = w.data_connection(state='CONNECTED'), w.data_connection(state='CONNECTED')
        calls = []

        def c_direct(it2, f, a, k):
            def body(it3):
                calls.append('direct')
                if d != 'ok':
                    raise PyRaise(exc(it3, d, 'x'))
                return c1
            return A.SimpleAwaitable(it2.aio, 'direct', body)

        def c_indirect(it2, f, a, k):
            def body(it3):
                calls.append('indirect')
                if i == 'fail':
                    raise PyRaise(exc(it3, 'PeerConnectionError', 'x'))
                return c2
            return A.SimpleAwaitable(it2.aio, 'indirect', body)
        it.hooks[f'{NET}:Network._make_direct_connection'] = c_direct
        it.hooks[f'{NET}:Network._make_indirect_connection'] = c_indirect
        try:
            r = run(it, it.getattr(w.net, '_create_peer_connection_fallback'), 77, 'bob', 'P')
            raised = None
        except PyRaise as pr:
            r, raised = None, pr.exc.cls.name
        tag = f'direct={d if d == "ok" else "fail"},indirect={i}' if d in ('ok', 'ConnectionFailedError') else f'direct={d},indirect={i}'
        if d == 'ok':
            ctx.prove(f'C11.fallback.exit[{tag}]', r is c1 and calls == ['direct'])
        elif i == 'ok':
            ctx.prove(f'C11.fallback.exit[{tag}]', r is c2 and calls == ['direct', 'indirect'],
                      f'the direct attempt failed with {d}: the indirect attempt must be made and its connection returned (raised: {raised})')
        else:
            ctx.prove(f'C11.fallback.exit[{tag}]', raised == 'PeerConnectionError' and calls == ['direct', 'indirect'])
    ex.run(path, 'fallback')


def prove_race(src_root, ex: Explorer):
    """outcome of each sub-attempt: ok / fail / slow (still pending when the other one finishes)"""
    cases = [('ok', 'slow'), ('slow', 'ok'), ('ok', 'ok'), ('fail', 'ok'), ('ok', 'fail'), ('fail', 'fail'), ('fail', 'slow-ok'), ('slow-ok', 'fail'),
             ('cancel', 'cancel')]

    def path(ctx: Ctx):
        it = mk(src_root, ctx)
        w = mk_network(it, ctx)
        d, i = cases[ctx.choose(len(cases), 'case')]
        c1, c2 = w.data_connection(state='CONNECTED'), w.data_connection(state='CONNECTED')
        for c in (c1, c2):
            w.registry.append(c)
        disc = []

        def c_disconnect(it2, f, a, k):
            def body(it3):
                disc.append(a[0])
            return A.SimpleAwaitable(it2.aio, 'disconnect', body)
        it.hooks[f'{CONN}:DataConnection.disconnect'] = c_disconnect
        rounds = []

        def finish(it2, task, how, conn):
            if how.endswith('ok'):
                task.result_val = conn
            else:
                task.exc = exc(it2, 'PeerConnectionError', 'x')
            task.complete(it2)

        def policy(it2, items, k):
            if d == 'cancel':
                raise PathAbort()          # only the cancellation successor of this await is of interest here
            tasks = sorted(items, key=lambda t: t.name)
            dt = [t for t in tasks if t.name.startswith('direct')]
            itk = [t for t in tasks if t.name.startswith('indirect')]
            done, pending = [], []
            first = not rounds
            rounds.append(1)
            for t, how, conn in ((dt[0] if dt else None, d, c1), (itk[0] if itk else None, i, c2)):
                if t is None:
                    continue
                if how in ('ok', 'fail') or (how == 'slow-ok' and not first):
                    finish(it2, t, how, conn)
                    done.append(t)
                else:
                    pending.append(t)
            return done, pending
        it.aio.wait_policy = policy
        if d == 'cancel':
            it.aio.cancel_at = lambda it2, label: label == 'asyncio.wait'
        try:
            r = run(it, it.getattr(w.net, '_create_peer_connection_race'), 77, 'bob', 'P')
            raised = None
        except PyRaise as pr:
            r, raised = None, pr.exc.cls.name
        tasks = it.aio.tasks
        tag = f'direct={d},indirect={i}'
        not_finished = [t.name for t in tasks if not (t.done is True)]
        if d == 'cancel':
            ctx.prove('C11.race.exit[request-cancelled]', raised == 'CancelledError' and all(t.cancel_requested and t.awaited for t in tasks),
                      f'the request itself was cancelled but its sub-attempts keep running: {[(t.name, t.cancel_requested) for t in tasks]}')
            return
        ctx.prove(f'C11.race.exit[{tag}].no-pending', not not_finished and all(t.done is True for t in tasks),
                  f'sub-tasks still pending when the request finished: {not_finished}')
        oks = [c for how, c in ((d, c1), (i, c2)) if how.endswith('ok')]
        if not oks:
            ctx.prove(f'C11.race.exit[{tag}].result', raised == 'PeerConnectionError')
            return
        ctx.prove(f'C11.race.exit[{tag}].result', r in oks and raised is None, 'returns a connection that was established')
        # every OTHER established connection got disconnect; a slow loser was cancelled and awaited
        others = [c for c in oks if c is not r]
        completed_both = d == 'ok' and i == 'ok'
        if completed_both:
            ctx.prove(f'C11.race.exit[{tag}].loser-closed', disc == others, f'disconnected {disc!r}, other established connections {others!r}')
        for t, how in zip(sorted(tasks, key=lambda t: t.name), (d, i)):
            if how == 'slow':
                ctx.prove(f'C11.race.exit[{tag}].loser-cancelled', t.cancel_requested and t.awaited, 'a loser that is still connecting must be cancelled AND awaited')
    ex.run(path, 'race')

    def mode(ctx: Ctx):
        it = mk(src_root, ctx)
        w = mk_network(it, ctx)
        race = ctx.choose(2, 'mode') == 1
        PCM = cls(it, NET, 'PeerConnectMode')
        w.net.attrs['_settings'].attrs['network'].attrs['peer'].attrs['connect_mode'] = [m for m in PCM.enum_members if m.name == ('RACE' if race else 'FALLBACK')][0]
        calls = []
        it.hooks[f'{NET}:Network._create_peer_connection_race'] = lambda it2, f, a, k: A.SimpleAwaitable(it2.aio, 'race', lambda it3: calls.append(('race', a[1:], k)) or 'C')
        it.hooks[f'{NET}:Network._create_peer_connection_fallback'] = lambda it2, f, a, k: A.SimpleAwaitable(it2.aio, 'fb', lambda it3: calls.append(('fallback', a[1:], k)) or 'C')
        r = run(it, it.getattr(w.net, 'create_peer_connection'), 'bob', 'P')
        ctx.prove(f'C11.create_peer_connection.mode[{"race" if race else "fallback"}]',
                  r == 'C' and len(calls) == 1 and calls[0][0] == ('race' if race else 'fallback') and calls[0][1][:3] == [77, 'bob', 'P'])
    ex.run(mode, 'mode')


def prove_select_port(src_root, ex: Explorer):
    def path(ctx: Ctx):
        it = mk(src_root, ctx)
        w = mk_network(it, ctx)
        p, o = ctx.choose(2, 'port'), ctx.choose(2, 'obfuscated_port')
        prefer = ctx.choose(2, 'prefer') == 1
        w.net.attrs['_settings'].attrs['network'].attrs['peer'].attrs['obfuscate'] = prefer
        port, oport = (10 if p else 0), (20 if o else 0)
        r = it.call(it.getattr(w.net, 'select_port'), [port, oport], {})
        if p and o:
            want = (20, True) if prefer else (10, False)
        elif p:
            want = (10, False)
        else:
            want = (oport, True)
        ctx.prove(f'C11.select_port.table[port={p},obfuscated={o},prefer={prefer}]', tuple(r) == want, f'{r} != {want}')
    ex.run(path, 'select_port')


def prove_connect_to_peer(src_root, ex: Explorer):
    outcomes = ['ok', 'connect-fails', 'pierce-send-fails']

    def path(ctx: Ctx):
        it = mk(src_root, ctx)
        w = mk_network(it, ctx)
        oc = outcomes[ctx.choose(3, 'outcome')]
        created, order = [], []
        # which ports the peer announced and what we prefer (select_port: C11.select_port.table)
        has_clear, has_obf = [(True, False), (False, True), (True, True), (False, False)][ctx.choose(4, 'ports')]
        if not has_clear and not has_obf and oc != 'connect-fails':
            return          # nothing listens on port 0: the connect-back can only fail (and the server must be told so)
        prefer = ctx.choose(2, 'prefer-obfuscated') == 1
        w.net.attrs['_settings'].attrs['network'].attrs['peer'].attrs['obfuscate'] = prefer
        m_port, m_oport = (10 if has_clear else 0), (20 if has_obf else 0)

        def c_connect(it2, f, a, k):
            conn = a[0]
            created.append(conn)

            def body(it3):
                order.append(('connect', any(x is conn for x in w.registry), conn.attrs['state'].name))
                if oc == 'connect-fails':
                    conn.attrs['state'] = enum(it3, CONN, 'ConnectionState', 'CLOSED')
                    w.registry[:] = [x for x in w.registry if x is not conn]
                    raise PyRaise(exc(it3, 'ConnectionFailedError', 'x'))
                conn.attrs['state'] = enum(it3, CONN, 'ConnectionState', 'CONNECTED')
            return A.SimpleAwaitable(it2.aio, 'connect', body)
        it.hooks[f'{CONN}:PeerConnection.connect'] = c_connect
        peer_sent = []

        def c_send(it2, f, a, k):
            conn = a[0]

            def body(it3):
                if oc == 'pierce-send-fails':
                    conn.attrs['state'] = enum(it3, CONN, 'ConnectionState', 'CLOSED')
                    w.registry[:] = [x for x in w.registry if x is not conn]
                    raise PyRaise(exc(it3, 'ConnectionWriteError', 'x'))
                peer_sent.append(a[1])
            return A.SimpleAwaitable(it2.aio, 'send_message', body)
        it.hooks[f'{CONN}:DataConnection.send_message'] = c_send
        it.hooks[f'{CONN}:PeerConnection.set_connection_state'] = lambda it2, f, a, k: a[0].attrs.__setitem__('connection_state', a[1])
        msg = new(it, MSG, 'ConnectToPeer.Response', username='bob', typ='P', ip='1.2.3.4', port=m_port, ticket=55, privileged=False,
                  obfuscated_port_amount=1 if has_obf else None, obfuscated_port=m_oport if has_obf else None)
        try:
            run(it, it.getattr(w.net, '_handle_connect_to_peer'), msg)
            raised = None
        except PyRaise as pr:
            raised = pr.exc.cls.name
        cc = [m for m in w.server_sent if m.cls.qual == 'CannotConnect.Request']
        pf = [m for m in peer_sent if m.cls.qual == 'PeerPierceFirewall.Request']
        if oc == 'ok':
            ctx.prove('C11.connect_to_peer.answer[ok]', len(pf) == 1 and pf[0].attrs['ticket'] == 55 and not cc and raised is None
                      and created[0].attrs['state'].name == 'CONNECTED' and any(x is created[0] for x in w.registry))
        else:
            ctx.prove(f'C11.connect_to_peer.answer[{oc}]', len(cc) == 1 and cc[0].attrs['ticket'] == 55 and cc[0].attrs['username'] == 'bob' and not pf
                      and raised == 'PeerConnectionError' and not w.registry,
                      'when connecting back fails the server must be told CannotConnect(ticket, user) exactly once and nothing stays registered')
        ctx.prove(f'C10.registry.add#_handle_connect_to_peer[{oc}]', order and order[0][1] is True)
        ctx.prove(f'C10.connect.fresh#_handle_connect_to_peer[{oc},clear={has_clear},obfuscated={has_obf},prefer={prefer}]',
                  all(o[2] == 'UNINITIALIZED' for o in order if o[0] == 'connect'),
                  f'connect() called on a peer connection that is {[o[2] for o in order if o[0] == "connect"]}: a peer connection is connected once '
                  '(closed -> connecting is not monotone; the second attempt needs a new connection object)')
        # the connection is made to the port select_port chose, and speaks obfuscated exactly if that is the obfuscated port
        want = (20, True) if (has_obf and (prefer or not has_clear)) else (10, False)
        got = (created[0].attrs.get('port'), created[0].attrs.get('obfuscated')) if created else None
        if not has_clear and not has_obf:
            return
        ctx.prove(f'C11.connect_to_peer.port-and-obfuscation[clear={has_clear},obfuscated={has_obf},prefer={prefer}]', got == want,
                  f'connecting back to (port, obfuscated) = {got}, the announced ports and the preference select {want}: the peer reads garbage')
    ex.run(path, 'connect_to_peer')


def prove_pierce(src_root, ex: Explorer):
    def path(ctx: Ctx):
        it = mk(src_root, ctx)
        w = mk_network(it, ctx)
        known = ctx.choose(2, 'ticket-known') == 1
        conn = w.data_connection(state='CONNECTED')
        other = w.data_connection(state='CONNECTED')
        w.registry.append(other)
        disc = []
        it.hooks[f'{CONN}:DataConnection.disconnect'] = lambda it2, f, a, k: A.SimpleAwaitable(it2.aio, 'disconnect', lambda it3: disc.append(a[0]))
        it.hooks[f'{CONN}:PeerConnection.set_connection_state'] = lambda it2, f, a, k: a[0].attrs.__setitem__('connection_state', a[1])
        msg = new(it, MSG, 'PeerPierceFirewall.Request', ticket=77)
        it.hooks[f'{CONN}:DataConnection.receive_message_object'] = lambda it2, f, a, k: A.SimpleAwaitable(it2.aio, 'recv', lambda it3: msg)
        fut = new(it, NET, 'PeerFuture', ticket=77, username='bob', typ='D')
        if known:
            w.net.attrs['_expected_connection_futures'][77] = fut
        finalized = []
        conn.attrs['username'], conn.attrs['connection_type'] = None, 'P'      # an accepted connection before its initialisation
        it.hooks[f'{NET}:Network._finalize_peer_connection'] = lambda it2, f, a, k: finalized.append((a[1], a[1].attrs.get('username'), a[1].attrs.get('connection_type')))
        run(it, it.getattr(w.net, 'on_peer_accepted'), conn)
        if known:
            ctx.prove('C11.pierce.finalized-as-requested', finalized == [(conn, 'bob', 'D')],
                      f'the pierced connection must be finalised (state, limiters, reader loop) with the user and the TYPE of the request that '
                      f'waits for it, got {finalized!r}')
            f = fut.ghost['future']
            ctx.prove('C11.pierce.handoff[known]', f.done is True and f.result_val is conn and conn.attrs['username'] == 'bob'
                      and conn.attrs['connection_type'] == 'D' and not disc)
        else:
            ctx.prove('C11.pierce.handoff[unknown]', disc == [conn] and fut.ghost['future'].done is not True,
                      'an unknown firewall-pierce ticket closes that connection only')
        ctx.prove(f'C10.registry.add#on_peer_accepted[{"known" if known else "unknown"}]', any(x is conn for x in w.registry) and any(x is other for x in w.registry))
    ex.run(path, 'pierce')


def prove_address_and_state(src_root, ex: Explorer):
    def address(ctx: Ctx):
        """_get_peer_address: fails (PeerConnectionError) iff the server knows no address (0.0.0.0) or NEITHER port is usable; a peer with
        only an obfuscated port is reachable (select_port then chooses it: C11.select_port.*)"""
        it = mk(src_root, ctx)
        w = mk_network(it, ctx)
        no_ip = ctx.choose(2, 'no-address') == 1
        port = [0, 2234][ctx.choose(2, 'port')]
        oport = [0, 2235][ctx.choose(2, 'obfuscated-port')]
        resp = Stub('GetPeerAddress.Response', ip='0.0.0.0' if no_ip else '1.2.3.4', port=port, obfuscated_port=oport)
        w.net.attrs['server_connection'] = Stub('server', send_message=Recorder('send', is_async=True))
        waits = []
        it.hooks[f'{NET}:Network.create_server_response_future'] = lambda it2, f, a, k: \
            (waits.append((a[1], k.get('fields', a[2] if len(a) > 2 else None))), A.SimpleAwaitable(it2.aio, 'resp', lambda it3: (Opaque('conn'), resp)))[1]
        it.hooks[f'{NET}:Network.wait_for_server_message'] = lambda it2, f, a, k: \
            (waits.append((a[1], k.get('fields', a[2] if len(a) > 2 else None))), A.SimpleAwaitable(it2.aio, 'resp', lambda it3: resp))[1]
        try:
            r = run(it, it.getattr(w.net, '_get_peer_address'), 'bob')
            raised = None
        except PyRaise as pr:
            r, raised = None, pr.exc.cls.name
        tag = f'ip={"none" if no_ip else "ok"},port={port},obfuscated={oport}'
        # the answer that is awaited is the address of THIS user (several lookups are pending at the same time)
        ctx.prove('C11.peer-address.waits-for-user', len(waits) == 1 and isinstance(waits[0][1], dict) and waits[0][1].get('username') == 'bob',
                  f'the address of bob is awaited as {[(getattr(c, "qual", c), f) for c, f in waits]}: the answer for another user completes it')
        if no_ip or (port == 0 and oport == 0):
            ctx.prove(f'C11.peer-address[{tag}]', raised == 'PeerConnectionError')
        else:
            ctx.prove(f'C11.peer-address[{tag}]', raised is None and tuple(unbox(x) for x in r) == ('1.2.3.4', port, oport),
                      f'a peer with a usable port is reported unreachable ({raised})')
    ex.run(address, 'peer-address')

    def conn_state(ctx: Ctx):
        """PeerConnection.set_connection_state, exhaustive over state x type: the obfuscation layer is only kept for peer ('P') message
        connections - file and distributed connections are plain as soon as they leave AWAITING_INIT; the reader task runs exactly in
        ESTABLISHED"""
        it = mk(src_root, ctx)
        ST = cls(it, CONN, 'PeerConnectionState')
        st = ST.enum_members[ctx.choose(len(ST.enum_members), 'state')]
        typ = ['P', 'F', 'D'][ctx.choose(3, 'type')]
        obf = ctx.choose(2, 'obfuscated') == 1
        c = Obj(cls(it, CONN, 'PeerConnection'))
        c.attrs.update(hostname='h', port=1, connection_type=typ, obfuscated=obf, connection_state=ST.enum_members[0], username='bob')
        calls = []
        it.hooks[f'{CONN}:DataConnection.start_reader_task'] = lambda it2, f, a, k: calls.append('start')
        it.hooks[f'{CONN}:DataConnection.stop_reader_task'] = lambda it2, f, a, k: calls.append('stop')
        it.call(it.getattr(c, 'set_connection_state'), [st], {})
        want_obf = obf and (typ == 'P' or st.name == 'AWAITING_INIT')
        ctx.prove(f'C11.connection-state[{st.name},{typ},obfuscated={obf}]', c.attrs['obfuscated'] is want_obf and c.attrs['connection_state'] is st
                  and calls == (['start'] if st.name == 'ESTABLISHED' else ['stop']),
                  f'obfuscated={c.attrs["obfuscated"]} (expected {want_obf}), reader {calls}')
    ex.run(conn_state, 'connection-state')


def prove_connect_to_peer_dispatch(src_root, ex: Explorer):
    """_on_connect_to_peer: EVERY ConnectToPeer request of the server starts the connect-back (which ends in PeerPierceFirewall or in
    CannotConnect, C11.connect_to_peer.answer[*]) - also when a connection to that user already exists: the peer is waiting on THIS ticket"""
    def path(ctx: Ctx):
        it = mk(src_root, ctx)
        w = mk_network(it, ctx)
        typ = ['P', 'D', 'F'][ctx.choose(3, 'type')]
        existing = ctx.choose(2, 'already-connected') == 1
        if existing:
            w.registry.append(Stub('established connection', username='bob', connection_type=typ, state=enum(it, CONN, 'ConnectionState', 'CONNECTED'),
                                   connection_state=enum(it, CONN, 'PeerConnectionState', 'ESTABLISHED')))
        w.net.attrs['_create_peer_connection_tasks'] = []
        it.natives['aioslsk.utils.task_counter'] = Native('task_counter', lambda it2, a, k: 1)
        before = list(it.aio.tasks)
        msg = new(it, MSG, 'ConnectToPeer.Response', username='bob', typ=typ, ip='1.2.3.4', port=10, ticket=55, privileged=False,
                  obfuscated_port_amount=None, obfuscated_port=None)
        run(it, it.getattr(w.net, '_on_connect_to_peer'), msg, Opaque('server'))
        started = [t for t in it.aio.tasks if not any(t is b for b in before)]
        ok = len(started) == 1 and getattr(getattr(started[0].coro, 'func', None), 'node', None) is not None \
            and started[0].coro.func.node.name == '_handle_connect_to_peer' and any(x is started[0] for x in w.net.attrs['_create_peer_connection_tasks'])
        ctx.prove(f'C11.connect_to_peer.always-handled[type={typ},connected={existing}]', ok,
                  f'a ConnectToPeer request (type {typ}, already connected: {existing}) started {len(started)} connect-back tasks')
    ex.run(path, 'connect_to_peer-dispatch')


def prove_finalize(src_root, ex: Explorer):
    """_finalize_peer_connection(connection): a messaging ('P') or distributed ('D') connection becomes ESTABLISHED (its message reader
    runs, it is listed as active); only a file ('F') connection negotiates a transfer and is given the shared rate limiters"""
    def path(ctx: Ctx):
        it = mk(src_root, ctx)
        w = mk_network(it, ctx)
        # 'Q': a type byte that is none of the three (a hostile or corrupted PeerInit): it is treated like a message connection - its
        # reader runs, so the close of the peer is noticed (C02)
        typ = ['P', 'D', 'F', 'Q'][ctx.choose(4, 'type')]
        up, down = Opaque('shared upload limiter'), Opaque('shared download limiter')
        w.net.attrs.update(_upload_rate_limiter=up, _download_rate_limiter=down)
        c = Obj(cls(it, CONN, 'PeerConnection'))
        own_up, own_down = Opaque('own upload limiter'), Opaque('own download limiter')
        c.attrs.update(connection_type=typ, obfuscated=False, _reader_task=None, connection_state=None, upload_rate_limiter=own_up, download_rate_limiter=own_down)
        it.hooks[f'{CONN}:PeerConnection.set_connection_state'] = lambda it2, f, a, k: a[0].attrs.__setitem__('connection_state', a[1])
        it.call(it.getattr(w.net, '_finalize_peer_connection'), [c], {})
        st = getattr(c.attrs['connection_state'], 'name', None)
        if typ == 'F':
            ok = st == 'NEGOTIATING_TRANSFER' and c.attrs['upload_rate_limiter'] is up and c.attrs['download_rate_limiter'] is down
        else:
            ok = st == 'ESTABLISHED' and c.attrs['upload_rate_limiter'] is own_up and c.attrs['download_rate_limiter'] is own_down
        ctx.prove(f'C11.finalize[type={typ}]', ok, f'a connection of type {typ} was finalised as {st}')
    ex.run(path, 'finalize')


def prove_connect_relies(src_root, ex: Explorer):
    """The strategies tell "this path does not work" (ConnectionFailedError -> try the other path) from "the request was cancelled"
    (CancelledError -> stop, leave nothing behind) by what connect() raises.  That is the exit contract of DataConnection.connect (C10),
    discharged here as well: every failure kind of the TCP connect becomes ConnectionFailedError, a cancellation stays a cancellation,
    and either way the connection ends CLOSED and unregistered."""
    from contracts import C10
    C10.prove_connect(src_root, ex)
    # "leaves nothing behind": every failure path of the strategies ends in disconnect() of the connection that was being set up (a failed
    # PeerInit / PeerPierceFirewall send closes it, a cancelled request closes what it had opened).  That the connection then ends CLOSED
    # and unregistered - for every start state and every outcome of wait_closed(), including a cancellation that arrives INSIDE
    # disconnect() - is the C10 contract of disconnect, discharged here as well
    C10.prove_disconnect(src_root, ex)
    for ob in ex.obligations:
        if ob.name.startswith('C10.disconnect.'):
            ob.name = 'C11.disconnect-contract.' + ob.name[len('C10.disconnect.'):]
        elif ob.name.startswith('C10.'):
            ob.name = 'C11.connect-contract.' + ob.name[4:]


def items(src_root, tier):
    return [('dispatch', None), ('finalize', None), ('connect-relies', None), ('address-state', None), ('indirect', None), ('direct', None), ('fallback', None), ('race', None), ('select_port', None), ('connect_to_peer', None), ('pierce', None)]


def run_item(src_root, item, tier):
    res = std_result('C11')
    ex = Explorer()
    kind, arg = item
    try:
        {'indirect': prove_indirect, 'direct': prove_direct, 'fallback': prove_fallback, 'race': prove_race, 'select_port': prove_select_port,
         'connect_to_peer': prove_connect_to_peer, 'pierce': prove_pierce, 'address-state': prove_address_and_state,
         'connect-relies': prove_connect_relies, 'finalize': prove_finalize, 'dispatch': prove_connect_to_peer_dispatch}[kind](src_root, ex)
    except Unsupported as e:
        res.errors.append(f'{kind}: unsupported: {e}')
    collect(res, ex)
    # obligations about the registry belong to C10; they are re-emitted there through C10's own item
    for name in [n for n in res.obligations if n.startswith('C10.')]:
        res.obligations['C11.' + name[4:]] = res.obligations.pop(name)
    res.functions.update([f'{NET}:Network.{m}' for m in ('create_peer_connection', '_create_peer_connection_fallback', '_create_peer_connection_race',
                                                        '_make_direct_connection', '_make_indirect_connection', 'select_port',
                                                        '_handle_connect_to_peer', '_remove_connection_future', 'on_peer_accepted',
                                                        '_finalize_peer_connection')])
    return res
