"""C17 -- transfers survive a restart.  DESIGN.md section 4 / C17."""
from __future__ import annotations

import z3

from pyvc.ctx import Ctx, Explorer, Unsupported, PathAbort
from pyvc.interp import Interp, CoroVal
from pyvc.values import (Sym, Obj, PyRaise, Native, Bound, ExcVal, EnumMember, Opaque, unbox, z3int, z3str)
from pyvc import natives as N
from pyvc import aio as A
from pyvc.rope import Rope, Blob
from contracts.common import (source, mk, cls, func, new, run, enum, Recorder, Stub, collect, std_result)
from contracts import C03

MGR = 'transfer.manager'
MODEL = 'transfer.model'
STATE = 'transfer.state'
CACHE = 'transfer.cache'
S = z3.StringSort()

ASSUMPTIONS = [
    'A-pickle: pickle / shelve / dbm store and return what they are given (the shelf is modelled as a dictionary)',
    'sha256 is injective (collisions of the hash itself are ignored); str.encode is injective',
    'independent-iterations rule for the loop of read_cache (the body is executed for an arbitrary persisted transfer)',
]
TRUSTED_BASE = ['pyvc engine', 'z3 / cvc5 string theory for the key obligation', 'C03 (state classes)']
NOT_DECIDED = ['pickle, shelve, dbm themselves']
PERSISTENT = ['direction', 'username', 'remote_path', 'local_path', 'remotely_queued', 'place_in_queue', 'fail_reason', 'abort_reason',
              'filesize', 'bytes_transfered', 'queue_attempts', 'last_queue_attempt', 'upload_request_attempts',
              'last_upload_request_attempt', 'start_time', 'complete_time']
RUNTIME = ['_speed_log', '_transfer_task', '_remotely_queue_task', '_state_lock', 'progress_snapshot', 'state_listeners']


def install_env(it, ctx):
    C03.install_env(it, ctx, [])
    it.hooks[f'{MODEL}:Transfer.take_progress_snapshot'] = lambda it2, f, a, k: Opaque('snapshot')


def symbolic_transfer(it, ctx, state_name, legacy=False):
    t = new(it, MODEL, 'Transfer')
    vals = {}
    for f in PERSISTENT:
        if f == 'direction':
            vals[f] = enum(it, MODEL, 'TransferDirection', ['UPLOAD', 'DOWNLOAD'][ctx.choose(2, 'direction')])
        elif f in ('username', 'remote_path'):
            vals[f] = Sym(ctx.fresh_str(f), 'str')
        elif f in ('remotely_queued',):
            vals[f] = Sym(ctx.fresh_bool(f), 'bool')
        elif f in ('last_queue_attempt', 'last_upload_request_attempt'):
            vals[f] = Sym(ctx.fresh_real(f), 'real')
        elif f in ('bytes_transfered', 'queue_attempts', 'upload_request_attempts'):
            vals[f] = Sym(ctx.fresh_int(f), 'int')
        elif f == 'abort_reason':
            vals[f] = None if ctx.choose(2, 'abort_reason') == 0 else Sym(ctx.fresh_str(f), 'str')
        else:
            vals[f] = Opaque(f)        # Optional fields: an arbitrary value compared by identity
    t.attrs.update(vals)
    if legacy:
        del t.attrs['abort_reason']
        vals.pop('abort_reason')
    t.attrs.update(_speed_log=Opaque('log'), _transfer_task=Opaque('task'), _remotely_queue_task=None, _state_lock=Opaque('lock'),
                   progress_snapshot=Opaque('snap'), state_listeners=['listener'], _offset=5)
    Scls = cls(it, STATE, state_name)
    t.attrs['state'] = it.call(Scls, [t], {})
    return t, vals


def prove_pickle(src_root, state_name, ex: Explorer):
    def path(ctx: Ctx):
        it = mk(src_root, ctx)
        install_env(it, ctx)
        legacy = ctx.choose(2, 'legacy') == 1
        t, vals = symbolic_transfer(it, ctx, state_name, legacy)
        before = dict(t.attrs)
        st = it.call(it.getattr(t, '__getstate__'), [], {})
        if not isinstance(st, dict):
            from pyvc.interp import DictView
            st = dict(st.obj.attrs) if isinstance(st, DictView) else st
        tag = f'{state_name}{",legacy" if legacy else ""}'
        ctx.prove(f'C17.getstate.pure[{tag}]', t.attrs == before and all(t.attrs[k] is before[k] for k in before), '__getstate__ must not mutate the transfer')
        ok = isinstance(st, dict) and not any(k in st for k in RUNTIME) and isinstance(st.get('state'), EnumMember) and \
            st['state'].name == it.class_attr(cls(it, STATE, state_name), 'VALUE').name
        ctx.prove(f'C17.getstate.shape[{tag}]', ok, f'pickled dict: {sorted(st) if isinstance(st, dict) else st!r}')
        # a new process: fresh object, __setstate__(copy of the dict)
        t2 = new(it, MODEL, 'Transfer')
        try:
            it.call(it.getattr(t2, '__setstate__'), [dict(st)], {})
        except PyRaise as pr:
            ctx.fail(f'C17.pickle.roundtrip[{tag}]', f'__setstate__ raises {pr.exc!r}')
            return
        conj, detail = [], ''
        for f, v in vals.items():
            a = t2.attrs.get(f, '<missing>')
            if f == 'abort_reason' and v is None and state_name == 'AbortedState':
                good = unbox(a) == 'Requested'       # an aborted record without reason was aborted by the user
            elif isinstance(v, Sym):
                e = N._eq(it, a, v) if not isinstance(a, str) or a != '<missing>' else False
                good = e if isinstance(e, bool) else ctx.valid(e)
            else:
                good = a is v
            if not good:
                detail = f'{f}: restored {a!r}, persisted {v!r}'
            conj.append(bool(good))
        ctx.prove(f'C17.pickle.roundtrip[{tag}]', all(conj), detail)
        if legacy:
            ar = t2.attrs.get('abort_reason', '<missing>')
            ctx.prove(f'C17.pickle.legacy-abort-reason[{tag}]', (unbox(ar) == 'Requested') if state_name == 'AbortedState' else ar is None)
        s2 = t2.attrs.get('state')
        ctx.prove(f'C17.pickle.state[{tag}]', isinstance(s2, Obj) and s2.cls.name == state_name and s2.attrs.get('transfer') is t2
                  and isinstance(s2.attrs.get('abort'), Bound), 'state restored to the class with the same VALUE, bound to the NEW object, behind the lock wrapper')
        ctx.prove(f'C17.pickle.runtime-fresh[{tag}]', t2.attrs.get('_transfer_task') is None and t2.attrs.get('_remotely_queue_task') is None
                  and t2.attrs.get('state_listeners') == [] and isinstance(t2.attrs.get('_state_lock'), A.LockVal) and '_offset' not in t2.attrs)
        # a SECOND record restored in the same process: the mutable run-time fields are the object's own
        t3 = new(it, MODEL, 'Transfer')
        it.call(it.getattr(t3, '__setstate__'), [dict(st)], {})
        own = all(t3.attrs.get(k) is not t2.attrs.get(k) for k in ('state_listeners', '_state_lock', '_speed_log') if t2.attrs.get(k) is not None) \
            and t3.attrs.get('state') is not t2.attrs.get('state')
        ctx.prove(f'C17.pickle.runtime-own[{tag}]', own and isinstance(t3.attrs.get('state_listeners'), list),
                  'two restored transfers share a mutable run-time field (listener list, lock, speed log or state object): a listener registered '
                  'on one is notified for the other')
    ex.run(path, f'pickle-{state_name}')


class Sha:
    def __init__(self, pre):
        self.pre = pre


def prove_key(src_root, ex: Explorer):
    """C17.key.injective: the cache key is an injective function of (username, remote_path, direction)."""
    def path(ctx: Ctx):
        it = mk(src_root, ctx)
        keys = []

        def sha256(it2, a, k):
            r = N.to_rope(it2, a[0])
            if not (len(r.segs) == 1 and isinstance(r.segs[0], Blob) and r.segs[0].key[0] == 'utf8'):
                raise Unsupported('sha256 of a value that is not the utf-8 encoding of one string')
            pre = r.segs[0].key[1]
            return Stub('sha256', hexdigest=Recorder('hexdigest', fn=lambda it3, aa, kk: keys.append(pre) or Sha(pre)))
        it.natives['hashlib.sha256'] = Native('sha256', sha256)
        db = {}

        class Shelf:
            def pyvc_enter(self, it2, is_async):
                return self

            def pyvc_exit(self, it2, exc, is_async):
                return False

            def pyvc_setitem(self, it2, key, value):
                db[id(key)] = (key, value)

            def pyvc_len(self, it2):
                return len(db)

            def pyvc_getattr(self, it2, name):
                if name == 'items':
                    return Native('items', lambda it3, a, k: [])
                if name == 'pop':
                    return Native('pop', lambda it3, a, k: None)
                if name == 'get':
                    return Native('get', lambda it3, a, k: (a[1] if len(a) > 1 else None))      # an empty shelf
                raise Unsupported(f'shelf.{name}')
        it.natives['shelve.open'] = Native('shelve.open', lambda it2, a, k: Shelf())
        it.natives['os.path.join'] = Native('join', lambda it2, a, k: 'db')
        D = cls(it, MODEL, 'TransferDirection')
        ts = []
        for i in (1, 2):
            d = D.enum_members[ctx.choose(2, f'd{i}')]
            ts.append(new(it, MODEL, 'Transfer', username=Sym(z3.String(f'user{i}'), 'str'), remote_path=Sym(z3.String(f'path{i}'), 'str'), direction=d))
        cache = new(it, CACHE, 'TransferShelveCache', data_directory='dir')
        it.call(it.getattr(cache, 'write'), [ts], {})
        if len(keys) != 2:
            ctx.fail('C17.key.injective', f'{len(keys)} keys computed for 2 transfers')
            return
        a, b = ts
        same = z3.And(a.attrs['username'].t == b.attrs['username'].t, a.attrs['remote_path'].t == b.attrs['remote_path'].t,
                      z3.BoolVal(a.attrs['direction'] is b.attrs['direction']))
        # bounded lengths keep the string query decidable quickly; the witness class is what matters
        for t in ts:
            ctx.assume(z3.Length(t.attrs['username'].t) <= 3)
            ctx.assume(z3.Length(t.attrs['remote_path'].t) <= 3)
        ctx.prove('C17.key.injective', z3.Implies(keys[0] == keys[1], same),
                  'two different transfers get the same cache key (the key is the hash of the CONCATENATION username + remote_path + direction): '
                  'the second overwrites the first in the shelf and only one is read back')
    ex.run(path, 'key')


def prove_write(src_root, ex: Explorer, res):
    """C17.write.exact [bounded]: after write(ts) the shelf holds exactly ts (as a set under Transfer.__eq__), for ts of
    length <= 2 without key collision (complement of the known finding) and a shelf with <= 2 previous entries."""
    def path(ctx: Ctx):
        it = mk(src_root, ctx)

        def sha256(it2, a, k):
            r = N.to_rope(it2, a[0])
            pre = r.concrete()
            return Stub('sha256', hexdigest=Recorder('hexdigest', ret='K:' + pre.decode()))
        it.natives['hashlib.sha256'] = Native('sha256', sha256)
        D = cls(it, MODEL, 'TransferDirection')

        complete = Stub('state', VALUE=enum(it, 'transfer.state', 'TransferState.State', 'COMPLETE'))

        def tr(u, p, d=1):
            # finished transfers: the record in the shelf may be an OLDER copy in the same state (other progress, other times) - the write
            # stores the current objects
            return new(it, MODEL, 'Transfer', username=u, remote_path=p, direction=D.enum_members[d], state=complete)
        n = ctx.choose(3, 'n')
        ts = [tr('alice', 'a'), tr('bob', 'b')][:n]
        stale = tr('carol', 'c')
        same_as_first = tr('alice', 'a')      # an older pickled copy of the first transfer
        pre = ctx.choose(3, 'shelf')
        shelf = {}
        if pre >= 1:
            shelf['K:carolc1'] = stale
        if pre == 2:
            shelf['K:alicea1'] = same_as_first

        class Shelf:
            def pyvc_enter(self, it2, is_async):
                return self

            def pyvc_exit(self, it2, exc, is_async):
                return False

            def pyvc_setitem(self, it2, key, value):
                shelf[key] = value

            def pyvc_len(self, it2):
                return len(shelf)

            def pyvc_getattr(self, it2, name):
                if name == 'items':
                    return Native('items', lambda it3, a, k: list(shelf.items()))
                if name == 'pop':
                    return Native('pop', lambda it3, a, k: shelf.pop(a[0]))
                if name == 'get':
                    return Native('get', lambda it3, a, k: shelf.get(a[0], a[1] if len(a) > 1 else None))
                if name == 'keys':
                    return Native('keys', lambda it3, a, k: list(shelf.keys()))
                raise Unsupported(f'shelf.{name}')

            def pyvc_getitem(self, it2, key):
                return shelf[key]

            def pyvc_contains(self, it2, key):
                return key in shelf
        it.natives['shelve.open'] = Native('shelve.open', lambda it2, a, k: Shelf())
        it.natives['os.path.join'] = Native('join', lambda it2, a, k: 'db')
        cache = new(it, CACHE, 'TransferShelveCache', data_directory='dir')
        it.call(it.getattr(cache, 'write'), [list(ts)], {})
        vals = list(shelf.values())
        ctx.prove('C17.write.exact[bounded]', len(vals) == len(ts) and all(any(v is t for v in vals) for t in ts),
                  f'shelf after write: {sorted(shelf)} for {len(ts)} transfers')
    ex.run(path, 'write')
    res.bounded.append({'obligations': ['C17.write.exact[bounded]'], 'bound': '<= 2 transfers, <= 2 previous shelf entries (concrete names)', 'counted_as_proved': False})


def prove_read_cache(src_root, state_name, ex: Explorer):
    def path(ctx: Ctx):
        it = mk(src_root, ctx)
        install_env(it, ctx)
        t, vals = symbolic_transfer(it, ctx, state_name)
        t.attrs['filesize'] = Sym(ctx.fresh_int('filesize'), 'int')
        t.attrs['state_listeners'] = []
        t.attrs['_state_lock'] = A.LockVal(it.aio)
        t.attrs['_transfer_task'] = None
        added = []

        def c_add(it2, f, a, k):
            def body(it3):
                added.append((a[1], a[1].attrs['state'].cls.name, a[1].attrs['remotely_queued']))
            return A.SimpleAwaitable(it2.aio, 'add', body)
        it.hooks[f'{MGR}:TransferManager.add'] = c_add
        mgr = new(it, MGR, 'TransferManager', cache=Stub('cache', read=Recorder('read', ret=[t])))
        KEPT = ('username', 'remote_path', 'direction', 'local_path', 'filesize', 'bytes_transfered', 'fail_reason', 'abort_reason')
        before = {k: t.attrs.get(k) for k in KEPT}
        try:
            run(it, it.getattr(mgr, 'read_cache'))
        except PyRaise as pr:
            ctx.fail(f'C17.read_cache.repair[{state_name}]', repr(pr.exc))
            return
        final = t.attrs['state'].cls.name
        changed = [k for k in KEPT if t.attrs.get(k) is not before[k]]
        ctx.prove(f'C17.read_cache.keeps-fields[{state_name}]', not changed,
                  f'loading changed {changed} of a persisted {state_name} transfer: user, paths, sizes, progress and reasons are what was written')
        if changed:
            return
        if state_name == 'InitializingState':
            want_ok = final == 'QueuedState'
        elif state_name in ('DownloadingState', 'UploadingState'):
            eq = z3int(t.attrs['filesize']) == z3int(t.attrs['bytes_transfered'])
            want_ok = (final == 'CompleteState' and ctx.valid(eq)) or (final == 'IncompleteState' and ctx.valid(z3.Not(eq)))
            want_ok = want_ok and t.attrs['start_time'] is None and t.attrs['complete_time'] is None
        else:
            want_ok = final == state_name
        ctx.prove(f'C17.read_cache.repair[{state_name}]', want_ok and t.attrs['state'].attrs.get('transfer') is t,
                  f'persisted {state_name} loaded as {final}')
        ctx.prove(f'C17.read_cache.not-in-progress[{state_name}]', final not in ('InitializingState', 'DownloadingState', 'UploadingState'))
        ctx.prove(f'C17.read_cache.registers[{state_name}]', len(added) == 1 and added[0][0] is t and added[0][1] == final and added[0][2] is False,
                  'every loaded transfer goes through add() after its repair, with the remote-queue mark cleared')
    ex.run(path, f'read_cache-{state_name}')


def prove_add(src_root, ex: Explorer):
    def path(ctx: Ctx):
        it = mk(src_root, ctx)
        exists = ctx.choose(2, 'exists') == 1
        D = cls(it, MODEL, 'TransferDirection')
        sname = ['QUEUED', 'INCOMPLETE', 'FAILED', 'COMPLETE', 'ABORTED', 'PAUSED'][ctx.choose(6, 'state')]
        schedulable = sname in ('QUEUED', 'INCOMPLETE', 'FAILED')       # FAILED without a reason is retried (C04.retry.*)
        t = new(it, MODEL, 'Transfer', username='bob', remote_path='p', direction=D.enum_members[1], state_listeners=[], fail_reason=None,
                state=Stub('state', VALUE=enum(it, 'transfer.state', 'TransferState.State', sname)))
        old = new(it, MODEL, 'Transfer', username='bob', remote_path='p', direction=D.enum_members[1], state_listeners=['x'])
        other = new(it, MODEL, 'Transfer', username='eve', remote_path='p', direction=D.enum_members[1], state_listeners=[])
        emitted, cycles = [], []
        bus = Stub('bus', emit=Recorder('emit', fn=lambda it2, a, k: emitted.append(a[0]), is_async=True))
        mgr = new(it, MGR, 'TransferManager', _transfers=[other] + ([old] if exists else []), _event_bus=bus)
        it.hooks[f'{MGR}:TransferManager.request_management_cycle'] = lambda it2, f, a, k: cycles.append(a[1])
        r = run(it, it.getattr(mgr, 'add'), t)
        if exists:
            ctx.prove('C17.add.existing', r is old and mgr.attrs['_transfers'] == [other, old] and not emitted and t.attrs['state_listeners'] == [],
                      'an equal transfer is not added twice')
        else:
            ctx.prove(f'C17.add.wired[{sname}]', r is t and mgr.attrs['_transfers'] == [other, t] and t.attrs['state_listeners'] == [mgr]
                      and (len(cycles) == 1 if schedulable else len(cycles) <= 1)
                      and [e.cls.name for e in emitted] == ['TransferAddedEvent'],
                      'a loaded transfer must be listed once, report its state changes to the manager and be picked up by scheduling')
    ex.run(path, 'add')


# The numeric values of the states are the ON-DISK format of the cache (a pickled transfer stores state.VALUE.value): a cache written by an
# earlier run must decode to the same states.
STATE_VALUES = {'UNSET': -1, 'VIRGIN': 0, 'QUEUED': 1, 'INITIALIZING': 3, 'INCOMPLETE': 4, 'DOWNLOADING': 5, 'UPLOADING': 6, 'COMPLETE': 7,
                'FAILED': 8, 'ABORTED': 9, 'PAUSED': 10}


def prove_format_and_read(src_root, ex: Explorer):
    def values(ctx: Ctx):
        it = mk(src_root, ctx)
        st = cls(it, STATE, 'TransferState.State')
        got = {m.name: m.value for m in st.enum_members}
        ctx.prove('C17.format.state-values', all(got.get(k) == v for k, v in STATE_VALUES.items()),
                  f'the stored numbers of the states changed: {sorted((k, got.get(k), v) for k, v in STATE_VALUES.items() if got.get(k) != v)} '
                  '(name, now, in caches written so far)')
    ex.run(values, 'state-values')

    def read(ctx: Ctx):
        """TransferShelveCache.read returns every stored transfer - an upload and a download of the same user and path are two transfers"""
        it = mk(src_root, ctx)
        D = cls(it, MODEL, 'TransferDirection')
        a = new(it, MODEL, 'Transfer', username='bob', remote_path='p', direction=D.enum_members[0])
        b = new(it, MODEL, 'Transfer', username='bob', remote_path='p', direction=D.enum_members[1])
        c = new(it, MODEL, 'Transfer', username='eve', remote_path='p', direction=D.enum_members[1])
        stored = {'k1': a, 'k2': b, 'k3': c}

        class Shelf:
            def pyvc_enter(self, it2, is_async):
                return self

            def pyvc_exit(self, it2, exc, is_async):
                return False

            def pyvc_iter(self, it2, loop=None):
                return list(stored.keys())

            def pyvc_getitem(self, it2, key):
                return stored[unbox(key)]

            def pyvc_len(self, it2):
                return len(stored)

            def pyvc_getattr(self, it2, name):
                if name == 'items':
                    return Native('items', lambda it3, a_, k: list(stored.items()))
                if name == 'values':
                    return Native('values', lambda it3, a_, k: list(stored.values()))
                if name == 'keys':
                    return Native('keys', lambda it3, a_, k: list(stored.keys()))
                raise Unsupported(f'shelf.{name}')
        it.natives['shelve.open'] = Native('shelve.open', lambda it2, a_, k: Shelf())
        it.natives['os.path.join'] = Native('join', lambda it2, a_, k: 'db')
        cache = new(it, CACHE, 'TransferShelveCache', data_directory='dir')
        r = it.call(it.getattr(cache, 'read'), [], {})
        got = list(r) if isinstance(r, list) else list(it.iterate(r))
        ctx.prove('C17.cache.read.returns-every-record', len(got) == 3 and all(any(x is y for x in got) for y in (a, b, c)),
                  f'3 records stored (an upload and a download of bob for one path, a download of eve), {len(got)} returned')
    ex.run(read, 'cache-read')


def prove_manager_cache_calls(src_root, ex: Explorer):
    """(a) TransferManager.write_cache() hands the CURRENT list to the cache, whatever its length - with an empty list too: that is how the
    removal of the last transfer reaches the disk (C17.write.exact removes the stale entries).  (b) TransferManager.start() keeps the
    management queue it finds: load_data() runs before start() and every loaded transfer posts its wake-up (C17.add.wired) into that
    queue; replacing the queue on start drops them and the loaded transfers are never scheduled."""
    def write(ctx: Ctx):
        it = mk(src_root, ctx)
        n = ctx.choose(3, 'n')
        ts = [Opaque('t0'), Opaque('t1')][:n]
        written = []
        cache = Stub('cache', write=Recorder('write', fn=lambda it2, a, k: written.append(a[0])))
        mgr = new(it, MGR, 'TransferManager', _transfers=ts, cache=cache)
        it.call(it.getattr(mgr, 'write_cache'), [], {})
        ctx.prove(f'C17.write_cache.writes-current-list[n={n}]', len(written) == 1 and list(written[0]) == ts,
                  f'{len(written)} cache writes for a list of {n} transfers: what was removed since the last write stays in the cache')
    ex.run(write, 'manager-write-cache')

    def stop(ctx: Ctx):
        """the client stores the data AFTER it stopped the services (C16.stop.client): stop() must leave the list of transfers alone"""
        from contracts.C16 import BT
        it = mk(src_root, ctx)
        it.natives['asyncio.Queue'] = Native('Queue', lambda it2, a, k: Opaque('a new queue'))
        ts = [new(it, MODEL, 'Transfer', _remotely_queue_task=None, _transfer_task=None) for _ in range(2)]
        lst = list(ts)
        mgr = new(it, MGR, 'TransferManager', _transfers=lst, _management_queue=Opaque('q'), _management_task=BT('management'),
                  _progress_reporting_task=BT('progress'))
        run(it, it.getattr(mgr, 'stop'))
        now = mgr.attrs['_transfers']
        ctx.prove('C17.stop.keeps-transfers', isinstance(now, list) and len(now) == 2 and all(a is b for a, b in zip(now, ts)),
                  'stop() dropped transfers from the list: the cache written on shutdown loses them')
    ex.run(stop, 'manager-stop')

    def start(ctx: Ctx):
        from contracts.C16 import BT
        it = mk(src_root, ctx)
        it.natives['asyncio.Queue'] = Native('Queue', lambda it2, a, k: Opaque('a new queue'))
        q = Opaque('queue with the wake-ups of the loaded transfers')
        mt, pt = BT('management'), BT('progress')
        mgr = new(it, MGR, 'TransferManager', _transfers=[], _management_queue=q, _management_task=mt, _progress_reporting_task=pt)
        run(it, it.getattr(mgr, 'start'))
        ctx.prove('C17.start.keeps-pending-wakeups', mgr.attrs['_management_queue'] is q and mt.started == 1,
                  'start() replaced the management queue: the cycle requests posted while the cache was loaded are lost')
    ex.run(start, 'manager-start')


def items(src_root, tier):
    return [('format', None), ('manager', None)] + [('pickle', s) for s in C03.STATE_CLASSES] + [('key', None), ('write', None)] + [('read_cache', s) for s in C03.STATE_CLASSES] + [('add', None)]


def run_item(src_root, item, tier):
    res = std_result('C17')
    ex = Explorer()
    kind, arg = item
    try:
        if kind == 'pickle':
            prove_pickle(src_root, arg, ex)
        elif kind == 'key':
            prove_key(src_root, ex)
        elif kind == 'write':
            prove_write(src_root, ex, res)
        elif kind == 'read_cache':
            prove_read_cache(src_root, arg, ex)
        elif kind == 'add':
            prove_add(src_root, ex)
        elif kind == 'manager':
            prove_manager_cache_calls(src_root, ex)
        elif kind == 'format':
            prove_format_and_read(src_root, ex)
    except Unsupported as e:
        res.errors.append(f'{kind}:{arg}: unsupported: {e}')
    collect(res, ex)
    res.functions.update([f'{MODEL}:Transfer.__getstate__', f'{MODEL}:Transfer.__setstate__', f'{MODEL}:Transfer.__eq__',
                          f'{STATE}:TransferState.init_from_state', f'{CACHE}:TransferShelveCache.write',
                          f'{MGR}:TransferManager.read_cache', f'{MGR}:TransferManager.add'])
    return res
