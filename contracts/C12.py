"""C12 -- a reply completes exactly the requests it answers; a timeout is a timeout.  DESIGN.md section 4 / C12."""
from __future__ import annotations
import ast

import z3

from pyvc.ctx import Ctx, Explorer, Unsupported, PathAbort
from pyvc.interp import Interp, CoroVal
from pyvc.values import (Sym, Obj, ClassVal, PyRaise, Native, Bound, PyFunc, ExcVal, BUILTIN_CLASSES, Opaque, unbox, z3int)
from pyvc import natives as N
from pyvc import aio as A
from contracts.common import (source, mk, cls, func, new, run, enum, Recorder, Stub, collect, std_result)

NET = 'network.network'
CONN = 'network.connection'
CLIENT = 'client'

ASSUMPTIONS = [
    'A-asyncio: Future.set_result/set_exception raise InvalidStateError on a done future; done-callbacks run as '
    'separate activations after the current atomic section; async_timeout cancels the awaited future on expiry and '
    'raises TimeoutError out of the block',
    'A-atomic: cooperative scheduling',
    'loop rule for `for expected_response in futures`: the body is executed for an ARBITRARY element; it is checked to '
    'write only that element and to raise nothing, so the postcondition holds for every element of a list of any length',
]
TRUSTED_BASE = ['pyvc engine', 'z3', 'abstract asyncio model pyvc/aio.py']
NOT_DECIDED = []


def bool_term(it, v):
    t = it.truth(v)
    return z3.BoolVal(t) if isinstance(t, bool) else t


def prove_matches(src_root, ex: Explorer):
    """C12.matches.spec: result <=> connection class == expected and message class == expected and
    (peer is None or not a peer connection or connection.username == peer) and for EVERY (field, expected):
    callable ? (message has the field and expected(value)) : getattr(message, field, None) == expected"""
    shapes = ['none', 'scalar', 'callable', 'scalar+callable', 'callable+scalar', 'callable+callable', 'callable-missing',
              'scalar-missing', 'scalar+scalar']

    def path(ctx: Ctx):
        it = mk(src_root, ctx)
        shape = shapes[ctx.choose(len(shapes), 'fields')]
        conn_is_peer = ctx.choose(2, 'conn') == 1
        exp_is_peer = ctx.choose(2, 'expected-conn') == 1
        msg_kind = ['other', 'same', 'other-class-same-id'][ctx.choose(3, 'msg-class')]
        same_msg = msg_kind == 'same'
        peer_given = ctx.choose(2, 'peer') == 1
        SC, PC = cls(it, CONN, 'ServerConnection'), cls(it, CONN, 'PeerConnection')
        M1 = cls(it, 'protocol.messages', 'GetPeerAddress.Response')
        M2 = cls(it, 'protocol.messages', 'GetUserStatus.Response')
        conn = Obj(PC if conn_is_peer else SC)
        uname = Sym(ctx.fresh_str('conn_user'), 'str')
        conn.attrs['username'] = uname
        peer = Sym(ctx.fresh_str('peer'), 'str') if peer_given else None
        # message ids are only unique per family: a distributed message carries the same id as this server message
        M3 = cls(it, 'protocol.messages', 'DistributedSearchRequest.Request')
        if msg_kind == 'other-class-same-id' and unbox(it.getattr(M3, 'MESSAGE_ID')) != unbox(it.getattr(M1, 'MESSAGE_ID')):
            raise Unsupported('C12.matches: the pair of message classes with equal MESSAGE_ID is gone')
        msg = Obj({'same': M1, 'other': M2, 'other-class-same-id': M3}[msg_kind])
        a_val, b_val = Sym(ctx.fresh_int('a'), 'int'), Sym(ctx.fresh_str('b'), 'str')
        msg.attrs.update(a=a_val, b=b_val)
        exp_a, exp_b = Sym(ctx.fresh_int('ea'), 'int'), Sym(ctx.fresh_str('eb'), 'str')
        ca, cb = ctx.fresh_bool('pred_a'), ctx.fresh_bool('pred_b')
        called = []

        def pred(tag, term, expect_arg):
            def fn(it2, args, kwargs):
                called.append((tag, args[0] is expect_arg))
                return Sym(term, 'bool')
            return Recorder('matcher_' + tag, fn=fn)
        fields = {}
        spec = []
        for part in ([] if shape == 'none' else shape.split('+')):
            nm = 'a' if 'a' not in fields and part != 'callable-missing' and part != 'scalar-missing' else 'b'
            if part == 'scalar':
                fields[nm] = exp_a if nm == 'a' else exp_b
                spec.append((a_val.t == exp_a.t) if nm == 'a' else (b_val.t == exp_b.t))
            elif part == 'callable':
                fields[nm] = pred(nm, ca if nm == 'a' else cb, a_val if nm == 'a' else b_val)
                spec.append(ca if nm == 'a' else cb)
            elif part == 'callable-missing':
                fields['zz'] = pred('zz', ca, None)
                spec.append(z3.BoolVal(False))
            elif part == 'scalar-missing':
                fields['zz'] = exp_a            # getattr(msg, 'zz', None) != expected  (expected is not None)
                spec.append(z3.BoolVal(False))
        er = new(it, NET, 'ExpectedResponse', connection_class=PC if exp_is_peer else SC, message_class=M1, peer=peer, fields=fields)
        want = z3.And(z3.BoolVal(conn_is_peer == exp_is_peer), z3.BoolVal(same_msg),
                      z3.BoolVal(True) if (peer is None or not conn_is_peer) else (uname.t == peer.t), *spec)
        try:
            res = it.call(it.getattr(er, 'matches'), [conn, msg], {})
        except PyRaise as pr:
            ctx.fail(f'C12.matches.no-raise[{shape}]', f'{pr.exc!r}')
            return
        got = bool_term(it, res)
        ctx.prove(f'C12.matches.spec[{shape}]', got == want,
                  f'matches() returned {res!r}; fields={list(fields)}; spec conjunction over ALL fields')
        ctx.prove(f'C12.matches.matcher-arg[{shape}]', all(ok for _, ok in called) or 'missing' in shape,
                  'a callable matcher must be applied to the value of its own field')
    ex.run(path, 'matches')


def mk_network(it, ctx):
    net = new(it, NET, 'Network')
    log = []
    bus = Stub('bus', emit=Recorder('emit', fn=lambda it2, a, k: log.append('emit'), is_async=True))
    net.attrs.update(_expected_response_futures=[], _event_bus=bus, _MESSAGE_MAP={})
    return net, log


def prove_on_message_received(src_root, ex: Explorer):
    """C12.on_message_received.complete: for every future f in the list: matches(f) and not done(f) on entry
    => completed with (connection, message); otherwise untouched; raises nothing; handlers and bus listeners first."""
    def path(ctx: Ctx):
        it = mk(src_root, ctx)
        net, log = mk_network(it, ctx)
        conn = Obj(cls(it, CONN, 'ServerConnection'))
        # the connection may be closing or closed by the time the handlers have run (a handler or listener closed it, the peer hung up): the
        # message WAS received, its waiters are completed all the same
        conn.attrs['state'] = enum(it, CONN, 'ConnectionState', ['CONNECTED', 'CLOSING', 'CLOSED'][ctx.choose(3, 'connection-state-after-handlers')])
        M1 = cls(it, 'protocol.messages', 'GetPeerAddress.Response')
        msg = Obj(M1)
        handler_known = ctx.choose(2, 'handler') == 1
        if handler_known:
            net.attrs['_MESSAGE_MAP'] = {M1: Recorder('handler', fn=lambda it2, a, k: log.append('handler'), is_async=True)}
        # arbitrary element of the (arbitrarily long) list of pending futures
        f = new(it, NET, 'ExpectedResponse')
        fut = f.ghost['future']
        d0, m0, c0 = ctx.fresh_bool('done'), ctx.fresh_bool('matches'), ctx.fresh_bool('cancelled')
        fut.done, fut.cancelled = d0, z3.And(d0, c0)
        # the waiter can also expire or be cancelled WHILE the handlers / listeners of this message run (they are awaited first): the
        # done-check has to be made when the future is about to be completed, not before
        expires_meanwhile = ctx.choose(2, 'expires-while-handlers-run') == 1
        if expires_meanwhile:
            ctx.assume(z3.Not(d0))
            fut.done, fut.cancelled = False, False
            flipped = []

            def on_yield(it2, label):
                if not flipped:
                    flipped.append(label)
                    fut.done, fut.cancelled = True, True
            it.aio.on_yield = on_yield

        def c_matches(it2, fn, args, kwargs):
            log.append('match-check')
            return Sym(m0, 'bool')
        it.hooks[f'{NET}:ExpectedResponse.matches'] = c_matches
        other = new(it, NET, 'ExpectedResponse')
        net.attrs['_expected_response_futures'] = [f]
        it.write_log = []
        was_done = None
        try:
            run(it, it.getattr(net, 'on_message_received'), msg, conn)
        except PyRaise as pr:
            ctx.fail('C12.on_message_received.no-raise',
                     f'{pr.exc.cls.name} raised while completing futures (an already done / cancelled-not-yet-removed future '
                     f'that matches): the loop is aborted and later pending futures stay incomplete')
            return
        ctx.ok('C12.on_message_received.no-raise')
        res = fut.result_val
        if expires_meanwhile:
            ctx.prove('C12.on_message_received.expired-meanwhile', res is None and bool(flipped),
                      'a waiter that expired while the handlers of the message ran was completed anyway')
            return
        completed_now = isinstance(res, tuple) and len(res) == 2 and res[0] is conn and res[1] is msg
        # on this path the engine has decided done/matches concretely (branches); state the spec per path
        ctx.prove('C12.on_message_received.complete', z3.Implies(z3.And(m0, z3.Not(d0)), z3.BoolVal(completed_now)),
                  'a pending future that the message answers was not completed with (connection, message)')
        ctx.prove('C12.on_message_received.only-matching', z3.Implies(z3.Or(z3.Not(m0), d0), z3.BoolVal(not completed_now and res is None)),
                  'a future that does not match or was already done must stay untouched')
        ctx.prove('C12.on_message_received.frame', all(o is f or o is net for o, _ in it.write_log) and not other.ghost['future'].done)
        order_ok = (log.index('match-check') > max([i for i, x in enumerate(log) if x in ('handler', 'emit')] + [-1])) if 'match-check' in log else True
        ctx.prove('C12.on_message_received.order', order_ok and log.count('emit') == 1 and log.count('handler') == (1 if handler_known else 0),
                  f'sequence {log}')
    ex.run(path, 'on_message_received')


def prove_wait_for(src_root, which, ex: Explorer):
    # timeout: the expiry cancelled the awaited future.  timeout-with-result: the matching reply was handled in the same loop iteration in
    # which the timer fired - the future holds a RESULT when TimeoutError is raised.  timeout-pending: TimeoutError while the future is
    # still pending (it has to be completed so that its removal callback runs)
    outcomes = ['message', 'timeout', 'caller-cancelled', 'timeout-with-result', 'timeout-pending']

    def path(ctx: Ctx):
        it = mk(src_root, ctx)
        net, log = mk_network(it, ctx)
        oc = outcomes[ctx.choose(len(outcomes), 'outcome')]
        conn = Obj(cls(it, CONN, 'ServerConnection'))
        M1 = cls(it, 'protocol.messages', 'GetPeerAddress.Response')
        msg = Obj(M1)
        made = []

        def on_yield(it2, label):
            pass
        orig_instantiate = it.instantiate
        ER = cls(it, NET, 'ExpectedResponse')

        def hook_await(it2, task):
            if oc == 'message':
                task.result_val = (conn, msg)
                task.complete(it2)
                return task.result_val
            if oc == 'timeout-with-result':
                task.result_val = (conn, msg)
                task.complete(it2)
                it2.throw('TimeoutError')
            if oc == 'timeout-pending':
                it2.throw('TimeoutError')
            if oc == 'timeout':
                # async_timeout: the awaiting task is cancelled, which cancels the awaited future; the block
                # then raises TimeoutError
                task.cancelled = True
                task.complete(it2)
                it2.throw('TimeoutError')
            task.cancelled = True
            task.complete(it2)
            it2.throw('CancelledError')
        args = [M1] if which == 'server' else ['peer', M1]
        # intercept the future created inside
        real_create = it.getattr(net, f'create_{which}_response_future')

        def c_create(it2, fn, a, k):
            fobj = it2.inline(fn, a, k)
            fobj.ghost['future'].on_await = hook_await
            made.append(fobj)
            return fobj
        it.hooks[f'{NET}:Network.create_{which}_response_future'] = c_create
        name = f'C12.wait_for_{which}_message'
        try:
            res = run(it, it.getattr(net, f'wait_for_{which}_message'), *args)
            raised = None
        except PyRaise as pr:
            raised = pr.exc.cls.name
            res = None
        fobj = made[0] if made else None
        if oc == 'message':
            ctx.prove(f'{name}.result', raised is None and res is msg, f'raised {raised}, returned {res!r}')
        elif oc.startswith('timeout'):
            ctx.prove(f'{name}.timeout' + ('' if oc == 'timeout' else f'[{oc[8:]}]'), raised == 'TimeoutError',
                      f'on expiry the caller gets {raised} instead of TimeoutError (set_exception on the future the timeout already cancelled)')
        else:
            ctx.prove(f'{name}.cancel', raised == 'CancelledError', f'raised {raised}')
        ctx.prove(f'{name}.future-done[{oc}]', fobj is not None and fobj.ghost['future'].done is True,
                  'the future must be done on every exit so that its removal callback runs')
        cbs = fobj.ghost['future'].callbacks if fobj else []
        ctx.prove(f'{name}.removal-registered[{oc}]',
                  any(isinstance(c, Bound) and isinstance(c.func, PyFunc) and c.func.node.name == '_remove_response_future' for c in cbs))
    ex.run(path, f'wait_for_{which}')


def prove_registration(src_root, ex: Explorer):
    sites = ['create_server_response_future', 'create_peer_response_future', 'register_response_future']

    def path(ctx: Ctx):
        it = mk(src_root, ctx)
        net, log = mk_network(it, ctx)
        site = sites[ctx.choose(3, 'site')]
        M1 = cls(it, 'protocol.messages', 'GetPeerAddress.Response')
        if site == 'register_response_future':
            f = new(it, NET, 'ExpectedResponse')
            it.call(it.getattr(net, site), [f], {})
        elif site == 'create_server_response_future':
            prior = it.call(it.getattr(net, site), [M1], {'fields': {'a': 1}})
            f = it.call(it.getattr(net, site), [M1], {'fields': {'a': 1}})
        else:
            prior = it.call(it.getattr(net, site), ['peer', M1], {})
            f = it.call(it.getattr(net, site), ['peer', M1], {})
        lst = net.attrs['_expected_response_futures']
        if site != 'register_response_future':
            # two callers waiting for the same message each own a future: the timeout or cancellation of one caller cancels ITS future
            # (C12.wait_for_*), which must not be the future another caller is waiting on
            ctx.prove(f'C12.registration.{site}.own-future', f is not prior and sum(1 for x in lst if x is prior) == 1 and sum(1 for x in lst if x is f) == 1,
                      'a second identical request got the future of the first one: cancelling one caller cancels the other')
            # the YOUNGER of two identical requests ends (timeout / cancellation): exactly IT leaves the registry, the older one stays
            it.call(it.getattr(net, '_remove_response_future'), [f], {})
            ctx.prove(f'C12.registration.{site}.removes-that-future', [x for x in lst if x is prior or x is f] == [prior] and any(x is prior for x in lst),
                      'removing one of two identical pending requests took the other one out of the registry (it misses its answer)')
            lst[:] = [x for x in lst if x is not prior and x is not f]
            lst.append(f)
        cbs = f.ghost['future'].callbacks
        ok = lst.count(f) == 1 and len(cbs) == 1 and it.aio.yields == []
        if ok:
            # the callback, whatever its form (bound method, closure, partial), takes THIS future out of the list when it is done
            witness = new(it, NET, 'ExpectedResponse')
            lst.append(witness)
            it.call(cbs[0], [f], {})
            ok = lst.count(f) == 0 and lst.count(witness) == 1
            lst.remove(witness)
            lst.append(f)
        ctx.prove(f'C12.registration.{site}', ok, 'registered once, removal callback attached in the same atomic section')
        if site != 'register_response_future':
            want_conn = 'ServerConnection' if 'server' in site else 'PeerConnection'
            ctx.prove(f'C12.registration.{site}.fields',
                      f.attrs['connection_class'].name == want_conn and f.attrs['message_class'] is M1 and
                      (f.attrs['peer'] == 'peer' if 'peer' in site else f.attrs['peer'] is None))
        # removal is idempotent and removes exactly that future
        other = new(it, NET, 'ExpectedResponse')
        lst.append(other)
        try:
            it.call(it.getattr(net, '_remove_response_future'), [f], {})
            it.call(it.getattr(net, '_remove_response_future'), [f], {})
        except PyRaise as pr:
            ctx.fail(f'C12.registration.{site}.removal-idempotent', f'second removal raises {pr.exc!r}')
            return
        ctx.prove(f'C12.registration.{site}.removal-idempotent', lst == [other])
    ex.run(path, 'registration')


def prove_execute(src_root, ex: Explorer):
    outcomes = ['no-session', 'send-fails', 'send-cancelled', 'no-response-wanted', 'no-response-defined', 'answered', 'timeout']

    def path(ctx: Ctx):
        it = mk(src_root, ctx)
        oc = outcomes[ctx.choose(len(outcomes), 'outcome')]
        net, log = mk_network(it, ctx)
        client = new(it, CLIENT, 'SoulSeekClient', network=net, session=None if oc == 'no-session' else Stub('session'))
        conn = Obj(cls(it, CONN, 'ServerConnection'))
        msg = Obj(cls(it, 'protocol.messages', 'GetPeerAddress.Response'))
        f = new(it, NET, 'ExpectedResponse')
        fut = f.ghost['future']
        sent = []

        def send(it2, a, k):
            sent.append(a)
            if oc == 'send-fails':
                it2.throw('ConnectionResetError', 'send failed')
            if oc == 'send-cancelled':              # the caller is cancelled while command.send() is suspended
                it2.throw('CancelledError')

        def hook_await(it2, task):
            if oc == 'answered':
                task.result_val = (conn, msg)
                task.complete(it2)
                return task.result_val
            task.cancelled = True
            task.complete(it2)
            it2.throw('TimeoutError')
        fut.on_await = hook_await
        handled = []
        cmd = Stub('command', send=Recorder('send', fn=send, is_async=True),
                   build_expected_response=Recorder('build', ret=None if oc == 'no-response-defined' else f),
                   handle_response=Recorder('handle', fn=lambda it2, a, k: (handled.append(a), 'VALUE')[1]))
        want_resp = oc not in ('no-response-wanted',)
        try:
            res = run(it, it.getattr(client, 'execute'), cmd, response=want_resp)
            raised = None
        except PyRaise as pr:
            raised, res = pr.exc.cls.name, None
        lst = net.attrs['_expected_response_futures']
        if oc == 'no-session':
            ctx.prove('C12.execute.no-session', raised == 'InvalidSessionError' and not sent and not lst)
        elif oc == 'send-fails':
            ctx.prove('C12.execute.send-fails', raised == 'ConnectionResetError' and fut.done is True and fut.cancelled is True,
                      'on a failed send the registered future must be cancelled (so it is removed) and the error re-raised')
        elif oc == 'send-cancelled':
            ctx.prove('C12.execute.send-cancelled', raised == 'CancelledError' and fut.done is True and fut.cancelled is True,
                      f'execute() cancelled inside command.send() (raised {raised}): the expectation registered before the send must be cancelled, '
                      'otherwise it stays in the registry for ever (a cancelled request leaves residue)')
        elif oc in ('no-response-wanted', 'no-response-defined'):
            ctx.prove(f'C12.execute.{oc}', raised is None and res is None and not lst and len(sent) == 1 and not fut.awaited)
        elif oc == 'answered':
            ctx.prove('C12.execute.answered', raised is None and res == 'VALUE' and len(handled) == 1 and handled[0][1] is msg
                      and lst.count(f) == 1)
            ctx.prove('C12.execute.registered-before-send', lst.count(f) == 1 and len(fut.callbacks) == 1)
        else:
            ctx.prove('C12.execute.timeout', raised == 'TimeoutError' and fut.done is True,
                      f'on expiry execute() raised {raised}; the future must be done so that it is removed')
    ex.run(path, 'execute')


def prove_transfer_waiters(src_root, ex: Explorer):
    """Pending requests created by the transfer negotiation (TransferManager._initialize_upload: the PeerTransferReply waiter) - exit-path
    contract: on EVERY exit of the function (request could not be sent, reply, time-out) each waiter it registered is done, so that its
    removal callback takes it out of the registry.  A waiter registered before a failing send and never awaited stays pending for ever."""
    TMGR = 'transfer.manager'
    outcomes = ['send-fails', 'reply-refused', 'timeout']

    def path(ctx: Ctx):
        it = mk(src_root, ctx)
        oc = outcomes[ctx.choose(len(outcomes), 'outcome')]
        net, log = mk_network(it, ctx)
        created = []
        real_create = it.getattr(net, 'create_peer_response_future')
        reply = Stub('reply', allowed=False, reason='Cancelled')

        def hook_await(it2, task):
            if oc == 'timeout':
                task.cancelled = True
                task.complete(it2)
                it2.throw('TimeoutError')
            task.result_val = (Stub('connection'), reply)
            task.complete(it2)
            return task.result_val

        def c_create(it2, fn, a, k):
            fobj = it2.inline(fn, a, k)
            fobj.ghost['future'].on_await = hook_await
            created.append(fobj)
            return fobj
        it.hooks[f'{NET}:Network.create_peer_response_future'] = c_create

        def send(it2, fn, a, k):
            def body(it3):
                if oc == 'send-fails':
                    raise PyRaise(ExcVal(cls(it3, 'exceptions', 'ConnectionWriteError'), ('x',)))
            return A.SimpleAwaitable(it2.aio, 'send_peer_messages', body)
        it.hooks[f'{NET}:Network.send_peer_messages'] = send
        st = Stub('state', **{m: Recorder(m, is_async=True) for m in ('initialize', 'queue', 'fail', 'start_transferring', 'complete', 'incomplete')})
        t = Stub('transfer', state=st, username='bob', remote_path='f', filesize=10)
        mgr = new(it, TMGR, 'TransferManager', _network=net, _ticket_generator=Stub('gen'))
        it.natives['builtins.next'] = Native('builtins.next', lambda it2, a, k: 7)
        try:
            run(it, it.getattr(mgr, '_initialize_upload'), t)
        except PyRaise as pr:
            ctx.fail(f'C12.negotiation.no-raise[{oc}]', repr(pr.exc))
            return
        pending = [f for f in created if f.ghost['future'].done is not True]
        ctx.prove(f'C12.negotiation.no-waiter-left[{oc}]', not pending,
                  f'{len(pending)} PeerTransferReply waiter(s) registered by _initialize_upload are still pending when it returns: they are never removed')
    ex.run(path, 'transfer-waiters')


# Which fields of a reply identify the request it answers (reading of "carries the expected field values" per command; the reply classes
# and their identifying fields are protocol facts: a room message is echoed with room, sender and text, a ticker with room, user and text,
# peer replies carry no user name and are tied to the peer through the connection).  (connection class, reply class, fields, peer given)
COMMAND_REPLIES = {
    'GetUserStatusCommand': ('ServerConnection', 'GetUserStatus.Response', ['username'], False),
    'GetUserStatsCommand': ('ServerConnection', 'GetUserStats.Response', ['username'], False),
    'GetRoomListCommand': ('ServerConnection', 'RoomList.Response', [], False),
    'JoinRoomCommand': ('ServerConnection', 'JoinRoom.Response', ['room'], False),
    'LeaveRoomCommand': ('ServerConnection', 'LeaveRoom.Response', ['room'], False),
    'GrantRoomMembershipCommand': ('ServerConnection', 'PrivateRoomGrantMembership.Response', ['room', 'username'], False),
    'RevokeRoomMembershipCommand': ('ServerConnection', 'PrivateRoomRevokeMembership.Response', ['room', 'username'], False),
    'DropRoomMembershipCommand': ('ServerConnection', 'PrivateRoomMembershipRevoked.Response', ['room'], False),
    'GetItemRecommendationsCommand': ('ServerConnection', 'GetItemRecommendations.Response', ['item'], False),
    'GetRecommendationsCommand': ('ServerConnection', 'GetRecommendations.Response', [], False),
    'GetGlobalRecommendationsCommand': ('ServerConnection', 'GetGlobalRecommendations.Response', [], False),
    'GetItemSimilarUsersCommand': ('ServerConnection', 'GetItemSimilarUsers.Response', ['item'], False),
    'GetSimilarUsersCommand': ('ServerConnection', 'GetSimilarUsers.Response', [], False),
    'GetPeerAddressCommand': ('ServerConnection', 'GetPeerAddress.Response', ['username'], False),
    'GrantRoomOperatorCommand': ('ServerConnection', 'PrivateRoomGrantOperator.Response', ['room', 'username'], False),
    'RevokeRoomOperatorCommand': ('ServerConnection', 'PrivateRoomRevokeOperator.Response', ['room', 'username'], False),
    'TogglePrivateRoomInvitesCommand': ('ServerConnection', 'TogglePrivateRoomInvites.Response', ['enabled'], False),
    'RoomMessageCommand': ('ServerConnection', 'RoomChatMessage.Response', ['message', 'room', 'username'], False),
    'SetRoomTickerCommand': ('ServerConnection', 'RoomTickerAdded.Response', ['room', 'ticker', 'username'], False),
    'GetUserInterestsCommand': ('ServerConnection', 'GetUserInterests.Response', ['username'], False),
    'CheckPrivilegesCommand': ('ServerConnection', 'CheckPrivileges.Response', [], False),
    'TrackUserCommand': ('ServerConnection', 'AddUser.Response', ['username'], False),
    'PeerGetUserInfoCommand': ('PeerConnection', 'PeerUserInfoReply.Request', [], True),
    'PeerGetSharesCommand': ('PeerConnection', 'PeerSharesReply.Request', [], True),
    'PeerGetDirectoryContentCommand': ('PeerConnection', 'PeerDirectoryContentsReply.Request', ['directory', 'ticket'], True),
}


def scan_command_replies(src_root, ex: Explorer):
    """C12.command.expected[<Command>]: the ExpectedResponse a command builds names the reply class of the table, on the right kind of
    connection, is tied to the peer where the table says so, and constrains AT LEAST the identifying fields of the table (a matcher with
    fewer fields is completed by messages that answer somebody else's request)."""
    src, _ = source(src_root)
    mod = src.module('commands')

    def path(ctx: Ctx):
        seen = 0
        for c in mod.tree.body:
            if not isinstance(c, ast.ClassDef) or c.name not in COMMAND_REPLIES:
                continue
            fn = [f for f in c.body if isinstance(f, ast.FunctionDef) and f.name == 'build_expected_response']
            if not fn:
                continue
            calls = [n for n in ast.walk(fn[0]) if isinstance(n, ast.Call) and ast.unparse(n.func) == 'ExpectedResponse']
            if len(calls) != 1:
                raise Unsupported(f'{c.name}.build_expected_response: {len(calls)} ExpectedResponse(...) calls (the scan reads exactly one)')
            call = calls[0]
            kw = {k.arg: k.value for k in call.keywords}
            args = [ast.unparse(a) for a in call.args]
            conn = args[0] if args else ast.unparse(kw.get('connection_class', ast.Constant(None)))
            msg = args[1] if len(args) > 1 else ast.unparse(kw.get('message_class', ast.Constant(None)))
            fields = kw.get('fields')
            if fields is not None and not isinstance(fields, ast.Dict):
                raise Unsupported(f'{c.name}.build_expected_response: fields is not a dictionary display')
            keys = sorted(k.value for k in fields.keys if isinstance(k, ast.Constant)) if fields is not None else []
            w_conn, w_msg, w_fields, w_peer = COMMAND_REPLIES[c.name]
            seen += 1
            ctx.prove(f'C12.command.expected[{c.name}]', conn == w_conn and msg == w_msg and set(w_fields) <= set(keys) and (('peer' in kw) or not w_peer),
                      f'{c.name} waits for {msg} on {conn} with fields {keys}{", peer" if "peer" in kw else ""}; the reply that answers it is '
                      f'{w_msg} on {w_conn} with at least {w_fields}{", from that peer" if w_peer else ""}')
        ctx.prove('C12.command.expected.scan-nonempty', seen >= 20, f'{seen} commands with a reply found')
    ex.run(path, 'command-replies')


def prove_command_expects_its_ticket(src_root, ex: Explorer):
    """execute() registers the expectation BEFORE the request is sent (C12.execute.registered-before-send: a fast reply must not be missed).
    For a command whose reply is identified by a ticket the expectation registered at that moment must therefore already carry the ticket
    the request is then sent with - "carries the expected field values" means the values of THIS request.  The real
    build_expected_response and send of every such command are run in the order execute() runs them."""
    import ast as _ast
    src, _ = source(src_root)
    mod = src.module('commands')
    names = []
    for c in mod.tree.body:
        if isinstance(c, _ast.ClassDef) and c.name in COMMAND_REPLIES and 'ticket' in COMMAND_REPLIES[c.name][2]:
            names.append(c.name)

    def path(ctx: Ctx):
        if not names:
            ctx.fail('C12.command.expects-ticket-sent.scan-nonempty', 'no command with a ticket in its reply found')
            return
        it = mk(src_root, ctx)
        name = names[ctx.choose(len(names), 'command')]
        sent = []
        net = Stub('network', send_peer_messages=Recorder('send_peer_messages', fn=lambda it2, a, k: sent.extend(a[1:]), is_async=True),
                   send_server_messages=Recorder('send_server_messages', fn=lambda it2, a, k: sent.extend(a), is_async=True))
        t0 = ctx.fresh_int('next_ticket')

        class Gen:
            n = 0

            def pyvc_next(self, it2):
                Gen.n += 1
                return Sym(t0 + (Gen.n - 1), 'int')
        client = Stub('client', network=net, ticket_generator=Gen(), session=Stub('session', user=Stub('user', name='me')))
        C = cls(it, 'commands', name)
        import inspect as _inspect
        init = [f for f in [x for x in mod.tree.body if isinstance(x, _ast.ClassDef) and x.name == name][0].body
                if isinstance(f, _ast.FunctionDef) and f.name == '__init__']
        nargs = len(init[0].args.args) - 1 if init else 0
        cmd = it.call(C, [Sym(ctx.fresh_str(f'arg{i}'), 'str') for i in range(nargs)], {})
        exp = it.call(it.getattr(cmd, 'build_expected_response'), [client], {})
        run(it, it.getattr(cmd, 'send'), client)
        tickets = [m.attrs['ticket'] for m in sent if isinstance(m, Obj) and 'ticket' in m.attrs]
        fields = exp.attrs.get('fields') if isinstance(exp, Obj) else None
        got = fields.get('ticket') if isinstance(fields, dict) else None
        ok = len(tickets) == 1 and got is not None and not callable(got) and ctx.valid(z3int(unbox(got)) == z3int(unbox(tickets[0])))
        ctx.prove(f'C12.command.expects-ticket-sent[{name}]', ok,
                  f'{name}: the expectation registered before the send waits for ticket {got!r}, the request is sent with ticket {tickets!r}: '
                  'the reply to this request never completes it (time-out although the reply arrived)')
    ex.run(path, 'command-ticket')


def prove_place_in_queue_waiter(src_root, ex: Explorer):
    """TransferManager.request_place_in_queue: the reply that answers it comes from that peer and names EXACTLY the remote path of the
    transfer (a peer has several files with the same base name) - a scalar matcher, not a predicate on part of the path"""
    def path(ctx: Ctx):
        it = mk(src_root, ctx)
        waits = []
        # whatever is computed from the path beforehand (regular expressions, splitting) is of no interest here: abstract results
        it.natives['re.split'] = Native('re.split', lambda it2, a, k: [Sym(ctx.fresh_str('piece'), 'str')])
        rp = Sym(ctx.fresh_str('remote_path'), 'str')
        reply = Stub('reply', filename=rp, place=3)

        def create(it2, a, k):
            waits.append(k if k else a)
            return A.SimpleAwaitable(it2.aio, 'reply', lambda it3: (Opaque('conn'), reply))
        net = Stub('network', send_peer_messages=Recorder('send_peer_messages', is_async=True),
                   create_peer_response_future=Recorder('create_peer_response_future', fn=create))
        t = new(it, 'transfer.model', 'Transfer', username='bob', remote_path=rp, place_in_queue=None)
        mgr = new(it, 'transfer.manager', 'TransferManager', _network=net)
        try:
            run(it, it.getattr(mgr, 'request_place_in_queue'), t)
        except PyRaise as pr:
            ctx.fail('C12.negotiation.place-in-queue.exact-file', repr(pr.exc))
            return
        w = waits[0] if waits else {}
        fields = w.get('fields') if isinstance(w, dict) else None
        ctx.prove('C12.negotiation.place-in-queue.exact-file', len(waits) == 1 and isinstance(w, dict) and w.get('peer') == 'bob'
                  and isinstance(fields, dict) and fields.get('filename') is rp,
                  f'the place-in-queue reply is awaited with {w!r}')
    ex.run(path, 'place-in-queue-waiter')


def prove_delivery_relies(src_root, ex: Explorer):
    """"Completes with the FIRST incoming message that matches" presupposes that messages reach on_message_received in the order they
    arrived and one at a time: the reader loop awaits the callback of a message before it reads the next (C02.reader_loop.*), discharged
    here as well.  And a pending request is touched by matching messages and by its own timeout only: the CLOSED handler of a peer
    connection leaves the waiters for that peer alone (the answer may arrive over another connection; otherwise the caller's own
    timeout ends the wait with TimeoutError, C12.wait_for_*)."""
    from contracts import C02

    def closed(ctx: Ctx):
        it = mk(src_root, ctx)
        net, log = mk_network(it, ctx)
        conn = Obj(cls(it, CONN, 'PeerConnection'))
        conn.attrs.update(username='bob', connection_type='P')
        f = new(it, NET, 'ExpectedResponse', connection_class=cls(it, CONN, 'PeerConnection'),
                message_class=cls(it, 'protocol.messages', 'PeerSharesReply.Request'), peer='bob', fields={})
        other = new(it, NET, 'ExpectedResponse', connection_class=cls(it, CONN, 'PeerConnection'),
                    message_class=cls(it, 'protocol.messages', 'PeerSharesReply.Request'), peer='eve', fields={})
        net.attrs['_expected_response_futures'] = [f, other]
        net.attrs['peer_connections'] = [conn]
        run(it, it.getattr(net, '_on_peer_connection_state_changed'), enum(it, CONN, 'ConnectionState', 'CLOSED'), conn)
        fut = f.ghost['future']
        ctx.prove('C12.closed.leaves-waiters', not fut.cancel_requested and fut.done is False and net.attrs['_expected_response_futures'] == [f, other]
                  and not other.ghost['future'].cancel_requested,
                  'closing the last connection of a peer cancelled / removed the requests waiting for that peer: the callers get CancelledError '
                  'instead of the reply over a new connection or their own timeout')
    ex.run(closed, 'closed-leaves-waiters')
    C02.prove_reader_loop(src_root, ex)
    # "no residue": the waiters of an indirect connection attempt (ticket, CannotConnect notice) are gone on every exit (C11.indirect.exit.*)
    from contracts import C11
    C11.prove_indirect(src_root, ex)
    for ob in ex.obligations:
        if ob.name.startswith('C02.'):
            ob.name = 'C12.delivery-in-order.' + ob.name[4:]
        elif ob.name.startswith('C11.'):
            ob.name = 'C12.no-residue.' + ob.name[4:]


def prove_emit_contains_listener_errors(src_root, ex: Explorer):
    """on_message_received completes the waiters AFTER the handlers and the event listeners of the message have run (C12.on_message_received.
    order); its no-raise contract assumes that EventBus.emit lets no Exception of a listener escape.  That assumption is the contract of
    emit, discharged here on the real body: for a co-routine listener and a plain one, raising or not, emit returns normally and the
    listeners registered after a failing one are still called - a reply whose listener fails still completes its requests."""
    kinds = ['coroutine', 'plain']

    def path(ctx: Ctx):
        it = mk(src_root, ctx)
        kind = kinds[ctx.choose(2, 'listener-kind')]
        raises = ctx.choose(2, 'first-listener-raises') == 1
        calls = []

        def first(it2, a, k):
            calls.append('first')
            if raises:
                it2.throw('ValueError', 'listener failed')
        l1 = Recorder('listener-1', fn=first, is_async=(kind == 'coroutine'), yields=False)
        l2 = Recorder('listener-2', fn=lambda it2, a, k: calls.append('second'), is_async=(kind == 'coroutine'), yields=False)
        bus = new(it, 'events', 'EventBus', _events={})
        it.hooks['events:EventBus._get_listeners_for_event'] = lambda it2, f, a, k: [l1, l2]
        tagname = f'C12.emit.contains-listener-errors[{kind},{"raises" if raises else "returns"}]'
        try:
            run(it, it.getattr(bus, 'emit'), Opaque('event'))
        except PyRaise as pr:
            ctx.fail(tagname, f'{pr.exc!r} escaped from EventBus.emit: on_message_received is aborted before the waiters of the message are completed')
            return
        ctx.prove(tagname, calls == ['first', 'second'], f'listeners run: {calls}')
    ex.run(path, 'emit')


def items(src_root, tier):
    return [('emit', None), ('place', None), ('delivery', None), ('commands', None), ('negotiation', None), ('matches', None), ('omr', None), ('wait', 'server'), ('wait', 'peer'), ('registration', None), ('execute', None)]


def run_item(src_root, item, tier):
    res = std_result('C12')
    ex = Explorer()
    kind, arg = item
    try:
        if kind == 'negotiation':
            prove_transfer_waiters(src_root, ex)
        elif kind == 'matches':
            prove_matches(src_root, ex)
        elif kind == 'omr':
            prove_on_message_received(src_root, ex)
        elif kind == 'wait':
            prove_wait_for(src_root, arg, ex)
        elif kind == 'registration':
            prove_registration(src_root, ex)
        elif kind == 'execute':
            prove_execute(src_root, ex)
        elif kind == 'commands':
            scan_command_replies(src_root, ex)
            prove_command_expects_its_ticket(src_root, ex)
        elif kind == 'delivery':
            prove_delivery_relies(src_root, ex)
        elif kind == 'place':
            prove_place_in_queue_waiter(src_root, ex)
        elif kind == 'emit':
            prove_emit_contains_listener_errors(src_root, ex)
    except Unsupported as e:
        res.errors.append(f'{kind}:{arg}: unsupported: {e}')
    collect(res, ex)
    res.functions.update([f'{NET}:ExpectedResponse.matches', f'{NET}:Network.on_message_received',
                          f'{NET}:Network.wait_for_server_message', f'{NET}:Network.wait_for_peer_message',
                          f'{NET}:Network.create_server_response_future', f'{NET}:Network.create_peer_response_future',
                          f'{NET}:Network.register_response_future', f'{NET}:Network._remove_response_future',
                          f'{CLIENT}:SoulSeekClient.execute'])
    return res
