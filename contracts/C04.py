"""C04 -- COMPLETE means the whole file arrived; resuming never corrupts it.  DESIGN.md section 4 / C04."""
from __future__ import annotations

import z3

from pyvc.ctx import Ctx, Explorer, Unsupported, PathAbort
from pyvc.interp import Interp, CoroVal
from pyvc.values import (Sym, Obj, PyRaise, Native, Bound, ExcVal, EnumMember, Opaque, unbox, z3int, z3str, BUILTIN_CLASSES,
                         ReturnEx, ContinueEx, BreakEx)
from pyvc import natives as N
from pyvc import aio as A
from pyvc.rope import Rope, Blob, LE, rope_equal
from contracts.common import (source, mk, cls, func, new, run, enum, Recorder, Stub, collect, std_result)

MGR = 'transfer.manager'
MODEL = 'transfer.model'
CONN = 'network.connection'

ASSUMPTIONS = [
    'A-fs: getsize returns the current size, a file opened in append mode is written at its end, nobody else writes the file',
    'receive_data(n) returns None at EOF or a non-empty chunk of at most n bytes or raises ConnectionReadError (C02._read.contract)',
    'A-atomic cooperative scheduling; C03 (state methods), C01 (uint64 layout)',
]
TRUSTED_BASE = ['pyvc engine', 'z3', 'abstract asyncio / aiofiles model']
NOT_DECIDED = ['byte identity of the PAIR of clients over a faulty transport for all cut points (two-party, needs both sides)',
               'behaviour of a dishonest sender beyond "not COMPLETE"', 'eventual completion once faults stop (liveness)']


def blob(ctx, name, lo=0):
    n = ctx.fresh_int(name + '.len')
    ctx.assume(n >= lo)
    return Rope([Blob((name, ctx.fresh_name(name)), n)]), n


def mk_conn(it, ctx):
    c = Obj(cls(it, CONN, 'PeerConnection'))
    return c


def prove_receive_file(src_root, ex: Explorer):
    """Loop contract of PeerConnection.receive_file.  Ghost: received (bytes taken from the connection so far).
       invariant   bytes_received == received == bytes written == bytes reported to the callback, in order
       iteration   asks for at most the granted tokens; EOF => return; otherwise the chunk is written once, then reported
                   once; the loop ends iff bytes_received >= filesize afterwards
       entry       nothing is read when nothing is missing (filesize <= 0)"""
    def iteration(ctx: Ctx):
        it = mk(src_root, ctx)
        c = mk_conn(it, ctx)
        grant = ctx.fresh_int('grant')
        ctx.assume(grant >= 1)
        c.attrs['download_rate_limiter'] = Stub('limiter', take_tokens=Recorder('take_tokens', ret=Sym(grant, 'int'), is_async=True))
        eof = ctx.choose(2, 'eof') == 1
        chunk, n = blob(ctx, 'chunk', lo=1)
        asked, log = [], []

        def c_receive_data(it2, f, a, k):
            asked.append(a[1])
            return A.SimpleAwaitable(it2.aio, 'receive_data', lambda it3: None if eof else chunk)
        it.hooks[f'{CONN}:PeerConnection.receive_data'] = c_receive_data
        fh = Stub('handle', write=Recorder('write', fn=lambda it2, a, k: log.append(('write', a[0])), is_async=True))
        cb = Recorder('callback', fn=lambda it2, a, k: log.append(('callback', a[0])))
        filesize, r0 = ctx.fresh_int('filesize'), ctx.fresh_int('bytes_received')
        ctx.assume(z3.And(r0 >= 0, r0 < filesize))          # invariant at the loop head: something is still missing
        state = {}

        def loop(it2, node, env):
            # the counter of received bytes is identified by its role, not by its name: the one local that is the integer 0 when the
            # loop is first reached (the ghost `received` of the contract)
            counters = [k for k, v in env.vars.items() if isinstance(v, int) and not isinstance(v, bool) and v == 0]
            if len(counters) != 1:
                raise Unsupported(f'receive_file: cannot identify the byte counter among {counters}')
            cname = counters[0]
            env.vars[cname] = Sym(r0, 'int')
            test = it2.eval(node.test, env)
            if not it2.decide(test):
                state['exit'] = 'guard'
                return
            try:
                it2.exec_block(node.body, env)
            except ContinueEx:
                pass
            except BreakEx:
                state['exit'] = 'break'
                state['r1'] = env.lookup(cname)
                return
            except ReturnEx:
                state['exit'] = 'return'
                state['r1'] = env.lookup(cname)
                raise
            state['r1'] = env.lookup(cname)
            state['exit'] = 'guard' if not it2.decide(it2.eval(node.test, env)) else 'continues'
        it.loop_specs[(f'{CONN}:PeerConnection.receive_file', 0)] = loop
        ctx.assume(n <= grant)            # receive_data contract: at most the requested number of bytes
        try:
            run(it, it.getattr(c, 'receive_file'), fh, Sym(filesize, 'int'), cb)
            returned = state.get('exit') != 'continues'
        except PyRaise as pr:
            ctx.fail('C04.receive_file.loop.no-raise', repr(pr.exc))
            return
        ctx.prove('C04.receive_file.loop.asks-granted', len(asked) == 1 and ctx.valid(z3int(asked[0]) <= grant))
        if eof:
            ctx.prove('C04.receive_file.loop.eof', state.get('exit') != 'continues' and not log, 'EOF ends the loop; nothing is written after it')
            return
        ctx.prove('C04.receive_file.loop.chunk', log == [('write', chunk), ('callback', chunk)],
                  f'each chunk is written once and then reported once, unchanged: {[(a, repr(b)) for a, b in log]}')
        r1 = state.get('r1')
        ctx.prove('C04.receive_file.loop.invariant', r1 is not None and ctx.valid(z3int(r1) == r0 + n), 'bytes_received counts exactly the bytes written')
        done = r0 + n >= filesize
        ended = state.get('exit') != 'continues'
        ctx.prove('C04.receive_file.loop.exit', ctx.valid(done) if ended else ctx.valid(z3.Not(done)), 'the loop ends iff all announced bytes were received')
    ex.run(iteration, 'receive_file-iteration')

    def entry(ctx: Ctx):
        it = mk(src_root, ctx)
        c = mk_conn(it, ctx)
        c.attrs['download_rate_limiter'] = Stub('limiter', take_tokens=Recorder('take_tokens', ret=128, is_async=True))
        asked = []

        def c_receive_data(it2, f, a, k):
            asked.append(a[1])
            return A.SimpleAwaitable(it2.aio, 'receive_data', lambda it3: it3.throw('TimeoutError', 'nobody sends anything'))
        it.hooks[f'{CONN}:PeerConnection.receive_data'] = c_receive_data
        filesize = ctx.fresh_int('filesize')
        ctx.assume(filesize <= 0)
        try:
            run(it, it.getattr(c, 'receive_file'), Stub('handle'), Sym(filesize, 'int'), None)
            raised = None
        except PyRaise as pr:
            raised = pr.exc.cls.name
        ctx.prove('C04.receive_file.nothing-missing', raised is None and not asked,
                  'with 0 bytes missing (empty file, or the local file is already complete) receive_file still waits for data: the uploader has '
                  'nothing to send and waits for EOF, so the download times out, goes INCOMPLETE and is retried for ever')
    ex.run(entry, 'receive_file-entry')


def prove_send_file(src_root, ex: Explorer):
    def iteration(ctx: Ctx):
        it = mk(src_root, ctx)
        c = mk_conn(it, ctx)
        grant = ctx.fresh_int('grant')
        ctx.assume(grant >= 1)
        c.attrs['upload_rate_limiter'] = Stub('limiter', take_tokens=Recorder('take_tokens', ret=Sym(grant, 'int'), is_async=True))
        empty = ctx.choose(2, 'eof') == 1
        chunk, n = blob(ctx, 'chunk', lo=1)
        asked, log = [], []

        def read(it2, a, k):
            asked.append(a[0])
            return Rope() if empty else chunk
        fh = Stub('handle', read=Recorder('read', fn=read, is_async=True))

        def c_send_data(it2, f, a, k):
            return A.SimpleAwaitable(it2.aio, 'send_data', lambda it3: log.append(('send', a[1])))
        it.hooks[f'{CONN}:PeerConnection.send_data'] = c_send_data
        cb = Recorder('callback', fn=lambda it2, a, k: log.append(('callback', a[0])))
        state = {}

        def loop(it2, node, env):
            try:
                it2.exec_block(node.body, env)
            except ContinueEx:
                pass
            state['exit'] = 'continues'
        it.loop_specs[(f'{CONN}:PeerConnection.send_file', 0)] = loop
        run(it, it.getattr(c, 'send_file'), fh, cb)
        ctx.prove('C04.send_file.loop.reads-granted', len(asked) == 1 and ctx.valid(z3int(asked[0]) <= grant))
        if empty:
            ctx.prove('C04.send_file.loop.eof', state.get('exit') != 'continues' and not log)
        else:
            ctx.prove('C04.send_file.loop.chunk', log == [('send', chunk), ('callback', chunk)] and state.get('exit') == 'continues',
                      'each chunk read from the file is sent once and then reported once, unchanged')
    ex.run(iteration, 'send_file-iteration')


def mk_transfer(it, ctx, direction):
    calls = []
    st = Stub('state', VALUE=Opaque('value'), **{m: Recorder(m, fn=(lambda mm: lambda it2, a, k: calls.append((mm, a, k)) or True)(m), is_async=True)
                                               for m in ('complete', 'incomplete', 'fail', 'queue', 'start_transferring', 'initialize', 'abort')})
    fs, bt = ctx.fresh_int('filesize'), ctx.fresh_int('bytes_transfered')
    ctx.assume(z3.And(fs >= 0, bt >= 0))
    t = new(it, MODEL, 'Transfer', username='bob', remote_path='remote', local_path='/dl/file', filesize=Sym(fs, 'int'),
            bytes_transfered=Sym(bt, 'int'), state=st)
    t.attrs['direction'] = enum(it, MODEL, 'TransferDirection', direction)
    return t, calls, fs, bt


def prove_download_file(src_root, ex: Explorer):
    outcomes = ['returns', 'ConnectionReadError', 'OSError-open', 'OSError-write', 'CancelledError', 'prepare-OSError']

    def path(ctx: Ctx):
        it = mk(src_root, ctx)
        oc = outcomes[ctx.choose(len(outcomes), 'outcome')]
        t, calls, fs, bt0 = mk_transfer(it, ctx, 'DOWNLOAD')
        disc, opened, recv = [], [], []

        def c_prepare(it2, f, a, k):
            def body(it3):
                if oc == 'prepare-OSError':
                    it3.throw('OSError', 'mkdir')
            return A.SimpleAwaitable(it2.aio, 'prepare', body)
        it.hooks[f'{MGR}:TransferManager._prepare_download_path'] = c_prepare

        class Handle:
            def pyvc_enter(self, it2, is_async):
                if oc == 'OSError-open':
                    it2.throw('OSError', 'open')
                return self

            def pyvc_exit(self, it2, exc, is_async):
                closed_after.append([c[0] for c in calls if c[0] != 'start_transferring'])
                return False

        closed_after = []

        def aopen(it2, a, k):
            opened.append((a[0], k.get('mode', a[1] if len(a) > 1 else 'r')))
            return Handle()
        it.natives['aiofiles.open'] = Native('aiofiles.open', aopen)
        got = ctx.fresh_int('appended')
        ctx.assume(got >= 0)

        def receive_file(it2, a, k):
            recv.append((a, t.attrs['bytes_transfered']))
            # the transfer's own callback is the only writer of bytes_transfered: offset + bytes appended
            t.attrs['bytes_transfered'] = Sym(bt0 + got, 'int')
            if oc == 'ConnectionReadError':
                raise PyRaise(ExcVal(cls(it2, 'exceptions', 'ConnectionReadError'), ('x',)))
            if oc == 'OSError-write':
                it2.throw('OSError', 'disk full')
            if oc == 'CancelledError':
                it2.throw('CancelledError')
        conn = Stub('connection', receive_file=Recorder('receive_file', fn=receive_file, is_async=True),
                    disconnect=Recorder('disconnect', fn=lambda it2, a, k: disc.append(a), is_async=True),
                    set_connection_state=Recorder('set_connection_state'))
        mgr = new(it, MGR, 'TransferManager')
        try:
            run(it, it.getattr(mgr, '_download_file'), t, conn)
            raised = None
        except PyRaise as pr:
            raised = pr.exc.cls.name
        ends = [c[0] for c in calls if c[0] != 'start_transferring']
        name = f'C04._download_file[{oc}]'
        if oc == 'prepare-OSError':
            ctx.prove(name, ends == ['fail'] and not opened and raised is None and len(disc) == 1)
            return
        mode_ok = len(opened) == 1 and opened[0] == ('/dl/file', 'ab')
        ctx.prove('C04._download_file.append-mode', mode_ok, f'the local file must be opened once in append mode: {opened}')
        if oc == 'returns':
            eq = fs == bt0 + got
            if 'complete' in ends:
                ctx.prove('C04._download_file.complete-guard', ends == ['complete'] and ctx.valid(eq) and raised is None,
                          'COMPLETE although filesize != offset + bytes appended')
                # COMPLETE is announced after the local file was closed (flushed): whoever reacts to COMPLETE finds the whole file
                ctx.prove('C04._download_file.complete-after-close', closed_after == [[]],
                          f'state operations issued while the local file was still open: {closed_after}')
            else:
                ctx.prove('C04._download_file.not-complete', ends == ['fail'] and ctx.valid(z3.Not(eq)), f'state calls {ends}')
            ok = len(recv) == 1
            if ok:
                a, bt_at_call = recv[0]
                ok = ctx.valid(z3int(a[1]) == fs - bt0) and a[2].func.node.name == '_transfer_progress_callback' and a[2].self_val is t
            ctx.prove('C04._download_file.requests-missing-bytes', ok, 'receive_file must be asked for filesize - offset bytes with the transfer\'s own progress callback')
        elif oc == 'ConnectionReadError':
            ctx.prove(name, ends == ['incomplete'] and raised is None, f'a connection fault must leave the download INCOMPLETE (kept prefix): {ends}')
        elif oc in ('OSError-open', 'OSError-write'):
            ok = ends == ['fail'] and raised is None
            if ok:
                reason = [c for c in calls if c[0] == 'fail'][0][2].get('reason')
                ok = unbox(reason) == it.class_attr(cls(it, MODEL, 'FailReason'), 'FILE_READ_ERROR')
            ctx.prove(name, ok, f'{ends}')
        elif oc == 'CancelledError':
            ctx.prove(name, not ends and raised == 'CancelledError' and len(disc) == 1, 'cancellation: close the file connection, leave the state to the canceller')
    ex.run(path, 'download_file')


def prove_upload_file(src_root, ex: Explorer):
    outcomes = ['returns', 'ConnectionWriteError', 'OSError', 'CancelledError', 'no-local-path']

    def path(ctx: Ctx):
        it = mk(src_root, ctx)
        oc = outcomes[ctx.choose(len(outcomes), 'outcome')]
        t, calls, fs, bt0 = mk_transfer(it, ctx, 'UPLOAD')
        if oc == 'no-local-path':
            t.attrs['local_path'] = None
        order, opened, peer_msgs = [], [], []
        sent = ctx.fresh_int('sent')
        ctx.assume(sent >= 0)

        class Handle:
            def pyvc_enter(self, it2, is_async):
                if oc == 'OSError':
                    it2.throw('OSError', 'open')
                return self

            def pyvc_exit(self, it2, exc, is_async):
                return False

            def pyvc_getattr(self, it2, name):
                if name == 'seek':
                    return Recorder('seek', fn=lambda it3, a, k: order.append(('seek', a[0])), is_async=True)
                raise Unsupported(name)

        def aopen(it2, a, k):
            opened.append((a[0], k.get('mode', a[1] if len(a) > 1 else 'r')))
            return Handle()
        it.natives['aiofiles.open'] = Native('aiofiles.open', aopen)

        def send_file(it2, a, k):
            order.append(('send_file', a[1] if len(a) > 1 else None))
            t.attrs['bytes_transfered'] = Sym(bt0 + sent, 'int')
            if oc == 'ConnectionWriteError':
                raise PyRaise(ExcVal(cls(it2, 'exceptions', 'ConnectionWriteError'), ('x',)))
            if oc == 'CancelledError':
                it2.throw('CancelledError')
        conn = Stub('connection', send_file=Recorder('send_file', fn=send_file, is_async=True),
                    disconnect=Recorder('disconnect', fn=lambda it2, a, k: order.append(('disconnect',)), is_async=True),
                    receive_until_eof=Recorder('receive_until_eof', fn=lambda it2, a, k: order.append(('eof', k.get('raise_exception'))), is_async=True),
                    set_connection_state=Recorder('set_connection_state'))
        ended_when_told = []
        net = Stub('network', send_peer_messages=Recorder('send_peer_messages', is_async=True,
                                                          fn=lambda it2, a, k: (peer_msgs.append(a), ended_when_told.append([c[0] for c in calls if c[0] != 'start_transferring']))))
        mgr = new(it, MGR, 'TransferManager', _network=net)
        try:
            run(it, it.getattr(mgr, '_upload_file'), t, conn)
            raised = None
        except PyRaise as pr:
            raised = pr.exc.cls.name
        ends = [c[0] for c in calls if c[0] != 'start_transferring']
        name = f'C04._upload_file[{oc}]'
        if oc == 'returns':
            seek_ok = len(order) >= 3 and order[0][0] == 'seek' and ctx.valid(z3int(order[0][1]) == bt0) and order[1][0] == 'send_file' \
                and order[2] == ('eof', False) and opened == [('/dl/file', 'rb')]
            ctx.prove('C04._upload_file.resumes-at-offset', seek_ok, f'open rb, seek to the received offset, send, then wait for the peer to close: {order}')
            eq = fs == bt0 + sent
            if 'complete' in ends:
                ctx.prove('C04._upload_file.complete-guard', ends == ['complete'] and ctx.valid(eq) and 'eof' in [o[0] for o in order],
                          'COMPLETE only after everything from the offset was sent and the peer closed the connection')
            else:
                ctx.prove('C04._upload_file.not-complete', ends == ['fail'] and ctx.valid(z3.Not(eq)))
        elif oc == 'ConnectionWriteError':
            ok = ends == ['fail'] and raised is None and len(peer_msgs) == 1 and peer_msgs[0][0] == 'bob' \
                and peer_msgs[0][1].cls.qual == 'PeerUploadFailed.Request' and peer_msgs[0][1].attrs['filename'] == 'remote'
            ctx.prove(name, ok, f'{ends} {peer_msgs}')
            # the downloader answers PeerUploadFailed with a new queue request: it must find the upload FAILED (re-queued), not still
            # UPLOADING (ignored: the download is never queued again)
            ctx.prove('C04._upload_file.failed-before-the-peer-is-told', ended_when_told == [['fail']],
                      f'state operations issued before PeerUploadFailed was sent: {ended_when_told}')
        elif oc == 'OSError':
            ctx.prove(name, ends == ['fail'] and ('disconnect',) in order and raised is None)
        elif oc == 'CancelledError':
            ctx.prove(name, not ends and raised == 'CancelledError' and ('disconnect',) in order)
        else:
            ctx.prove(name, ends == ['fail'] and not opened and raised is None)
    ex.run(path, 'upload_file')


def prove_offset(src_root, ex: Explorer):
    def calc(ctx: Ctx):
        it = mk(src_root, ctx)
        oc = ['size', 'OSError', 'no-path'][ctx.choose(3, 'outcome')]
        size = ctx.fresh_int('size')
        ctx.assume(size >= 0)
        asked = []

        def getsize(it2, a, k):
            def body(it3):
                asked.append(a[0])
                if oc == 'OSError':
                    it3.throw('FileNotFoundError', 'no such file')
                return Sym(size, 'int')
            return A.SimpleAwaitable(it2.aio, 'getsize', body)
        it.natives['aiofiles.os.path.getsize'] = Native('getsize', getsize)
        # the announced size may be anything relative to the local file (smaller too: the local file is then NOT a prefix of the remote
        # one and the size guard of _download_file must see the true offset - the transfer may not go COMPLETE)
        announced = ctx.fresh_int('announced')
        ctx.assume(announced >= 0)
        t = new(it, MODEL, 'Transfer', local_path=None if oc == 'no-path' else '/dl/file',
                filesize=[None, Sym(announced, 'int')][ctx.choose(2, 'filesize-known')], bytes_transfered=0)
        mgr = new(it, MGR, 'TransferManager')
        r = run(it, it.getattr(mgr, '_calculate_offset'), t)
        if oc == 'size':
            ctx.prove('C04._calculate_offset[size]', asked == ['/dl/file'] and ctx.valid(z3int(r) == size), 'offset = size of the local file')
        else:
            ctx.prove(f'C04._calculate_offset[{oc}]', unbox(r) == 0)
    ex.run(calc, 'calculate_offset')

    def recv_offset(ctx: Ctx):
        """PeerConnection.receive_transfer_offset (uploader side): the 8 bytes of the offset are read with readexactly - TCP may deliver them in
        two segments, a plain read(8) returns the first one and the upload dies on a short buffer"""
        it = mk(src_root, ctx)
        c = mk_conn(it, ctx)
        reads = []
        off = ctx.fresh_int('offset')
        ctx.assume(z3.And(off >= 0, off < (1 << 64)))
        from pyvc.rope import Rope, LE
        data = Rope([LE(8, off)])
        c.attrs['_reader'] = Stub('reader', readexactly=Recorder('readexactly', fn=lambda it2, a, k: (reads.append(('readexactly', a[0])), data)[1], is_async=True),
                                  read=Recorder('read', fn=lambda it2, a, k: (reads.append(('read', a[0])), data)[1], is_async=True))
        it.hooks[f'{CONN}:DataConnection._read'] = lambda it2, f, a, k: A.SimpleAwaitable(it2.aio, '_read', lambda it3: it3.await_value(a[1]))
        try:
            r = run(it, it.getattr(c, 'receive_transfer_offset'))
        except PyRaise as pr:
            ctx.fail('C04.receive_transfer_offset.exactly-8-bytes', repr(pr.exc))
            return
        ctx.prove('C04.receive_transfer_offset.exactly-8-bytes', reads == [('readexactly', 8)] and ctx.valid(z3int(r) == off),
                  f'the offset was read with {reads}')
    ex.run(recv_offset, 'receive_transfer_offset')

    def send(ctx: Ctx):
        """tail of _initialize_download after the file connection arrived: offset recorded and sent as le(8, offset)"""
        it = mk(src_root, ctx)
        t, calls, fs, bt0 = mk_transfer(it, ctx, 'DOWNLOAD')
        off = ctx.fresh_int('offset')
        ctx.assume(z3.And(off >= 0, off < (1 << 64)))
        mgr = new(it, MGR, 'TransferManager', _file_connection_futures={})
        it.hooks[f'{MGR}:TransferManager._calculate_offset'] = lambda it2, f, a, k: A.SimpleAwaitable(it2.aio, 'offset', lambda it3: Sym(off, 'int'))
        sent_file, dl = [], []
        fconn = Stub('file_connection', send_message=Recorder('send', fn=lambda it2, a, k: sent_file.append((a[0], t.attrs['bytes_transfered'])), is_async=True),
                     disconnect=Recorder('disconnect', is_async=True))
        it.hooks[f'{MGR}:TransferManager._download_file'] = lambda it2, f, a, k: A.SimpleAwaitable(it2.aio, 'download', lambda it3: dl.append((a[1], a[2], t.attrs['bytes_transfered'])))
        pconn = Stub('peer_connection', send_message=Recorder('send', is_async=True))
        announced = ctx.fresh_int('announced_filesize')
        ctx.assume(announced >= 0)
        req = new(it, 'protocol.messages', 'PeerTransferRequest.Request', ticket=5, direction=1, filename='remote', filesize=Sym(announced, 'int'))
        # the future for the incoming file connection completes with it
        orig_future = it.natives['asyncio.Future']

        def mk_future(it2, a, k):
            f = orig_future.fn(it2, a, k)
            f.on_await = lambda it3, task: fconn
            return f
        it.natives['asyncio.Future'] = Native('asyncio.Future', mk_future)
        run(it, it.getattr(mgr, '_initialize_download'), t, pconn, req)
        ok = len(sent_file) == 1 and len(dl) == 1
        if ok:
            data, bt_at_send = sent_file[0]
            ok = rope_equal(ctx, N.to_rope(it, data), Rope([LE(8, off)]))[0] and ctx.valid(z3int(t.attrs['bytes_transfered']) == off) \
                and dl[0][0] is t and dl[0][1] is fconn and ctx.valid(z3int(dl[0][2]) == off)
        ctx.prove('C04._initialize_download.filesize', ctx.valid(z3int(unbox(t.attrs['filesize'])) == announced),
                  'the size the COMPLETE guard compares with must be the size announced for THIS attempt (the remote file may have changed since an '
                  'earlier, interrupted attempt)')
        ctx.prove('C04._initialize_download.offset', ok,
                  'the resume offset is the local file size: recorded as bytes_transfered, sent as a little-endian uint64 on the file connection, then the download starts')
    ex.run(send, 'initialize_download-offset')

    def progress(ctx: Ctx):
        it = mk(src_root, ctx)
        bt = ctx.fresh_int('bt')
        t = new(it, MODEL, 'Transfer', bytes_transfered=Sym(bt, 'int'))
        it.hooks[f'{MODEL}:Transfer.add_speed_log_entry'] = lambda it2, f, a, k: None
        data, n = blob(ctx, 'data')
        it.call(it.getattr(t, '_transfer_progress_callback'), [data], {})
        ctx.prove('C04._transfer_progress_callback', z3int(t.attrs['bytes_transfered']) == bt + n)
        fs = ctx.fresh_int('fs')
        t.attrs['filesize'] = Sym(fs, 'int')
        r = it.truth(it.call(it.getattr(t, 'is_transfered'), [], {}))
        ctx.prove('C04.is_transfered', r == (fs == bt + n))
    ex.run(progress, 'progress')


def prove_negotiated_offset_is_used(src_root, ex: Explorer):
    """Both ends count from the offset negotiated for THIS attempt.  Uploader (_initialize_upload): whatever progress an earlier attempt
    left in bytes_transfered (a re-queued upload keeps it), the byte phase starts with bytes_transfered == the offset just received - for
    EVERY offset, 0 included (a downloader that starts over must get the head of the file).  Downloader (_initialize_download): from the
    moment the PeerTransferReply(allowed) has been sent the future for the incoming file connection is registered at every suspension -
    the uploader may deliver connection and ticket at once, and a ticket that finds no future gets its connection closed."""
    def upload(ctx: Ctx):
        it = mk(src_root, ctx)
        t, calls, fs, stale = mk_transfer(it, ctx, 'UPLOAD')
        off = ctx.fresh_int('negotiated_offset')
        ctx.assume(z3.And(off >= 0, off < (1 << 64)))
        fconn = Stub('file_connection', send_message=Recorder('send', is_async=True), disconnect=Recorder('disconnect', is_async=True),
                     receive_transfer_offset=Recorder('receive_transfer_offset', ret=Sym(off, 'int'), is_async=True))
        reply = Stub('reply', allowed=True, reason=None, ticket=7)
        net = Stub('network', send_peer_messages=Recorder('send_peer_messages', is_async=True),
                   create_peer_response_future=Recorder('create_peer_response_future', ret=(Stub('peer_connection'), reply), is_async=True),
                   create_peer_connection=Recorder('create_peer_connection', ret=fconn, is_async=True))
        mgr = new(it, MGR, 'TransferManager', _network=net, _ticket_generator=Stub('gen'))
        it.natives['builtins.next'] = Native('builtins.next', lambda it2, a, k: 7)
        started = []
        it.hooks[f'{MGR}:TransferManager._upload_file'] = lambda it2, f, a, k: A.SimpleAwaitable(
            it2.aio, 'upload', lambda it3: started.append((a[1], a[2], t.attrs['bytes_transfered'])))
        try:
            run(it, it.getattr(mgr, '_initialize_upload'), t)
        except PyRaise as pr:
            ctx.fail('C04._initialize_upload.starts-at-negotiated-offset', repr(pr.exc))
            return
        ok = len(started) == 1 and started[0][0] is t and started[0][1] is fconn and ctx.valid(z3int(unbox(started[0][2])) == off)
        ctx.prove('C04._initialize_upload.starts-at-negotiated-offset', ok,
                  'the byte phase of an upload must start with bytes_transfered == the offset received for this attempt (0 included); progress left '
                  f'by an earlier attempt must not survive: upload started with {[x[2] for x in started]}')
    ex.run(upload, 'upload-offset')

    def download(ctx: Ctx):
        it = mk(src_root, ctx)
        t, calls, fs, bt0 = mk_transfer(it, ctx, 'DOWNLOAD')
        mgr = new(it, MGR, 'TransferManager', _file_connection_futures={})
        it.hooks[f'{MGR}:TransferManager._calculate_offset'] = lambda it2, f, a, k: A.SimpleAwaitable(it2.aio, 'offset', lambda it3: 0)
        it.hooks[f'{MGR}:TransferManager._download_file'] = lambda it2, f, a, k: A.SimpleAwaitable(it2.aio, 'download', lambda it3: None)
        allowed_sent = []

        def reply_sent(it2, a, k):
            m = a[0]
            if isinstance(m, Obj) and it2.truth(m.attrs.get('allowed')) is True:
                allowed_sent.append(m)
        pconn = Stub('peer_connection', send_message=Recorder('send', fn=reply_sent, is_async=True))
        fconn = Stub('file_connection', send_message=Recorder('send', is_async=True), disconnect=Recorder('disconnect', is_async=True))
        req = new(it, 'protocol.messages', 'PeerTransferRequest.Request', ticket=5, direction=1, filename='remote', filesize=10)
        orig_future = it.natives['asyncio.Future']

        def mk_future(it2, a, k):
            f = orig_future.fn(it2, a, k)
            f.on_await = lambda it3, task: fconn
            return f
        it.natives['asyncio.Future'] = Native('asyncio.Future', mk_future)
        unregistered = []

        def on_yield(it2, label):
            futs = mgr.attrs['_file_connection_futures']
            if allowed_sent and not unregistered and isinstance(futs, dict) and 5 not in futs and not done:
                unregistered.append(str(label))
        done = []
        it.aio.on_yield = on_yield
        # once the file connection has arrived the future has served its purpose: only suspensions before that count
        real_hook = it.hooks[f'{MGR}:TransferManager._calculate_offset']
        try:
            orig_on_await = fconn

            def mk_future2(it2, a, k):
                f = orig_future.fn(it2, a, k)

                def arrived(it3, task):
                    done.append(1)
                    return fconn
                f.on_await = arrived
                return f
            it.natives['asyncio.Future'] = Native('asyncio.Future', mk_future2)
            run(it, it.getattr(mgr, '_initialize_download'), t, pconn, req)
        except PyRaise as pr:
            ctx.fail('C04._initialize_download.future-registered-when-allowed', repr(pr.exc))
            return
        ctx.prove('C04._initialize_download.future-registered-when-allowed', bool(allowed_sent) and not unregistered,
                  f'after PeerTransferReply(allowed) was sent _initialize_download suspends ({unregistered}) while no future is registered for the '
                  'ticket: a file connection that arrives now is closed by _on_peer_initialized and the attempt is lost')
    ex.run(download, 'download-future')


RETRY_STATES = ['VIRGIN', 'QUEUED', 'INITIALIZING', 'INCOMPLETE', 'COMPLETE', 'UPLOADING', 'FAILED', 'ABORTED', 'PAUSED']


def prove_retry(src_root, ex: Explorer):
    """Uploader half of the retry path ("once faults stop the pair finishes without user action"): PeerTransferQueue for an upload that is
    already in the list and still shared.  The downloader re-sends the request after a cut; the upload is then FAILED (a write failed) or
    COMPLETE (all bytes were written but the tail was lost): in both states it MUST be queued again; ABORTED is answered with a refusal;
    in every other state (queued or being processed) nothing may happen to it.  Exhaustive over the states."""
    def path(ctx: Ctx):
        from contracts import C08
        it = mk(src_root, ctx)
        sname = RETRY_STATES[ctx.choose(len(RETRY_STATES), 'upload-state')]
        shared = ctx.choose(2, 'still-shared') == 1
        w = C08.mk_transfer_manager(it, ctx, blocked=False)
        calls = []
        st = Stub('state', VALUE=enum(it, 'transfer.state', 'TransferState.State', sname),
                  queue=Recorder('queue', fn=lambda it2, a, k: calls.append('queue'), is_async=True),
                  fail=Recorder('fail', fn=lambda it2, a, k: calls.append(('fail', a, k)), is_async=True))
        t = Stub('upload', state=st)
        it.hooks[f'{MGR}:TransferManager.find_transfer'] = lambda it2, f, a, k: t
        it.hooks[f'{MGR}:TransferManager._add_upload'] = lambda it2, f, a, k: (_ for _ in ()).throw(Unsupported('_add_upload for an existing upload'))
        w['shares'].attrs['find_shared_item'] = Recorder('find_shared_item', ret=Stub('item') if shared else None, is_async=True)
        fn = Sym(ctx.fresh_str('filename'), 'str')
        run(it, it.getattr(w['mgr'], '_on_peer_transfer_queue'), Stub('PeerTransferQueue', filename=fn), w['conn'])
        refusals = [m.attrs.get('reason') for m in w['queued']]
        if not shared:
            ctx.prove(f'C04.retry.uploader[{sname},unshared]', 'queue' not in calls and refusals == ['File not shared.'],
                      'a request for a file that is no longer shared must be refused and not queued')
        elif sname in ('FAILED', 'COMPLETE'):
            ctx.prove(f'C04.retry.uploader[{sname}]', calls == ['queue'] and not refusals,
                      'the downloader asks again after a cut: an upload that FAILED or is COMPLETE on this side must be queued again, '
                      'otherwise the download waits forever')
        elif sname == 'ABORTED':
            ctx.prove('C04.retry.uploader[ABORTED]', not calls and refusals == ['Cancelled'])
        else:
            ctx.prove(f'C04.retry.uploader[{sname}]', not calls and not refusals,
                      'an upload that is queued or being processed must not be disturbed by a repeated request')
    ex.run(path, 'retry-uploader')


def prove_retry_downloader(src_root, ex: Explorer):
    """Downloader half of the retry path: PeerUploadFailed (the uploader tells us its attempt failed) for a download that still wants the
    file - QUEUED or INCOMPLETE - clears the remotely_queued mark and requests a management cycle, so that the download is queued
    remotely again.  Otherwise the download waits for an upload that never comes."""
    def path(ctx: Ctx):
        from contracts import C08
        it = mk(src_root, ctx)
        sname = ['QUEUED', 'INCOMPLETE'][ctx.choose(2, 'state')]
        w = C08.mk_transfer_manager(it, ctx, blocked=False)
        st = Stub('state', VALUE=enum(it, 'transfer.state', 'TransferState.State', sname))
        t = new(it, MODEL, 'Transfer', username='bob', remote_path='f', remotely_queued=True, state=st)
        cycles = []
        it.hooks[f'{MGR}:TransferManager.find_transfer'] = lambda it2, f, a, k: t
        it.hooks[f'{MGR}:TransferManager.request_management_cycle'] = lambda it2, f, a, k: cycles.append(a[1])
        run(it, it.getattr(w['mgr'], '_on_peer_upload_failed'), Stub('PeerUploadFailed', filename=Sym(ctx.fresh_str('filename'), 'str')), w['conn'])
        ctx.prove(f'C04.retry.downloader[{sname}]', t.attrs['remotely_queued'] is False and len(cycles) == 1,
                  'after PeerUploadFailed a download that still wants the file must be queued remotely again (mark cleared, cycle requested)')
    ex.run(path, 'retry-downloader')


def prove_offset_survives(src_root, ex: Explorer):
    """The negotiated resume offset is stored by set_offset() during the negotiation and the COMPLETE guard counts from it
    (bytes_transfered == filesize).  The transition that starts the byte phase (InitializingState.start_transferring, real code, both
    directions) must therefore leave bytes_transfered, the offset, the announced size and the local path untouched."""
    def path(ctx: Ctx):
        from contracts import C03
        it = mk(src_root, ctx)
        C03.install_env(it, ctx, [])
        direction = ['DOWNLOAD', 'UPLOAD'][ctx.choose(2, 'direction')]
        t, lock = C03.mk_transfer(it, ctx, direction, [])
        off, size = ctx.fresh_int('offset'), ctx.fresh_int('filesize')
        ctx.assume(z3.And(off >= 0, size >= 0))
        lp = t.attrs['local_path']
        t.attrs.update(bytes_transfered=Sym(off, 'int'), _offset=Sym(off, 'int'), filesize=Sym(size, 'int'))
        S = cls(it, 'transfer.state', 'InitializingState')
        s = it.call(S, [t], {})
        t.attrs['state'] = s
        lock.locked = True
        res = run(it, it.class_attr(S, 'start_transferring'), s)
        ctx.prove(f'C04.start_transferring.keeps-offset[{direction.lower()}]', res is True and ctx.valid(z3int(unbox(t.attrs['bytes_transfered'])) == off)
                  and ctx.valid(z3int(unbox(t.attrs['_offset'])) == off) and ctx.valid(z3int(unbox(t.attrs['filesize'])) == size) and t.attrs['local_path'] is lp,
                  'starting the byte phase forgets the negotiated offset (or the announced size / local path): the transfer counts from 0 and '
                  'COMPLETE is reached with a file of the wrong size')
    ex.run(path, 'offset-survives')


def prove_waits_for_close(src_root, ex: Explorer):
    """receive_until_eof (what _upload_file awaits before it may call complete()): ONE unbounded read to end-of-stream through _read with
    NO time-out - it returns only when the peer closed the connection (EOF) or the connection broke; the data or b'' is returned, a
    read error is re-raised iff raise_exception.  With a time-out the upload would be COMPLETE while the peer is still reading."""
    def path(ctx: Ctx):
        it = mk(src_root, ctx)
        c = mk_conn(it, ctx)
        oc = ['eof-data', 'error'][ctx.choose(2, 'outcome')]
        raise_exc = ctx.choose(2, 'raise_exception') == 1
        reads, calls = [], []
        data, n = blob(ctx, 'tail')
        c.attrs['_reader'] = Stub('reader', read=Recorder('read', fn=lambda it2, a, k: (reads.append(a), 'READ-CORO')[1]))
        c.attrs['read_timeout'] = 5.0

        def c_read(it2, f, a, k):
            calls.append((a[1:], dict(k)))

            def body(it3):
                if oc == 'error':
                    raise PyRaise(ExcVal(cls(it3, 'exceptions', 'ConnectionReadError'), ('x',)))
                return data
            return A.SimpleAwaitable(it2.aio, '_read', body)
        it.hooks[f'{CONN}:DataConnection._read'] = c_read
        try:
            r = run(it, it.getattr(c, 'receive_until_eof'), raise_exception=raise_exc)
            raised = None
        except PyRaise as pr:
            r, raised = None, pr.exc.cls.name
        one = len(calls) == 1 and calls[0][0][:1] == ['READ-CORO'] and len(reads) == 1 and [unbox(x) for x in reads[0]] in ([-1], [])
        no_timeout = one and not calls[0][1].get('timeout') and len(calls[0][0]) == 1
        ctx.prove('C04.receive_until_eof.waits-for-close', one and no_timeout,
                  f'the wait for the peer to close must be one read to end-of-stream WITHOUT a time-out (calls {calls!r}, reads {reads!r})')
        if oc == 'eof-data':
            ctx.prove('C04.receive_until_eof.result[eof]', raised is None and r is data)
        else:
            ctx.prove(f'C04.receive_until_eof.result[error,raise={raise_exc}]', (raised == 'ConnectionReadError') if raise_exc else
                      (raised is None and (r == b'' or (hasattr(r, 'length') and ctx.valid(r.length() == 0)))))
    ex.run(path, 'receive_until_eof')


def prove_positive_grant(src_root, ex: Explorer):
    """receive_file treats a read of 0 bytes as end of stream and send_file an empty read as end of file: the number of tokens handed out by
    the limiter must be positive, always (C20.take.grant: a grant is exactly one chunk; the unlimited limiter returns its constant).  The
    take-step contract of C20 is discharged here as well."""
    from contracts import C20
    C20.prove_take(src_root, ex, 0, '')
    # only the grant clause is needed here (the window invariant, with its recorded finding, belongs to C20)
    ex.obligations[:] = [ob for ob in ex.obligations if ob.name.startswith(('C20.take.grant', 'C20.take.no-raise', 'C20.take.atomic'))]
    for ob in ex.obligations:
        ob.name = 'C04.limiter-grant' + ob.name[len('C20.take'):]

    def unlimited(ctx: Ctx):
        it = mk(src_root, ctx)
        o = new(it, 'network.rate_limiter', 'UnlimitedRateLimiter', limit_bps=0, bucket=0, last_refill=0.0)
        r = run(it, it.getattr(o, 'take_tokens'))
        ctx.prove('C04.limiter-grant.unlimited', isinstance(unbox(r), int) and unbox(r) >= 1, 'the unlimited limiter must hand out a positive number of bytes')
    ex.run(unlimited, 'unlimited-grant')


def prove_break_is_error(src_root, ex: Explorer):
    """_download_file distinguishes an orderly end of stream (receive_data returns None: the size guard decides COMPLETE / INCOMPLETE)
    from a broken connection (ConnectionReadError: INCOMPLETE, retried).  That rests on the contract of DataConnection._read - a reset,
    a time-out or any other reader failure is reported as ConnectionReadError after the connection was closed, only an empty read is
    EOF - which is C02._read.contract[*]; it is discharged here as well because C04 depends on it."""
    from contracts import C02
    C02.prove_read(src_root, ex)
    for ob in ex.obligations:
        if ob.name.startswith('C02._read.contract'):
            ob.name = 'C04.break-is-error' + ob.name[len('C02._read.contract'):]


def prove_relies_send_and_path(src_root, ex: Explorer):
    """Two contracts of other properties that "COMPLETE means the whole file arrived" rests on, discharged here as well:
    (a) DataConnection._send reports success only after drain() (C10._send.*): the uploader counts a chunk as sent when _send returns;
    (b) _prepare_download_path keeps the local path of a download that already has one (C09.prepare.*): the offset of a resumed
        download is the size of THAT file (C04.offset.*), so the tail must be appended to it and not to a newly numbered file."""
    from contracts import C10, C09
    C10.prove_after_closed(src_root, ex)
    C09.prove_download_path(src_root, ex)
    keep = []
    for ob in ex.obligations:
        if ob.name.startswith('C10._send.'):
            ob.name = 'C04.send-reports-errors.' + ob.name[len('C10._send.'):]
            keep.append(ob)
        elif ob.name.startswith('C09.prepare.keeps-path') or ob.name.startswith('C09.prepare.sets-path') or ob.name.startswith('C09.prepare.creates-directory'):
            ob.name = 'C04.resume.same-file.' + ob.name[len('C09.prepare.'):]
            keep.append(ob)
    ex.obligations[:] = keep


def items(src_root, tier):
    return [('negotiated-offset', None), ('relies-send-path', None), ('break-is-error', None), ('retry-downloader', None), ('positive-grant', None), ('waits-for-close', None), ('offset-survives', None), ('receive_file', None), ('send_file', None), ('download_file', None), ('upload_file', None), ('offset', None), ('retry', None)]


def run_item(src_root, item, tier):
    res = std_result('C04')
    ex = Explorer()
    kind, arg = item
    try:
        {'receive_file': prove_receive_file, 'send_file': prove_send_file, 'download_file': prove_download_file,
         'upload_file': prove_upload_file, 'negotiated-offset': prove_negotiated_offset_is_used, 'offset': prove_offset, 'retry': prove_retry, 'offset-survives': prove_offset_survives, 'break-is-error': prove_break_is_error, 'waits-for-close': prove_waits_for_close, 'positive-grant': prove_positive_grant, 'retry-downloader': prove_retry_downloader,
         'relies-send-path': prove_relies_send_and_path}[kind](src_root, ex)
    except Unsupported as e:
        res.errors.append(f'{kind}: unsupported: {e}')
    collect(res, ex)
    res.functions.update([f'{MGR}:TransferManager._on_peer_transfer_queue', f'{CONN}:PeerConnection.receive_file', f'{CONN}:PeerConnection.send_file', f'{MGR}:TransferManager._download_file',
                          f'{MGR}:TransferManager._upload_file', f'{MGR}:TransferManager._calculate_offset',
                          f'{MGR}:TransferManager._initialize_download', f'{MODEL}:Transfer._transfer_progress_callback',
                          f'{MODEL}:Transfer.is_transfered'])
    return res
