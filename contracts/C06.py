"""C06 -- after abort / pause / remove nothing more happens for the transfer.  DESIGN.md section 4 / C06.

Class invariant INV-slot: every not-done task working for transfer t is the value of t._remotely_queue_task or
t._transfer_task.  It holds iff a slot is EMPTY whenever a new task is stored in it (otherwise the only handle for
cancellation is overwritten).  Given INV-slot, cancel-and-await of both slots leaves no activation of t."""
from __future__ import annotations

import z3

from pyvc.ctx import Ctx, Explorer, Unsupported, PathAbort
from pyvc.interp import Interp, CoroVal
from pyvc.values import (Sym, Obj, PyRaise, Native, Bound, ExcVal, EnumMember, Opaque, unbox, z3int, z3str, BUILTIN_CLASSES)
from pyvc import natives as N
from pyvc import aio as A
from contracts.common import (source, mk, cls, func, new, run, enum, Recorder, Stub, collect, std_result)
from contracts import C05, C03
from contracts.C05 import MGR, MODEL, STATE

ASSUMPTIONS = [
    'A-asyncio: a cancelled task that is awaited (gather) is done afterwards and never resumes; done-callbacks run later as separate activations',
    'A-atomic cooperative scheduling',
    'UserManager.get_user_object contract as in C05',
]
TRUSTED_BASE = ['pyvc engine', 'z3', 'abstract asyncio model', 'C03 contracts (abort / pause run under the state lock of the current state)']
NOT_DECIDED = ['field changes caused by peer messages that arrive later (e.g. place-in-queue replies) and connections opened by other transfers to the same peer']


def prove_slot_selection(src_root, ex: Explorer):
    """C06.slot-free#manage_transfers.*: a transfer handed to manage_transfers has both slots empty (step contract of
    the selection loop, arbitrary transfer, arbitrary accumulators)."""
    def path(ctx: Ctx):
        o = C05.run_selection_step(src_root, ctx, 'C06', done_tasks=True)
        t = o['t']
        in_up, in_down = any(x is t for x in o['uploads']), any(x is t for x in o['downloads'])
        free = t.attrs['_transfer_task'] is None and t.attrs['_remotely_queue_task'] is None
        w, sidx = o['w'], t.ghost['state']
        if in_down:
            restartable = z3.Or(sidx == w.state_idx('QUEUED'), sidx == w.state_idx('INCOMPLETE'),
                                z3.And(sidx == w.state_idx('FAILED'), z3.BoolVal(t.attrs['fail_reason'] is None)))
            ctx.prove('C06.final.stopped-download-not-selected', restartable,
                      'a download that is PAUSED / ABORTED / COMPLETE (or not yet queued, or failed for a reason) is selected for a new '
                      'negotiation: every management cycle sends the queue request again for a transfer the user stopped')
        if in_up:
            ctx.prove('C06.final.stopped-upload-not-selected', sidx == w.state_idx('QUEUED'),
                      'an upload that is not QUEUED is selected to be started')
        if in_down:
            ctx.prove('C06.slot-free#manage_transfers.download', free,
                      'a download whose remote-queue attempt (or initialisation) is still in flight is selected again: a second '
                      'task is created and the handle of the first one is overwritten, so abort() cannot cancel it')
        if in_up:
            ctx.prove('C06.slot-free#manage_transfers.upload', free,
                      'an upload whose initialisation task is still in flight is selected again')
        if not in_up and not in_down:
            ctx.ok('C06.slot-free#manage_transfers.skip')
    ex.run(path, 'slot-selection')


def prove_manage_assigns(src_root, ex: Explorer, liveness=False):      # liveness: the C05 clause, discharged by the C05 check only
    """manage_transfers stores every task it creates in the slot of ITS transfer.  What the done-callbacks it registers DO is stated by
    effect (they are run here, in registration order, whatever their form): the callbacks of a task clear exactly the slot that task
    filled, and - the liveness half of C05 - a management cycle is requested at a moment at which that slot is ALREADY clear.  The cycle
    requested by the task's own last transition (C05.cycle-on-change) can run while the finished task still sits in its slot (the job
    wakes up before the done-callbacks run); the selection skips a transfer with a task, so without a request AFTER the slot is cleared
    an upload that went back to QUEUED is never looked at again."""
    def path(ctx: Ctx):
        it = mk(src_root, ctx)
        w = C05.World(it, ctx)
        d = w.transfer('d', direction='DOWNLOAD', free_slots=True)
        u = w.transfer('u', direction='UPLOAD', free_slots=True)
        it.hooks[f'{MGR}:TransferManager._get_queued_transfers'] = lambda it2, f, a, k: ([d], [u])
        it.hooks[f'{MGR}:TransferManager.get_free_upload_slots'] = lambda it2, f, a, k: 1
        requests = []
        # by effect: the real request_management_cycle runs; what counts is the wake-up it posts (queue.put_nowait) and the flag it leaves
        flag_cls = cls(it, MGR, '_RequestFlag')
        change = [m for m in flag_cls.enum_members if m.name == 'TRANSFER_CHANGE'][0]
        w.mgr.attrs['_management_flags'] = it.call(flag_cls, [0], {})

        def on_put(it2, a, k):
            fl = w.mgr.attrs['_management_flags']
            import ast as _ast
            has = it2.truth(it2.binop(_ast.BitAnd(), fl, change))
            requests.append(('TRANSFER_CHANGE' if has else repr(fl), d.attrs['_remotely_queue_task'] is None, u.attrs['_transfer_task'] is None))
        w.mgr.attrs['_management_queue'] = Stub('queue', put_nowait=Recorder('put_nowait', fn=on_put))
        it.call(it.getattr(w.mgr, 'manage_transfers'), [], {})
        tasks = it.aio.tasks
        ok = len(tasks) == 2
        td = tu = None
        if ok:
            td, tu = d.attrs['_remotely_queue_task'], u.attrs['_transfer_task']
            ok = td in tasks and tu in tasks and td is not tu and td.coro.func.node.name == '_queue_remotely' and td.coro.args[1] is d \
                and tu.coro.func.node.name == '_initialize_upload' and tu.coro.args[1] is u \
                and len(td.callbacks) >= 1 and len(tu.callbacks) >= 1 \
                and d.attrs['_transfer_task'] is None and u.attrs['_remotely_queue_task'] is None
        ctx.prove('C06.manage_transfers.handles', ok, 'every created task is stored in the slot of ITS transfer with a done-callback')
        ctx.prove('C06.manage_transfers.atomic', it.aio.yields == [])
        if not ok:
            return
        del requests[:]
        for cb in list(tu.callbacks):                       # the upload task ends: its callbacks run in registration order
            it.call(cb, [tu], {})
        ctx.prove('C06.manage_transfers.callbacks-clear-own-slot[upload]',
                  u.attrs['_transfer_task'] is None and u.attrs['_remotely_queue_task'] is None and d.attrs['_remotely_queue_task'] is td and d.attrs['_transfer_task'] is None,
                  'the done-callbacks of the upload task must clear the slot that task filled and no other')
        if liveness:
            ctx.prove('C05.slot-released.then-cycle[upload]', any(n == 'TRANSFER_CHANGE' and u_clear for n, _d, u_clear in requests),
                      f'no management cycle is requested once the finished upload task has left its slot (requests seen: {requests}): the cycle asked for by '
                      'the task\'s own transition to QUEUED may run while the finished task is still in the slot, skips the upload, and nothing looks at it again')
        del requests[:]
        for cb in list(td.callbacks):
            it.call(cb, [td], {})
        ctx.prove('C06.manage_transfers.callbacks-clear-own-slot[download]',
                  d.attrs['_remotely_queue_task'] is None and d.attrs['_transfer_task'] is None and u.attrs['_transfer_task'] is None,
                  'the done-callbacks of the remote-queue task must clear the slot that task filled and no other')
    ex.run(path, 'manage-assigns')


def prove_done_callbacks(src_root, ex: Explorer):
    def path(ctx: Ctx):
        it = mk(src_root, ctx)
        t = new(it, MODEL, 'Transfer')
        t1, t2 = A.TaskVal(it.aio, None, 'q'), A.TaskVal(it.aio, None, 't')
        t.attrs.update(_remotely_queue_task=t1, _transfer_task=t2)
        it.call(it.getattr(t, '_remotely_queue_task_complete'), [t1], {})
        ctx.prove('C06.done-callback.remotely_queue', t.attrs['_remotely_queue_task'] is None and t.attrs['_transfer_task'] is t2)
        it.call(it.getattr(t, '_transfer_task_complete'), [t2], {})
        ctx.prove('C06.done-callback.transfer', t.attrs['_transfer_task'] is None)
    ex.run(path, 'done-callbacks')


def prove_cancel_all(src_root, ex: Explorer):
    """C06.cancel-all: abort()/pause() of every state that defines them leave every task of get_tasks() cancelled AND
    awaited (done) before the state changes -- with INV-slot: no activation of the transfer remains."""
    # a VIRGIN transfer has never been scheduled: tasks exist only for transfers selected in QUEUED / INCOMPLETE / FAILED
    cases = [(s, m) for s in C03.STATE_CLASSES if s != 'VirginState' for m in ('abort', 'pause')]

    def path(ctx: Ctx):
        it = mk(src_root, ctx)
        effects = []
        C03.install_env(it, ctx, effects)
        sname, mname = cases[ctx.choose(len(cases), 'case')]
        direction = ['DOWNLOAD', 'UPLOAD'][ctx.choose(2, 'direction')]
        notified = []
        t, lock = C03.mk_transfer(it, ctx, direction, notified, with_tasks=True)
        tasks = [t.attrs['_remotely_queue_task'], t.attrs['_transfer_task']]
        Scls = cls(it, STATE, sname)
        s = it.call(Scls, [t], {})
        t.attrs['state'] = s
        lock.locked = True
        done_at_change = []

        def on_changed(it2, args, kwargs):
            done_at_change.append([tk.done is True and tk.cancel_requested for tk in tasks])
        t.attrs['state_listeners'] = [Stub('listener', on_transfer_state_changed=Recorder('l', fn=on_changed, is_async=True))]
        args = ['why'] if mname == 'abort' else []
        res = run(it, it.class_attr(Scls, mname), s, *args)
        tag = f'{sname}.{mname}[{direction.lower()}]'
        if res is True:
            ctx.prove(f'C06.cancel-all.{tag}', all(tk.cancel_requested and tk.done is True and tk.awaited for tk in tasks)
                      and done_at_change == [[True, True]],
                      f'tasks after {mname}(): {[(tk.name, tk.cancel_requested, tk.done) for tk in tasks]}; both must be cancelled and awaited before the state change is reported')
        else:
            ctx.prove(f'C06.refused-leaves-tasks.{tag}', not any(tk.cancel_requested for tk in tasks))
    ex.run(path, 'cancel-all')

    def get_tasks(ctx: Ctx):
        it = mk(src_root, ctx)
        t = new(it, MODEL, 'Transfer')
        a = A.TaskVal(it.aio, None, 'q') if ctx.choose(2, 'q') else None
        b = A.TaskVal(it.aio, None, 't') if ctx.choose(2, 't') else None
        t.attrs.update(_remotely_queue_task=a, _transfer_task=b)
        want = [x for x in (a, b) if x is not None]
        ctx.prove('C06.get_tasks.spec', it.call(it.getattr(t, 'get_tasks'), [], {}) == want)
        r = it.call(it.getattr(t, 'cancel_tasks'), [], {})
        ctx.prove('C06.cancel_tasks.spec', r == want and all(x.cancel_requested for x in want))
    ex.run(get_tasks, 'get-tasks')


def prove_queue_remotely(src_root, ex: Explorer):
    outcomes = ['sent', 'ConnectionWriteError', 'PeerConnectionError', 'cancelled']

    def path(ctx: Ctx):
        it = mk(src_root, ctx)
        oc = outcomes[ctx.choose(len(outcomes), 'outcome')]
        sent = []

        def send(it2, a, k):
            sent.append(a)
            if oc == 'cancelled':
                it2.throw('CancelledError')
            if oc != 'sent':
                raise PyRaise(ExcVal(cls(it2, 'exceptions', oc), ('x',)))
        net = Stub('network', send_peer_messages=Recorder('send_peer_messages', fn=send, is_async=True))
        queued = []
        st = Stub('state', queue=Recorder('queue', fn=lambda it2, a, k: queued.append(1) or True, is_async=True))
        t = new(it, MODEL, 'Transfer', username='bob', remote_path='path', remotely_queued=False, queue_attempts=2,
                last_queue_attempt=0.0, state=st)
        it.natives['time.monotonic'] = Native('monotonic', lambda it2, a, k: 1.0)
        it.natives['time.time'] = Native('time', lambda it2, a, k: 1.0)
        cycles = []
        mgr = new(it, MGR, 'TransferManager', _network=net)
        it.hooks[f'{MGR}:TransferManager.request_management_cycle'] = lambda it2, f, a, k: cycles.append(a[1])
        try:
            run(it, it.getattr(mgr, '_queue_remotely'), t)
            raised = None
        except PyRaise as pr:
            raised = pr.exc.cls.name
        flag = t.attrs['remotely_queued']
        msg_ok = len(sent) == 1 and sent[0][0] == 'bob' and len(sent[0]) == 2 and sent[0][1].cls.qual == 'PeerTransferQueue.Request' \
            and sent[0][1].attrs['filename'] == 'path'
        if oc == 'sent':
            ctx.prove('C06.queue_remotely.flag[sent]', flag is True and raised is None and msg_ok and len(cycles) == 1 and t.attrs['queue_attempts'] == 0)
        elif oc == 'cancelled':
            ctx.prove('C06.queue_remotely.flag[cancelled]', flag is False and raised == 'CancelledError' and not queued and not cycles,
                      'a cancelled remote-queue attempt must not mark the transfer, change its state or schedule anything')
        else:
            ctx.prove(f'C06.queue_remotely.flag[{oc}]', flag is False and raised is None and queued == [1] and t.attrs['queue_attempts'] == 3)
    ex.run(path, 'queue-remotely')


def prove_transfer_request_site(src_root, ex: Explorer):
    """C06.slot-free#_on_peer_transfer_request: a PeerTransferRequest for a download we expect creates the initialisation
    task only if no negotiation of that transfer is in flight."""
    def path(ctx: Ctx):
        it = mk(src_root, ctx)
        w = C05.World(it, ctx)
        state_name = ['QUEUED', 'INCOMPLETE', 'FAILED'][ctx.choose(3, 'state')]
        occupied = ctx.choose(2, 'slot') == 1
        sidx = w.state_idx(state_name)
        queued = []
        st = Stub('state', VALUE=[m for m in w.state_enum.enum_members if m.name == state_name][0],
                  queue=Recorder('queue', fn=lambda it2, a, k: queued.append(k) or True, is_async=True))
        old = A.TaskVal(it.aio, None, 'initialize-download-old') if occupied else None
        t = new(it, MODEL, 'Transfer', username='bob', remote_path='path', state=st, _transfer_task=old, _remotely_queue_task=None)
        t.attrs['direction'] = enum(it, MODEL, 'TransferDirection', 'DOWNLOAD')
        it.hooks[f'{MGR}:TransferManager.find_transfer'] = lambda it2, f, a, k: t
        w.mgr.attrs['_settings'].attrs['users'].attrs['is_blocked'] = Recorder('is_blocked', ret=False)
        sentm = []
        conn = Stub('connection', username='bob', send_message=Recorder('send', fn=lambda it2, a, k: sentm.append(a[0]), is_async=True),
                    queue_message=Recorder('queue_message', fn=lambda it2, a, k: sentm.append(a[0])))
        msg = new(it, 'protocol.messages', 'PeerTransferRequest.Request', direction=1, ticket=7, filename='path', filesize=10)
        try:
            run(it, it.getattr(w.mgr, '_on_peer_transfer_request'), msg, conn)
        except PyRaise as pr:
            ctx.fail('C06.slot-free#_on_peer_transfer_request.no-raise', repr(pr.exc))
            return
        new_tasks = [x for x in it.aio.tasks if x is not old]
        if occupied:
            ctx.prove(f'C06.slot-free#_on_peer_transfer_request[{state_name}]', not new_tasks and t.attrs['_transfer_task'] is old,
                      'a second PeerTransferRequest while the first initialisation task has not started yet creates a second task and '
                      'overwrites the handle of the first')
        else:
            ok = len(new_tasks) == 1 and t.attrs['_transfer_task'] is new_tasks[0] and len(new_tasks[0].callbacks) >= 1 \
                and new_tasks[0].coro.func.node.name == '_initialize_download'
            if ok:                      # by effect: the done-callbacks, whatever their number and form, clear the slot this task filled
                it.hooks[f'{MGR}:TransferManager.request_management_cycle'] = lambda it2, f, a, k: None
                for cb in list(new_tasks[0].callbacks):
                    it.call(cb, [new_tasks[0]], {})
                ok = t.attrs['_transfer_task'] is None
            ctx.prove(f'C06._on_peer_transfer_request.starts[{state_name}]', ok)
    ex.run(path, 'transfer-request-site')


def prove_remove(src_root, ex: Explorer):
    outcomes = ['aborted', 'refused', 'error', 'absent']

    def path(ctx: Ctx):
        it = mk(src_root, ctx)
        oc = outcomes[ctx.choose(len(outcomes), 'outcome')]
        t = new(it, MODEL, 'Transfer', username='bob', remote_path='p')
        t.attrs['direction'] = enum(it, MODEL, 'TransferDirection', 'DOWNLOAD')
        other = new(it, MODEL, 'Transfer', username='eve', remote_path='q')
        other.attrs['direction'] = enum(it, MODEL, 'TransferDirection', 'DOWNLOAD')
        emitted = []
        bus = Stub('bus', emit=Recorder('emit', fn=lambda it2, a, k: emitted.append(a[0]), is_async=True))
        mgr = new(it, MGR, 'TransferManager', _transfers=[other] + ([t] if oc != 'absent' else []), _event_bus=bus)
        calls = []

        def c_abort(it2, f, a, k):
            def body(it3):
                # contract of TransferManager.abort (C03.manager.abort.*): the transfer must be registered, otherwise TransferNotFoundError
                # is raised and NOTHING is aborted (no task is cancelled)
                if not any(x is a[1] for x in mgr.attrs['_transfers']):
                    raise PyRaise(ExcVal(cls(it3, 'exceptions', 'TransferNotFoundError'), ('not added',)))
                calls.append(a[1])
                if oc == 'refused':
                    raise PyRaise(ExcVal(cls(it3, 'exceptions', 'InvalidStateTransition'), ()))
                if oc == 'error':
                    it3.throw('RuntimeError', 'boom')
            return A.SimpleAwaitable(it2.aio, 'abort', body)
        it.hooks[f'{MGR}:TransferManager.abort'] = c_abort
        it.hooks[f'{MGR}:TransferManager.request_management_cycle'] = lambda it2, f, a, k: None
        try:
            run(it, it.getattr(mgr, 'remove'), t)
            raised = None
        except PyRaise as pr:
            raised = pr.exc.cls.name
        if oc == 'absent':
            ctx.prove('C06.remove[absent]', raised == 'TransferNotFoundError' and not calls and mgr.attrs['_transfers'] == [other])
        else:
            ctx.prove(f'C06.remove[{oc}]', raised is None and calls == [t] and mgr.attrs['_transfers'] == [other] and
                      [e.cls.name for e in emitted] == ['TransferRemovedEvent'],
                      f'remove = abort (or refused) + removal from the list + one event; got raised={raised} aborts={calls!r} '
                      f'list={mgr.attrs["_transfers"]!r} events={[e.cls.name for e in emitted]}')
    ex.run(path, 'remove')


PEER_HANDLERS = [
    # (handler, direction of the transfer, message factory)
    ('_on_peer_transfer_queue', 'UPLOAD', lambda it: Stub('PeerTransferQueue', filename='path')),
    ('_on_peer_transfer_request', 'UPLOAD', lambda it: Stub('PeerTransferRequest', filename='path', ticket=5, direction=0, filesize=None)),
    ('_on_peer_transfer_request', 'DOWNLOAD', lambda it: Stub('PeerTransferRequest', filename='path', ticket=5, direction=1, filesize=10)),
    ('_on_peer_upload_failed', 'DOWNLOAD', lambda it: Stub('PeerUploadFailed', filename='path')),
    ('_on_peer_transfer_queue_failed', 'DOWNLOAD', lambda it: Stub('PeerTransferQueueFailed', filename='path', reason='Cancelled')),
]


def scan_task_sites(src_root, ex: Explorer):
    """INV-slot by construction: every task the transfer manager starts is stored in one of the two slots of a transfer (the only handles
    abort / pause / remove cancel).  Scan of transfer/manager.py: an `asyncio.create_task(...)` is (a) the value assigned to `<t>._transfer_task`
    / `<t>._remotely_queue_task`, or (b) bound to a local that is assigned to a slot in the same function, or (c) returned by a helper
    whose every call is the value of such an assignment.  A task kept anywhere else survives the cancellation of the transfer."""
    import ast
    src, _ = source(src_root)
    mod = src.module('transfer.manager')
    SLOTS = ('_transfer_task', '_remotely_queue_task')
    ctx = Ctx(ex, [])
    funcs = [n for n in ast.walk(mod.tree) if isinstance(n, (ast.FunctionDef, ast.AsyncFunctionDef))]

    def is_ct(n):
        return isinstance(n, ast.Call) and ast.unparse(n.func) in ('asyncio.create_task', 'asyncio.ensure_future', 'create_task')

    def slot_assign_of(fn, value_pred):
        return any(isinstance(st, ast.Assign) and value_pred(st.value) and any(isinstance(t, ast.Attribute) and t.attr in SLOTS for t in st.targets)
                   for st in ast.walk(fn))
    bad, n_sites = [], 0
    for fn in funcs:
        for st in ast.walk(fn):
            for call in [c for c in ast.iter_child_nodes(st) if is_ct(c)] if isinstance(st, (ast.Assign, ast.Return, ast.Expr, ast.AnnAssign)) else []:
                n_sites += 1
                ok = False
                if isinstance(st, ast.Assign) and any(isinstance(t, ast.Attribute) and t.attr in SLOTS for t in st.targets):
                    ok = True
                elif isinstance(st, (ast.Assign, ast.AnnAssign)):
                    names = [t.id for t in (st.targets if isinstance(st, ast.Assign) else [st.target]) if isinstance(t, ast.Name)]
                    ok = any(slot_assign_of(fn, lambda v, nm=nm: isinstance(v, ast.Name) and v.id == nm) for nm in names)
                    if not ok and names:
                        ok = any(isinstance(r, ast.Return) and isinstance(r.value, ast.Name) and r.value.id in names for r in ast.walk(fn)) and \
                            all_callers_store(funcs, fn.name, SLOTS)
                elif isinstance(st, ast.Return):
                    ok = all_callers_store(funcs, fn.name, SLOTS)
                if not ok:
                    bad.append(f'{fn.name}:{call.lineno}')
    ctx.prove('C06.inv-slot.task-sites', n_sites >= 2 and not bad, f'{n_sites} task creations in transfer/manager.py; not stored in a slot of the transfer: {bad}')


def all_callers_store(funcs, name, slots):
    import ast
    calls = []
    for fn in funcs:
        for st in ast.walk(fn):
            if isinstance(st, (ast.Assign, ast.Expr, ast.Return, ast.AnnAssign)):
                v = getattr(st, 'value', None)
                if isinstance(v, ast.Call) and isinstance(v.func, ast.Attribute) and v.func.attr == name:
                    calls.append(isinstance(st, ast.Assign) and any(isinstance(t, ast.Attribute) and t.attr in slots for t in st.targets))
    return bool(calls) and all(calls)


def prove_abort_records_reason(src_root, ex: Explorer):
    """abort(reason) of every state that accepts it stores the reason as the ABORT reason and leaves the fail reason alone: the re-evaluation
    after share / block / friend changes (C08.evaluate.table) re-queues an aborted upload unless its abort reason says the USER asked for
    it - a user's abort recorded anywhere else is undone by the next re-evaluation"""
    def path(ctx: Ctx):
        it = mk(src_root, ctx)
        effects: list = []
        C03.install_env(it, ctx, effects)
        sname = C03.STATE_CLASSES[ctx.choose(len(C03.STATE_CLASSES), 'state')]
        direction = ['DOWNLOAD', 'UPLOAD'][ctx.choose(2, 'direction')]
        notified: list = []
        t, lock = C03.mk_transfer(it, ctx, direction, notified, with_tasks=True)
        st = it.call(cls(it, STATE, sname), [t], {})
        t.attrs['state'] = st
        t.attrs['fail_reason'] = 'earlier fail reason'
        t.attrs['abort_reason'] = None
        lock.locked = True
        try:
            r = run(it, it.getattr(st, 'abort'), 'Requested')
        except PyRaise as pr:
            ctx.fail(f'C06.final.abort-records-reason[{sname},{direction.lower()}]', repr(pr.exc))
            return
        if it.truth(r) is True:
            ctx.prove(f'C06.final.abort-records-reason[{sname},{direction.lower()}]',
                      t.attrs['abort_reason'] == 'Requested' and t.attrs['fail_reason'] == 'earlier fail reason',
                      f'after abort("Requested"): abort_reason={t.attrs["abort_reason"]!r}, fail_reason={t.attrs["fail_reason"]!r}')
    ex.run(path, 'abort-records-reason')


def prove_peer_queue_leaves_processing(src_root, ex: Explorer):
    """(for C05) a repeated PeerTransferQueue for an upload that is QUEUED, INITIALIZING or UPLOADING changes nothing: the upload keeps its
    state object (an INITIALIZING upload put back to QUEUED keeps its initialisation task running and is initialised a second time - two
    slots for one transfer, or two uploads to one user), nobody is notified, no task is started"""
    def path(ctx: Ctx):
        it = mk(src_root, ctx)
        effects: list = []
        C03.install_env(it, ctx, effects)
        sname = ['QueuedState', 'InitializingState', 'UploadingState'][ctx.choose(3, 'state')]
        notified: list = []
        t, lock = C03.mk_transfer(it, ctx, 'UPLOAD', notified)
        st = it.call(cls(it, STATE, sname), [t], {})
        t.attrs['state'] = st
        running = A.TaskVal(it.aio, None, 'initialize-upload (running)') if sname != 'QueuedState' else None
        t.attrs['_transfer_task'] = running
        it.hooks[f'{MGR}:TransferManager.find_transfer'] = lambda it2, f, a, k: t
        it.hooks[f'{MGR}:TransferManager.request_management_cycle'] = lambda it2, f, a, k: None
        sentm = []
        conn = Stub('connection', username='user', send_message=Recorder('send', fn=lambda it2, a, k: sentm.append(a[0]), is_async=True),
                    queue_message=Recorder('queue_message', fn=lambda it2, a, k: sentm.append(a[0])))
        settings = Stub('settings', users=Stub('users', is_blocked=Recorder('is_blocked', ret=False)))
        shares = Stub('shares', find_shared_item=Recorder('find_shared_item', ret=Stub('item'), is_async=True))
        mgr = new(it, MGR, 'TransferManager', _settings=settings, _shares_manager=shares, _transfers=[t])
        before = list(it.aio.tasks)
        tag = sname[:-5].upper()
        try:
            run(it, it.getattr(mgr, '_on_peer_transfer_queue'), Stub('PeerTransferQueue', filename='path'), conn)
        except PyRaise as pr:
            ctx.fail(f'C05.peer-queue.leaves-processing-upload[{tag}]', repr(pr.exc))
            return
        new_tasks = [x for x in it.aio.tasks if not any(x is b for b in before)]
        ctx.prove(f'C05.peer-queue.leaves-processing-upload[{tag}]', t.attrs['state'] is st and not notified and not new_tasks and t.attrs['_transfer_task'] is running,
                  f'a repeated queue request changed an upload that is {tag}: state object replaced={t.attrs["state"] is not st}, notifications={len(notified)}')
    ex.run(path, 'peer-queue-processing')


def prove_peer_messages_after_stop(src_root, ex: Explorer):
    """A transfer the USER aborted or paused is not brought back by the peer's messages about the same file: for every peer message that
    designates the transfer (repeated queue request, transfer request in both directions, upload failed, queue failed) and the real
    ABORTED / PAUSED state objects (whose operations refuse what the graph does not allow - C03), the handler leaves the state object in
    place, notifies nobody, starts no task and leaves both task slots alone; a transfer request is answered with a refusal."""
    def path(ctx: Ctx):
        it = mk(src_root, ctx)
        effects: list = []
        C03.install_env(it, ctx, effects)
        hname, direction, mk_msg = PEER_HANDLERS[ctx.choose(len(PEER_HANDLERS), 'handler')]
        sname = ['AbortedState', 'PausedState'][ctx.choose(2, 'state')]
        if hname == '_on_peer_transfer_queue_failed' and sname == 'PausedState':
            return      # PAUSED -> FAILED on the peer's refusal is an edge of the documented graph (C03 EDGES): not a resurrection
        notified: list = []
        t, lock = C03.mk_transfer(it, ctx, direction, notified)
        st = it.call(cls(it, STATE, sname), [t], {})
        t.attrs['state'] = st
        t.attrs['abort_reason'] = 'Requested'
        it.hooks[f'{MGR}:TransferManager.find_transfer'] = lambda it2, f, a, k: t if (len(a) < 4 or getattr(a[3], 'name', None) == direction) else None
        it.hooks[f'{MGR}:TransferManager.request_management_cycle'] = lambda it2, f, a, k: None
        it.natives['aioslsk.utils.task_counter'] = Native('task_counter', lambda it2, a, k: 1)
        sentm = []
        conn = Stub('connection', username='user', send_message=Recorder('send', fn=lambda it2, a, k: sentm.append(a[0]), is_async=True),
                    queue_message=Recorder('queue_message', fn=lambda it2, a, k: sentm.append(a[0])))
        settings = Stub('settings', users=Stub('users', is_blocked=Recorder('is_blocked', ret=False)))
        shares = Stub('shares', find_shared_item=Recorder('find_shared_item', ret=Stub('item'), is_async=True))
        mgr = new(it, MGR, 'TransferManager', _settings=settings, _shares_manager=shares, _transfers=[t])
        before = list(it.aio.tasks)
        tag = f'{hname}[{direction.lower()},{sname[:-5].upper()}]'
        try:
            run(it, it.getattr(mgr, hname), mk_msg(it), conn)
        except PyRaise as pr:
            ctx.fail(f'C06.final.peer-message.{tag}.no-raise', repr(pr.exc))
            return
        new_tasks = [x for x in it.aio.tasks if not any(x is b for b in before)]
        ctx.prove(f'C06.final.peer-message.{tag}.stays', t.attrs['state'] is st and not notified and not new_tasks
                  and t.attrs['_transfer_task'] is None and t.attrs['_remotely_queue_task'] is None,
                  f'a peer message brought a transfer back that the user stopped: state object replaced={t.attrs["state"] is not st}, '
                  f'notifications={len(notified)}, tasks started={len(new_tasks)}')
        if hname == '_on_peer_transfer_request' or (hname == '_on_peer_transfer_queue' and sname == 'AbortedState'):
            refusals = [m for m in sentm if isinstance(m, Obj) and (
                (m.cls.qual == 'PeerTransferReply.Request' and m.attrs.get('allowed') is False) or m.cls.qual == 'PeerTransferQueueFailed.Request')]
            ctx.prove(f'C06.final.peer-message.{tag}.refused', len(refusals) == 1 and len(sentm) == 1 and refusals[0].attrs.get('reason') == 'Cancelled',
                      f'the peer must be told once that the transfer was cancelled; sent {[getattr(m, "cls", m) for m in sentm]}')
    ex.run(path, 'peer-messages-after-stop')


def prove_stale_dispatch(src_root, ex: Explorer):
    """Finality of abort needs that an operation issued on a STALE state object (a fail() / complete() / queue() that was waiting for the
    state lock while abort ran) is re-dispatched on the state that is current once the lock is held - where ABORTED refuses it.  This is
    the wrapper contract of C03 (_with_state_lock executed for real, transfer.state havocked at the lock acquisition); it is discharged
    here too because C06 rests on it."""
    from contracts import C03
    C03.prove_wrapper(src_root, ex)
    for ob in ex.obligations:
        if ob.name.startswith('C03.wrapper'):
            ob.name = 'C06.final.stale-dispatch' + ob.name[len('C03.wrapper'):]


def prove_relies_on(src_root, ex: Explorer, which):
    """Contracts of other properties that finality of abort depends on, discharged here as well:
       race      cancelling the transfer's task while it waits for a peer connection (RACE mode) stops BOTH connection attempts, so no
                 connection is opened and no PeerInit sent after abort() returned (C11.race.exit[request-cancelled] and the other exits)
       evaluate  the re-evaluation after block / friend / share changes never re-queues an upload the USER aborted (C08.evaluate.table,
                 C08.cycle.transition: reason Requested wins over Blocked / not shared)"""
    if which == 'race':
        from contracts import C11
        C11.prove_race(src_root, ex)
        pre, new_ = 'C11.', 'C06.final.no-connection-later.'
    elif which == 'attempts':
        # the two attempts themselves: a cancelled direct / indirect attempt leaves no connection, no registered request and no waiter
        # for the ticket behind (a late PeerPierceFirewall would otherwise be accepted after abort returned)
        from contracts import C11
        C11.prove_indirect(src_root, ex)
        C11.prove_direct(src_root, ex)
        pre, new_ = 'C11.', 'C06.final.no-connection-later.'
    else:
        from contracts import C08
        C08.prove_evaluate(src_root, ex)
        pre, new_ = 'C08.', 'C06.final.requested-abort-stays.'
    for ob in ex.obligations:
        if ob.name.startswith(pre):
            ob.name = new_ + ob.name[len(pre):]


def items(src_root, tier):
    return [('relies', 'race'), ('relies', 'attempts'), ('relies', 'evaluate'), ('slot', None), ('assigns', None), ('callbacks', None), ('cancel', None), ('queue_remotely', None), ('request_site', None), ('remove', None),
            ('stale', None), ('peer-messages', None), ('abort-reason', None), ('task-sites', None)]


def run_item(src_root, item, tier):
    res = std_result('C06')
    ex = Explorer()
    kind, arg = item
    try:
        if kind == 'relies':
            prove_relies_on(src_root, ex, arg)
            collect(res, ex)
            res.functions.update(['network.network:Network._create_peer_connection_race'] if arg == 'race' else
                                 ['network.network:Network._make_indirect_connection', 'network.network:Network._make_direct_connection'] if arg == 'attempts' else
                                 ['transfer.manager:TransferManager._evaluate_aborted_state', 'transfer.manager:TransferManager.manage_shares_changed'])
            return res
        {'slot': prove_slot_selection, 'assigns': prove_manage_assigns, 'callbacks': prove_done_callbacks, 'cancel': prove_cancel_all,
         'queue_remotely': prove_queue_remotely, 'request_site': prove_transfer_request_site, 'remove': prove_remove,
         'stale': prove_stale_dispatch, 'peer-messages': prove_peer_messages_after_stop, 'abort-reason': prove_abort_records_reason, 'task-sites': scan_task_sites}[kind](src_root, ex)
    except Unsupported as e:
        res.errors.append(f'{kind}: unsupported: {e}')
    collect(res, ex)
    res.functions.update([f'{MGR}:TransferManager.{m}' for m in ('manage_transfers', '_get_queued_transfers', '_queue_remotely',
                                                                '_on_peer_transfer_request', 'remove', '_on_peer_transfer_queue',
                                                                '_on_peer_upload_failed', '_on_peer_transfer_queue_failed')])
    res.functions.update([f'{MODEL}:Transfer.{m}' for m in ('get_tasks', 'cancel_tasks', '_remotely_queue_task_complete', '_transfer_task_complete')])
    res.functions.update([f'{STATE}:TransferState._cancel_transfer_tasks', f'{STATE}:TransferState._stop_transfer', f'{STATE}:_with_state_lock.<locals>.wrapper'])
    return res
