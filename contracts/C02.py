"""C02 -- hostile bytes never crash a reader or desynchronise the stream.  DESIGN.md section 4 / C02."""
from __future__ import annotations
import ast

import z3

from pyvc.ctx import Ctx, Explorer, Unsupported, PathAbort
from pyvc.interp import Interp, Env, CoroVal
from pyvc.values import (Sym, Boxed, Obj, ClassVal, PyRaise, Native, Bound, ExcVal, BUILTIN_CLASSES, Opaque, unbox,
                         z3int, ReturnEx, BreakEx, ContinueEx)
from pyvc.rope import Rope, Lit, LE, Blob, ByteArr, SymList, BVSeg
from pyvc import natives as N
from pyvc import aio as A
from contracts import C01
from contracts.C01 import LAYOUT, PRIM, MSG, INT_TYPES, type_class
from contracts.common import (source, cls, func, new, run, enum, Recorder, Stub, is_exception, collect, std_result)

CONN = 'network.connection'
NET = 'network.network'
OBF = 'protocol.obfuscation'

ASSUMPTIONS = [
    'A-struct: struct.Struct little-endian standard formats: pack raises struct.error out of range; unpack_from raises struct.error when offset+size > len',
    'A-utf8: bytes.decode returns text or raises UnicodeDecodeError (utf-8 and cp1252)',
    'A-zlib: zlib.decompress returns bytes or raises zlib.error',
    'A-asyncio: StreamReader.readexactly(n) returns exactly n bytes or raises IncompleteReadError / another exception; awaiting a cancelled task raises CancelledError in the awaiter; async_timeout turns expiry into TimeoutError',
    'A-atomic: single-threaded cooperative scheduling',
    'Python ints are mathematical (exact for Python)',
    'logging calls are side-effect free and do not raise (dropped by the extraction)',
]
TRUSTED_BASE = ['pyvc engine (unverified; guarded by seeded mutants and the harmless-edit table)', 'z3 4.x/5.x',
                'extern contracts listed in assumptions', 'C01 contracts of the codecs (discharged by ./check C01)']
NOT_DECIDED = ['memory exhaustion by a well-formed but huge (up to 4 GiB) length prefix',
               'handlers: only the cancellation-escape rule is checked for every @on_message handler; their functional behaviour belongs to C12-C19']

MINSIZE = {'uint8': 1, 'uint16': 2, 'uint32': 4, 'uint64': 8, 'int32': 4, 'boolean': 1, 'string': 4, 'bytearr': 4,
           'ipaddr': 4, '_PeerInitTicket': 4, 'array': 4}
RAISES = {
    'uint8': {'struct.error'}, 'uint16': {'struct.error'}, 'uint32': {'struct.error'}, 'uint64': {'struct.error'},
    'int32': {'struct.error'}, 'boolean': {'struct.error'}, '_PeerInitTicket': {'struct.error'},
    'string': {'struct.error', 'Exception', 'UnicodeDecodeError'}, 'bytearr': {'struct.error'},
    'ipaddr': {'struct.error', 'OSError'},
}
for _r, _spec in LAYOUT['records'].items():
    MINSIZE[_r] = None


def rec_minsize(t):
    if MINSIZE.get(t) is not None:
        return MINSIZE[t]
    return sum(rec_minsize(f['type']) for f in LAYOUT['records'][t]['fields'])


def rec_raises(t, sub=None):
    if t == 'array':
        return {'struct.error'} | rec_raises(sub)
    if t in RAISES:
        return set(RAISES[t])
    s = set()
    for f in LAYOUT['records'][t]['fields']:
        s |= rec_raises(f['type'], f['subtype'])
    return s | {'TypeError'}


ARBITRARY_KEYS = ('wire', 'inflated', 'slice', 'stream', 'obf.decode')


def is_arbitrary(it, data) -> bool:
    d = unbox(data)
    if not isinstance(d, (Rope, ByteArr)):
        return False
    segs = N.to_rope(it, d).segs
    return bool(segs) and all(isinstance(s, Blob) and isinstance(s.key, tuple) and s.key[0] in ARBITRARY_KEYS for s in segs)


def wire(ctx, name='D'):
    n = z3.Int(name + '.len')
    ctx.assume(n >= 0)
    return Rope([Blob(('wire', name), n)]), n


def fresh_value(it, ctx, tname, sub=None):
    if tname in INT_TYPES or tname in ('boolean', 'string', 'bytearr', 'ipaddr'):
        return C01.dom_value(it, ctx, tname, None, 'dec')
    if tname == 'array':
        xs = SymList(ctx, 'items', type_class(it, sub))
        return xs
    if tname in LAYOUT['records']:
        return C01.dom_value(it, ctx, tname, None, 'dec')
    raise Unsupported(tname)


# ---------------------------------------------------------------------------
# contracts used above layer 1 (discharged by the C02.<T>.total / progress obligations)

def elem_contract(tname, sub=None):
    """T.deserialize(pos, data) on ARBITRARY data:
         raises E in RAISES[T]   or   returns (pos2, v) with pos + minsize(T) <= len(data) and pos2 >= pos + minsize(T)"""
    def hook(it, f, args, kwargs):
        ctx = it.ctx
        c, pos, data = args[0], args[1], args[2]
        if not is_arbitrary(it, data):
            return C01.c_elem_deserialize(it, f, args, kwargs)
        tn = c.name if tname is None else tname
        if tn not in MINSIZE:
            return it.inline(f, args, kwargs)
        raises = sorted(rec_raises(tn, sub))
        k = ctx.choose(len(raises) + 1, 'decode-outcome')
        if k < len(raises):
            it.throw(raises[k], f'{tn} decode error')
        n = N.to_rope(it, data).length()
        ms = rec_minsize(tn)
        pt = z3int(pos)
        ctx.assume(pt + ms <= n)
        if not ctx.feasible():
            raise PathAbort()
        p2 = ctx.fresh_int('pos')
        ctx.assume(p2 >= pt + ms)
        ctx.ghost.setdefault('contracts_used', set()).add(f'{tn}.deserialize(total)')
        return (Sym(p2, 'int'), fresh_value(it, ctx, tn))
    return hook


def array_contract(it, f, args, kwargs):
    """array.deserialize on arbitrary data: raises struct.error | S_T, or returns (pos2 >= pos + 4, list)."""
    ctx = it.ctx
    c, pos, data = args[0], args[1], args[2]
    et = args[3] if len(args) > 3 else kwargs['element_type']
    r = N.to_rope(it, data)
    if not is_arbitrary(it, data):
        return C01.c_array_deserialize(it, f, args, kwargs)
    raises = sorted(rec_raises('array', et.name))
    k = ctx.choose(len(raises) + 1, 'decode-outcome')
    if k < len(raises):
        it.throw(raises[k], 'array decode error')
    pt = z3int(pos)
    ctx.assume(pt + 4 <= r.length())
    if not ctx.feasible():
        raise PathAbort()
    p2 = ctx.fresh_int('pos')
    ctx.assume(p2 >= pt + 4)
    ctx.ghost.setdefault('contracts_used', set()).add('array.deserialize(total)')
    return (Sym(p2, 'int'), SymList(ctx, 'items', et))


def loop_array_total(it, node, env):
    """loop contract of array.deserialize on arbitrary data (iteration i):
         invariant  pos >= P0 + i
         variant    every iteration either raises or needs pos + 1 <= len(data) and advances pos by >= 1
                    => at most len(data) iterations whatever the announced count (linear work)"""
    ctx = it.ctx
    rng = it.eval(node.iter, env)
    p0 = z3int(env.lookup('pos'))
    data = N.to_rope(it, env.lookup('data'))
    n = data.length()
    if isinstance(rng, range):
        return it.st_For(node, env, skip_spec=True)
    if not (isinstance(rng, N.SymRange) and rng.step == 1):
        raise Unsupported('array loop iteration space')
    count = z3int(rng.hi) - z3int(rng.lo)
    tname = ctx.ghost.get('c02_elem', '?')
    which = ctx.choose(2, 'loop')
    if which == 0:
        i = ctx.fresh_int('i')
        ctx.assume(z3.And(i >= 0, i < count))
        p = ctx.fresh_int('pos')
        ctx.assume(p >= p0 + i)
        env.vars['pos'] = Sym(p, 'int')
        env.vars['items'] = []
        it.exec_block(node.body, env)      # raising paths leave through PyRaise (checked by the caller)
        p2 = z3int(env.lookup('pos'))
        ctx.prove(f'C02.array[{tname}].linear-work.progress', p2 >= p0 + i + 1)
        ctx.prove(f'C02.array[{tname}].linear-work.bound', z3.And(i < n, p + 1 <= n),
                  'an iteration that returns needed unread bytes: iterations <= len(data)')
        raise PathAbort()
    p = ctx.fresh_int('pos')
    ctx.assume(p >= p0 + count)
    env.vars['pos'] = Sym(p, 'int')
    env.vars['items'] = SymList(ctx, 'items', type_class(it, tname) if tname != '?' else None)


def mk_total_interp(src_root, ctx, *, prim_contracts: bool, array_real: bool = False) -> Interp:
    it = C01.mk_interp(src_root, ctx, with_loop_contracts=array_real)
    A.install(it)
    if prim_contracts:
        for name in ('uint8', 'uint16', 'uint32', 'uint64', 'int32', 'string', 'bytearr', 'ipaddr', 'boolean',
                     'Attribute', 'FileData', 'DirectoryData'):
            it.hooks[f'{PRIM}:{name}.deserialize'] = elem_contract(name)
        it.hooks[f'{PRIM}:ProtocolDataclass.deserialize'] = elem_contract(None)
        it.hooks[f'{MSG}:_PeerInitTicket.deserialize'] = elem_contract('_PeerInitTicket')
        if not array_real:
            it.hooks[f'{PRIM}:array.deserialize'] = array_contract
    if array_real:
        it.loop_specs[('C02', 'array.deserialize')] = loop_array_total
    return it


def check_raise(it, ctx, name, pr: PyRaise, allowed=None):
    e = pr.exc
    if not is_exception(it, e):
        ctx.fail(name, f'raises {e.cls.name}, which is not an Exception subclass')
        return
    if allowed is not None and not any(getattr(c, 'name', None) in allowed for c in e.cls.mro if c.name not in ('Exception', 'BaseException', 'object') or 'Exception' in allowed and c is e.cls):
        if e.cls.name not in allowed:
            ctx.fail(name, f'raises {e.cls.name}, not in the declared raises-set {sorted(allowed)}')
            return
    ctx.ok(name)


# ---------------------------------------------------------------------------
# layer 1: the primitive decoders on arbitrary bytes

def prove_prim_total(src_root, tname, ex: Explorer):
    def path(ctx: Ctx):
        it = mk_total_interp(src_root, ctx, prim_contracts=False)
        c = type_class(it, tname)
        data, n = wire(ctx)
        pos = ctx.fresh_int('pos')
        ctx.assume(pos >= 0)
        try:
            r = it.call(it.class_attr(c, 'deserialize'), [Sym(pos, 'int'), data], {})
        except PyRaise as pr:
            check_raise(it, ctx, f'C02.{tname}.total', pr, RAISES[tname])
            return
        ok = isinstance(r, tuple) and len(r) == 2
        ctx.prove(f'C02.{tname}.total', ok)
        if ok:
            ms = MINSIZE[tname]
            ctx.prove(f'C02.{tname}.progress', z3.And(z3int(r[0]) >= pos + ms, pos + ms <= n))
    ex.run(path, f'prim-total {tname}')


def prove_record_total(src_root, tname, ex: Explorer):
    """Record decoders (generic or hand-optimised) on arbitrary bytes, primitives by contract."""
    def path(ctx: Ctx):
        it = mk_total_interp(src_root, ctx, prim_contracts=True)
        # the record itself is executed for real
        it.hooks[f'{PRIM}:{tname}.deserialize'] = C01.c_elem_deserialize
        it.hooks[f'{PRIM}:ProtocolDataclass.deserialize'] = C01.c_elem_deserialize
        c = type_class(it, tname)
        data, n = wire(ctx)
        pos = ctx.fresh_int('pos')
        ctx.assume(pos >= 0)
        try:
            r = it.call(it.class_attr(c, 'deserialize'), [Sym(pos, 'int'), data], {})
        except PyRaise as pr:
            check_raise(it, ctx, f'C02.{tname}.total', pr, rec_raises(tname))
            return
        ok = isinstance(r, tuple) and len(r) == 2
        ctx.prove(f'C02.{tname}.total', ok)
        if ok:
            ms = rec_minsize(tname)
            ctx.prove(f'C02.{tname}.progress', z3.And(z3int(r[0]) >= pos + ms, pos + ms <= n))
    ex.run(path, f'record-total {tname}')


def prove_array_total(src_root, tname, ex: Explorer):
    def path(ctx: Ctx):
        it = mk_total_interp(src_root, ctx, prim_contracts=True, array_real=True)
        ctx.ghost['c02_elem'] = tname
        acls = type_class(it, 'array')
        data, n = wire(ctx)
        pos = ctx.fresh_int('pos')
        ctx.assume(pos >= 0)
        try:
            r = it.call(it.class_attr(acls, 'deserialize'), [Sym(pos, 'int'), data, type_class(it, tname)], {})
        except PyRaise as pr:
            check_raise(it, ctx, f'C02.array[{tname}].total', pr, rec_raises('array', tname))
            return
        ctx.prove(f'C02.array[{tname}].total', isinstance(r, tuple) and len(r) == 2 and True)
        ctx.prove(f'C02.array[{tname}].progress', z3.And(z3int(r[0]) >= pos + 4, pos + 4 <= n))
    ex.run(path, f'array-total {tname}')


# ---------------------------------------------------------------------------
# layer 2: every message class and the dispatchers on arbitrary bytes

def prove_message_total(src_root, qual, ex: Explorer):
    outer_name, kind = qual.split('.')

    def path(ctx: Ctx):
        it = mk_total_interp(src_root, ctx, prim_contracts=True)
        c = cls(it, MSG, qual)
        data, n = wire(ctx)
        try:
            r = it.call(it.class_attr(c, 'deserialize'), [0, data], {})
        except PyRaise as pr:
            check_raise(it, ctx, f'C02.{qual}.total', pr)
            return
        ctx.prove(f'C02.{qual}.total', isinstance(r, Obj) and r.cls is c, f'returned {r!r}')
    ex.run(path, f'msg-total {qual}')


DISPATCHERS = [('ServerMessage', 'deserialize_request'), ('ServerMessage', 'deserialize_response'),
               ('PeerInitializationMessage', 'deserialize_request'), ('PeerMessage', 'deserialize_request'),
               ('DistributedMessage', 'deserialize_request')]
MSG_RAISES = ['Exception', 'struct.error', 'UnicodeDecodeError', 'ValueError', 'TypeError', 'zlib.error', 'OSError']


def prove_dispatch_total(src_root, fam, meth, ex: Explorer):
    def path(ctx: Ctx):
        it = mk_total_interp(src_root, ctx, prim_contracts=False)

        def msg_contract(it2, f, args, kwargs):
            """C.deserialize(pos, data): returns an instance of C or raises an Exception (C02.<C>.total)"""
            k = it2.ctx.choose(len(MSG_RAISES) + 1, 'msg-outcome')
            if k < len(MSG_RAISES):
                it2.throw(MSG_RAISES[k], 'decode error')
            return Obj(args[0])
        it.hooks[f'{PRIM}:MessageDataclass.deserialize'] = msg_contract
        for q, spec in LAYOUT['messages'].items():
            if spec['compressed']:
                it.hooks[f'{MSG}:{q}.deserialize'] = msg_contract
        fcls = cls(it, MSG, fam)
        data, n = wire(ctx)
        name = f'C02.{fam}.{meth}.total'
        try:
            r = it.call(it.class_attr(fcls, meth), [data], {})
        except PyRaise as pr:
            check_raise(it, ctx, name, pr)
            return
        ctx.prove(name, isinstance(r, Obj))
    ex.run(path, f'dispatch {fam}.{meth}')


def scan_decode_state(src_root, ex: Explorer):
    """Frame condition behind "dropped without affecting the frames after it": the decoders write nothing that outlives the call.  Scan of
    protocol/*.py: no function assigns to an attribute of `cls` / of a class, declares `global`, or calls a mutating method / stores into a
    subscript of a module-level or class-level name.  A (correct) cache is state too: the scan cannot tell, so a hit is NOT a violation
    by itself - the check has no verdict (UNDECIDED) and the native battery, which decodes frame sequences, decides."""
    import ast
    src, _ = source(src_root)
    MUT = {'add', 'append', 'extend', 'update', 'setdefault', 'clear', 'pop', 'popitem', 'remove', 'discard', 'insert', 'sort'}
    hits = []
    for modname in ('protocol.primitives', 'protocol.messages'):
        mod = src.module(modname)
        toplevel = {t.id for st in mod.tree.body if isinstance(st, (ast.Assign, ast.AnnAssign))
                    for t in (st.targets if isinstance(st, ast.Assign) else [st.target]) if isinstance(t, ast.Name)}
        for fn in [n for n in ast.walk(mod.tree) if isinstance(n, (ast.FunctionDef, ast.AsyncFunctionDef))]:
            local = {a.arg for a in fn.args.args + fn.args.kwonlyargs} | {t.id for n in ast.walk(fn) if isinstance(n, ast.Assign) for t in n.targets if isinstance(t, ast.Name)}
            for n in ast.walk(fn):
                if isinstance(n, ast.Global):
                    hits.append(f'{modname}:{fn.name}: global {n.names}')
                if isinstance(n, (ast.Assign, ast.AugAssign, ast.AnnAssign)):
                    tgts = n.targets if isinstance(n, ast.Assign) else [n.target]
                    val = getattr(n, 'value', None)
                    mutable = isinstance(val, (ast.Dict, ast.List, ast.Set, ast.DictComp, ast.ListComp, ast.SetComp)) or \
                        (isinstance(val, ast.Call) and ast.unparse(val.func) in ('dict', 'list', 'set', 'bytearray', 'defaultdict', 'collections.defaultdict'))
                    for t in tgts:
                        # a class attribute that is given a MUTABLE container (scratch space shared by all calls); the memo of the immutable
                        # field tuple of a dataclass (`cls._CACHED_FIELDS = fields(cls)`) is not state of the decoding
                        if mutable and isinstance(t, ast.Attribute) and isinstance(t.value, ast.Name) and t.value.id == 'cls':
                            hits.append(f'{modname}:{fn.name}: writes cls.{t.attr}')
                        if isinstance(t, ast.Subscript) and isinstance(t.value, ast.Name) and t.value.id in toplevel and t.value.id not in local:
                            hits.append(f'{modname}:{fn.name}: stores into module-level {t.value.id}[...]')
                if isinstance(n, ast.Call) and isinstance(n.func, ast.Attribute) and n.func.attr in MUT and isinstance(n.func.value, ast.Name) \
                        and n.func.value.id in toplevel and n.func.value.id not in local:
                    hits.append(f'{modname}:{fn.name}: {n.func.value.id}.{n.func.attr}(...) on a module-level name')
    ctx = Ctx(ex, [])
    if hits:
        raise Unsupported('decoders keep state between calls: ' + '; '.join(hits[:4]))
    ctx.prove('C02.decode.keeps-no-state', True)


def prove_dispatch_history_free(src_root, ex: Explorer):
    """What a frame decodes to depends on the frame, not on what arrived before - on ANY connection: a hostile frame on one connection
    must not change how later frames (of any family) are decoded.  Message ids are only unique per family and kind, so the sharpest
    history is: a frame with an id that is UNKNOWN to dispatcher F but VALID for dispatcher G is given to F (rejected), then G is given a
    frame with that id - it must still find its class.  Every ordered pair of dispatchers for which such an id exists is executed, on one
    interpreter (module-level state of the analysed source persists between the two calls)."""
    import struct as _st
    ids = {}
    for q, spec in LAYOUT['messages'].items():
        ids.setdefault((spec['family'], 'deserialize_' + spec['kind'].lower()), {})[spec['id']] = (q, spec['id_type'])

    def frame(fam_meth, mid):
        id_type = next(iter(ids[fam_meth].values()))[1]
        body = _st.pack('<B' if id_type == 'uint8' else '<I', mid)
        return Rope([Lit(_st.pack('<I', len(body)) + body)])

    def path(ctx: Ctx):
        pairs = [(f, g) for f in DISPATCHERS for g in DISPATCHERS if f != g and f in ids and g in ids]
        F, G = pairs[ctx.choose(len(pairs), 'pair')]
        F, G = tuple(F), tuple(G)
        cand = sorted(i for i in ids[G] if i not in ids[F] and (i < 256 or next(iter(ids[F].values()))[1] != 'uint8'))
        if not cand:
            return
        mid = cand[0]
        it = mk_total_interp(src_root, ctx, prim_contracts=False)
        decoded = []

        def msg_contract(it2, f, args, kwargs):
            decoded.append(args[0])
            return Obj(args[0])
        it.hooks[f'{PRIM}:MessageDataclass.deserialize'] = msg_contract
        for q, spec in LAYOUT['messages'].items():
            if spec['compressed']:
                it.hooks[f'{MSG}:{q}.deserialize'] = msg_contract
        tag = f'{F[0]}.{F[1]}->{G[0]}.{G[1]},id={mid}'
        try:
            it.call(it.class_attr(cls(it, MSG, F[0]), F[1]), [frame(F, mid)], {})
            first = 'decoded'
        except PyRaise as pr:
            first = pr.exc.cls.name
        if first != 'UnknownMessageError':
            raise Unsupported(f'history-free[{tag}]: the first dispatcher did not reject the unknown id ({first})')
        try:
            r = it.call(it.class_attr(cls(it, MSG, G[0]), G[1]), [frame(G, mid)], {})
            second = r.cls.qual if isinstance(r, Obj) else repr(r)
        except PyRaise as pr:
            second = 'raises ' + pr.exc.cls.name
        ctx.prove(f'C02.dispatch.history-free[{tag}]', second == ids[G][mid][0],
                  f'after {F[0]}.{F[1]} rejected a frame with the unknown id {mid}, {G[0]}.{G[1]} decodes a frame with id {mid} as: {second} '
                  f'(expected {ids[G][mid][0]}): one hostile frame changes how later frames are decoded')
    ex.run(path, 'dispatch-history-free')


# ---------------------------------------------------------------------------
# obfuscation.decode on arbitrary bytes

def prove_obf_total(src_root, ex: Explorer):
    from contracts import C01_obf

    def short(ctx: Ctx):
        it = C01.mk_interp(src_root, ctx)
        k = ctx.choose(4, 'len')
        D = C01_obf.arr('D')
        f = func(it, OBF, 'decode')
        try:
            out = it.call(f, [Rope([BVSeg(D, 0, k)]) if k else Rope()], {})
        except PyRaise as pr:
            ctx.fail(f'C02.obfuscation.decode.total[len={k}]', f'raises {pr.exc!r}')
            return
        ctx.prove(f'C02.obfuscation.decode.total[len={k}]', N.to_rope(it, out).length() == 0)
    ex.run(short, 'obf-short')

    def long(ctx: Ctx):
        it = C01.mk_interp(src_root, ctx)
        C01_obf.install_decode(it)
        K, E = C01_obf.arr('K'), C01_obf.arr('E')
        n, j0, p0 = z3.Int('n'), z3.Int('j0'), z3.Int('p0')
        ctx.assume(n >= 0)
        if ctx.branch(n == 0):
            n = z3.IntVal(0)
            data = Rope([BVSeg(K, 0, 4)])
        else:
            ctx.branch(n > 124)
            ctx.assume(z3.And(j0 >= 0, j0 < n))
            ctx.assume(p0 == z3.If(n > 124, j0 % 128, j0))
            data = Rope([BVSeg(K, 0, 4), BVSeg(E, 0, n)])
        ctx.ghost['obf'] = {'K': K, 'D': E, 'n': n, 'j0': j0, 'p0': p0}
        f = func(it, OBF, 'decode')
        try:
            out = it.call(f, [data], {})
        except PyRaise as pr:
            ctx.fail('C02.obfuscation.decode.total[len>=4]', f'raises {pr.exc!r}')
            return
        ctx.prove('C02.obfuscation.decode.total[len>=4]', N.to_rope(it, out).length() == n)
    ex.run(long, 'obf-long')


# ---------------------------------------------------------------------------
# connection level

def obf_contracts(it):
    def c_decode(it2, f, args, kwargs):
        """obfuscation.decode(data): total, |result| == max(|data| - 4, 0)   (C02.obfuscation.decode.total)"""
        r = N.to_rope(it2, args[0])
        ln = r.length()
        return Rope([Blob(('obf.decode', it2.ctx.fresh_name('d')), z3.If(ln >= 4, ln - 4, z3.IntVal(0)))])
    it.hooks[f'{OBF}:decode'] = c_decode


EXC_REPRESENTATIVES = ['Exception', 'struct.error', 'UnicodeDecodeError', 'ValueError', 'TypeError', 'zlib.error',
                       'OSError', 'IndexError', 'KeyError', 'AttributeError', 'RuntimeError']


def conn_obj(it, ctx, kind='PeerConnection', obf=None):
    c = new(it, CONN, kind)
    c.attrs.update(hostname='h', port=1, obfuscated=obf if obf is not None else (ctx.choose(2, 'obf') == 1),
                   _is_closing=False, read_timeout=Sym(ctx.fresh_real('rt'), 'real'), _read_timeout_object=None,
                   _reader_task=None, _queued_messages=[])
    c.attrs['state'] = enum(it, CONN, 'ConnectionState', 'CONNECTED')
    return c


def prove_decode_message_data(src_root, ex: Explorer):
    def path(ctx: Ctx):
        it = mk_total_interp(src_root, ctx, prim_contracts=False)
        obf_contracts(it)
        conn = conn_obj(it, ctx)
        data, n = wire(ctx)
        unknown = cls(it, 'exceptions', 'UnknownMessageError')
        reps = EXC_REPRESENTATIVES + ['UnknownMessageError']

        def c_deser(it2, f, args, kwargs):
            """deserialize_message(data): returns a message or raises ANY Exception subclass
            (C02.<dispatcher>.total); the representatives below include the base class itself"""
            k = it2.ctx.choose(len(reps) + 1, 'deser-outcome')
            if k < len(reps):
                if reps[k] == 'UnknownMessageError':
                    raise PyRaise(ExcVal(unknown, (0, args[1], 'unknown')))
                it2.throw(reps[k], 'parser error')
            return 'MESSAGE'
        it.hooks[f'{CONN}:PeerConnection.deserialize_message'] = c_deser
        try:
            r = it.call(it.getattr(conn, 'decode_message_data'), [data], {})
        except PyRaise as pr:
            e = pr.exc
            ctx.prove('C02.decode_message_data.raises-only', e.cls.name == 'MessageDeserializationError',
                      f'{e.cls.name} escapes decode_message_data (cause of the parser: {e.cause!r})')
            return
        ctx.prove('C02.decode_message_data.returns', r == 'MESSAGE')
    ex.run(path, 'decode_message_data')


class Stream:
    """ghost stream[r]: bytes consumed from the reader, in order."""

    def __init__(self, ctx):
        self.ctx = ctx
        self.pos = z3.IntVal(0)
        self.reads = []
        self.header_len = None

    def readexactly(self, it, args, kwargs):
        k = z3int(args[0])
        if not it.ctx.valid(k >= 0):
            if it.ctx.branch(k < 0):
                it.throw('ValueError', 'readexactly size can not be less than zero')
        seg = Blob(('stream', z3.simplify(self.pos), z3.simplify(k)), k)
        if not self.reads and self.header_len is not None and it.ctx.valid(k == 4):
            seg = LE(4, self.header_len)          # a plain header: the announced length L, little endian
        self.reads.append(seg)
        self.pos = z3.simplify(self.pos + k)
        return Rope([seg])


def prove_framing(src_root, ex: Explorer):
    """C02._read_message.framing: with ghost stream[r], a frame is header_size bytes followed by exactly the
    L bytes its (de-obfuscated) header announces; the result is those bytes in order, whatever the body holds."""
    def path(ctx: Ctx):
        it = mk_total_interp(src_root, ctx, prim_contracts=False)
        conn = conn_obj(it, ctx)
        obf = conn.attrs['obfuscated']
        L = z3.Int('L')
        ctx.assume(z3.And(L >= 0, L < (1 << 32)))
        st = Stream(ctx)
        st.header_len = None if obf else L

        def c_decode(it2, f, args, kwargs):
            """obfuscation.decode(header): for the 8-byte obfuscated header: the 4 bytes le(4, L)"""
            r = N.to_rope(it2, args[0])
            if st.reads and len(r.segs) == 1 and r.segs[0] is st.reads[0] and it2.ctx.valid(r.length() == 8):
                return Rope([LE(4, L)])
            return Rope([Blob(('obf.decode', it2.ctx.fresh_name('d')), z3.If(r.length() >= 4, r.length() - 4, z3.IntVal(0)))])
        it.hooks[f'{OBF}:decode'] = c_decode
        conn.attrs['_reader'] = Stub('reader', readexactly=Recorder('readexactly', fn=st.readexactly, is_async=True))
        tag = 'obfuscated' if obf else 'plain'
        pushes = []
        it.hooks[f'{CONN}:DataConnection._increase_read_timeout'] = lambda it2, f, a, k: pushes.append(list(a[1:]) + list(k.values()))

        def mentions_L(v):
            v = unbox(v)
            t = getattr(v, 't', None)
            if t is None or not z3.is_expr(t):
                return False
            seen, todo = set(), [t]
            while todo:
                x = todo.pop()
                if x.get_id() in seen:
                    continue
                seen.add(x.get_id())
                if z3.is_const(x) and x.decl().name() == 'L':
                    return True
                todo.extend(x.children())
            return False
        try:
            r = run(it, it.getattr(conn, '_read_message'))
        except PyRaise as pr:
            ctx.fail(f'C02._read_message.framing[{tag}]', f'raises {pr.exc!r} although both reads succeeded')
            return
        out = N.to_rope(it, r)
        hs = 8 if obf else 4
        ok = len(st.reads) == 2
        detail = f'reads={st.reads!r}'
        if ok:
            from pyvc.rope import rope_equal
            ok = rope_equal(ctx, out, Rope(st.reads))[0] and ctx.valid(st.reads[0].length() == hs)
        ctx.prove(f'C02._read_message.framing[{tag}]', ok, detail)
        # the body read is exactly the announced length: the frame boundary is the next header
        ctx.prove(f'C02._read_message.body-length[{tag}]', st.reads[1].length() == L if len(st.reads) > 1 else False,
                  f'second read has length {st.reads[1].length() if len(st.reads) > 1 else None}, header announces L')
        ctx.prove(f'C02._read_message.consumed[{tag}]', st.pos == hs + L)
        # the deadline of the read in progress may be pushed back by what ARRIVED, never by what the header ANNOUNCES: a length-lying frame
        # (announce 4 GiB, send nothing) would otherwise keep the reader waiting - silently, with the connection open
        ctx.prove(f'C02._read_message.deadline-not-from-header[{tag}]', not any(mentions_L(v) for p in pushes for v in p),
                  f'the read deadline is pushed back by an amount computed from the announced length: {pushes}')
    ex.run(path, '_read_message')


def prove_read(src_root, ex: Explorer):
    """C02._read.raises-only: raises only ConnectionReadError (or a non-Exception BaseException), and on every
    raising / None path disconnect() ran first; data is returned untouched otherwise."""
    outcomes = ['data', 'empty', 'incomplete-partial', 'incomplete-empty', 'TimeoutError', 'ConnectionResetError',
                'Exception', 'ValueError', 'CancelledError']

    def path(ctx: Ctx):
        it = mk_total_interp(src_root, ctx, prim_contracts=False)
        conn = conn_obj(it, ctx, obf=False)
        with_timeout = ctx.choose(2, 'timeout') == 1
        k = ctx.choose(len(outcomes), 'reader-outcome')
        oc = outcomes[k]
        disc = []

        def c_disconnect(it2, f, args, kwargs):
            def body(it3):
                disc.append(args[1] if len(args) > 1 else kwargs.get('reason'))
                args[0].attrs['_is_closing'] = True
                args[0].attrs['state'] = enum(it3, CONN, 'ConnectionState', 'CLOSED')
            return A.SimpleAwaitable(it2.aio, 'disconnect', body)
        it.hooks[f'{CONN}:DataConnection.disconnect'] = c_disconnect
        payload = Rope([Blob(('payload', 'X'), z3.Int('xlen'))])
        ctx.assume(z3.Int('xlen') >= 1)

        def reader(it2):
            if oc == 'data':
                return payload
            if oc == 'empty':
                return Rope()
            if oc == 'incomplete-partial':
                raise PyRaise(ExcVal(BUILTIN_CLASSES['IncompleteReadError'], (), {'partial': payload, 'expected': 9}))
            if oc == 'incomplete-empty':
                raise PyRaise(ExcVal(BUILTIN_CLASSES['IncompleteReadError'], (), {'partial': Rope(), 'expected': 9}))
            it2.throw(oc, 'reader failure')
        coro = A.SimpleAwaitable(it.aio, 'reader_coro', reader)
        name = f'C02._read.contract[{oc},timeout={"on" if with_timeout else "off"}]'
        try:
            r = run(it, it.getattr(conn, '_read'), coro, timeout=(Sym(ctx.fresh_real('t'), 'real') if with_timeout else None))
        except PyRaise as pr:
            e = pr.exc
            if oc == 'CancelledError':
                ctx.prove(name, e.cls.name == 'CancelledError')
                return
            ctx.prove(name, e.cls.name == 'ConnectionReadError' and len(disc) == 1,
                      f'raises {e.cls.name} after {len(disc)} disconnect call(s)')
            return
        if oc == 'data':
            ctx.prove(name, r is payload and not disc, 'data must be returned untouched and the connection kept')
        elif oc in ('empty', 'incomplete-empty'):
            ctx.prove(name, r is None and len(disc) == 1, f'EOF must return None after one disconnect (got {r!r}, {len(disc)})')
        else:
            ctx.fail(name, f'reader failure {oc} was swallowed (returned {r!r})')
    ex.run(path, '_read')


def prove_reader_loop(src_root, ex: Explorer):
    """C02.reader_loop: an arbitrary iteration of _message_reader_loop from a state with the connection open."""
    outcomes = ['message', 'none', 'ConnectionReadError', 'MessageDeserializationError']
    cb_outcomes = ['ok'] + EXC_REPRESENTATIVES

    def path(ctx: Ctx):
        it = mk_total_interp(src_root, ctx, prim_contracts=False)
        conn = conn_obj(it, ctx, obf=False)
        oc = outcomes[ctx.choose(len(outcomes), 'receive-outcome')]
        closing_after = ctx.choose(2, 'closing-after-receive') == 1 if oc == 'message' else False
        cbo = cb_outcomes[ctx.choose(len(cb_outcomes), 'callback-outcome')] if oc == 'message' and not closing_after else 'ok'
        delivered = []
        MESSAGE = new(it, MSG, 'Ping.Request')

        def c_receive(it2, f, args, kwargs):
            """receive_message_object(): message | None after disconnect | ConnectionReadError after disconnect |
               MessageDeserializationError (C02._read.contract, C02.decode_message_data.raises-only)"""
            def body(it3):
                s = args[0]
                if oc == 'message':
                    if closing_after:
                        s.attrs['_is_closing'] = True      # another activation closed it while we waited
                    return MESSAGE
                if oc == 'none':
                    s.attrs['_is_closing'] = True
                    return None
                if oc == 'ConnectionReadError':
                    s.attrs['_is_closing'] = True
                    raise PyRaise(ExcVal(cls(it3, 'exceptions', 'ConnectionReadError'), ('read',)))
                raise PyRaise(ExcVal(cls(it3, 'exceptions', 'MessageDeserializationError'), (), {'proto_message': Rope()}))
            return A.SimpleAwaitable(it2.aio, 'receive_message_object', body)
        it.hooks[f'{CONN}:DataConnection.receive_message_object'] = c_receive

        def on_msg(it2, args, kwargs):
            delivered.append(args)
            if cbo != 'ok':
                it2.throw(cbo, 'handler failure')
        conn.attrs['network'] = Stub('network', on_message_received=Recorder('on_message_received', fn=on_msg, is_async=True))
        state = {'iterations': 0, 'exit': None}

        def loop_spec(it2, node, env):
            # arbitrary iteration: the guard holds (connection open), run the body once
            if not it2.decide(it2.eval(node.test, env)):
                state['exit'] = 'guard'
                return
            state['iterations'] = 1
            try:
                it2.exec_block(node.body, env)
            except ContinueEx:
                pass
            except BreakEx:
                state['exit'] = 'break'
                return
            # next evaluation of the guard decides whether the loop goes on
            state['exit'] = 'guard-false' if not it2.decide(it2.eval(node.test, env)) else 'continues'
        it.loop_specs[(f'{CONN}:DataConnection._message_reader_loop', 0)] = loop_spec
        tag = f'{oc}{",closing" if closing_after else ""}{",handler=" + cbo if cbo != "ok" else ""}'
        try:
            run(it, it.getattr(conn, '_message_reader_loop'))
            returned = True
        except PyRaise as pr:
            ctx.fail(f'C02.reader_loop.no-escape[{tag}]', f'{pr.exc.cls.name} escapes an iteration of the reader loop')
            return
        ctx.ok(f'C02.reader_loop.no-escape[{tag}]')
        want = 1 if (oc == 'message' and not closing_after) else 0
        ctx.prove(f'C02.reader_loop.delivery[{tag}]',
                  len(delivered) == want and (not delivered or (delivered[0][0] is MESSAGE and delivered[0][1] is conn)),
                  f'delivered {len(delivered)} time(s), expected {want}')
        # the loop may end only when the connection is closing or EOF was seen (which already disconnected)
        ended = state['exit'] != 'continues'
        ctx.prove(f'C02.reader_loop.exit[{tag}]',
                  (not ended) or conn.attrs['_is_closing'] is True,
                  f'reader ended ({state["exit"]}) while the connection is still open')
        # and it must keep going after a dropped frame on an open connection
        if oc == 'MessageDeserializationError' or (oc == 'message' and not closing_after):
            ctx.prove(f'C02.reader_loop.survives[{tag}]', state['exit'] == 'continues',
                      f'reader stopped ({state["exit"]}) after a frame that should only be dropped/handled')
    ex.run(path, 'reader_loop')


def prove_receive_message_object(src_root, ex: Explorer):
    """C02.receive_message_object: the contract the reader loop and on_peer_accepted rely on.  None is returned ONLY when receive_message
    returned None (EOF, the connection was closed by _read); every frame - of any length from the bare header on - is handed to
    decode_message_data, whose result is returned and whose MessageDeserializationError passes through."""
    outcomes = ['eof', 'frame', 'frame-malformed']

    def path(ctx: Ctx):
        it = mk_total_interp(src_root, ctx, prim_contracts=False)
        conn = conn_obj(it, ctx)
        oc = outcomes[ctx.choose(3, 'receive_message')]
        n = ctx.fresh_int('frame_length')
        header = 8 if conn.attrs['obfuscated'] else 4
        ctx.assume(n >= header)             # C02.framing: a frame is at least its header (a length prefix of 0 is a legal frame)

        class Frame:
            def pyvc_len(self, it2):
                return Sym(n, 'int')

            def pyvc_truth(self, it2):
                return n > 0
        frame = Frame()
        decoded = []
        MESSAGE = new(it, MSG, 'Ping.Request')
        it.hooks[f'{CONN}:DataConnection.receive_message'] = lambda it2, f, a, k: A.SimpleAwaitable(it2.aio, 'receive_message', lambda it3: None if oc == 'eof' else frame)

        def c_decode(it2, f, a, k):
            decoded.append(a[1])
            if oc == 'frame-malformed':
                it2.throw(cls(it2, 'exceptions', 'MessageDeserializationError'), 'bad')
            return MESSAGE
        it.hooks[f'{CONN}:DataConnection.decode_message_data'] = c_decode
        try:
            r = run(it, it.getattr(conn, 'receive_message_object'))
        except PyRaise as pr:
            ctx.prove(f'C02.receive_message_object.contract[{oc}]', oc == 'frame-malformed' and pr.exc.cls.name == 'MessageDeserializationError' and decoded == [frame],
                      f'raises {pr.exc!r}')
            return
        if oc == 'eof':
            ctx.prove('C02.receive_message_object.contract[eof]', r is None and not decoded)
        else:
            ctx.prove(f'C02.receive_message_object.contract[{oc}]', oc == 'frame' and r is MESSAGE and decoded == [frame],
                      'a received frame (of any length) must be decoded and its message returned: None means EOF to the reader loop, '
                      'which would stop reading while the connection stays open')
    ex.run(path, 'receive_message_object')


def prove_perform_callback(src_root, ex: Explorer):
    pass


def prove_on_peer_accepted(src_root, ex: Explorer):
    """C02.on_peer_accepted.isolation: a bad first frame closes the accepted connection only."""
    # 'silent-peer': a first frame that never completes (length-lying / truncated).  The read timeout of the connection ends it as a read
    # error (C02._read.contract); IF the handler bounds the wait with a timeout block of its own, THAT expiry ends the wait instead - as a
    # TimeoutError the handler has to deal with
    outcomes = ['MessageDeserializationError', 'ConnectionReadError', 'none', 'unexpected-message', 'silent-peer']

    def path(ctx: Ctx):
        it = mk_total_interp(src_root, ctx, prim_contracts=False)
        oc = outcomes[ctx.choose(len(outcomes), 'first-frame')]
        conn = conn_obj(it, ctx, obf=False)
        other = conn_obj(it, ctx, obf=False)
        disc = []

        def c_disconnect(it2, f, args, kwargs):
            def body(it3):
                disc.append(args[0])
                args[0].attrs['_is_closing'] = True
                args[0].attrs['state'] = enum(it3, CONN, 'ConnectionState', 'CLOSED')
            return A.SimpleAwaitable(it2.aio, 'disconnect', body)
        it.hooks[f'{CONN}:DataConnection.disconnect'] = c_disconnect

        def c_receive(it2, f, args, kwargs):
            def body(it3):
                s = args[0]
                if oc == 'none':
                    disc.append(s)
                    s.attrs['_is_closing'] = True
                    return None
                if oc == 'silent-peer' and it3.aio.timeout_depth > 0:
                    it3.throw('TimeoutError')
                if oc in ('ConnectionReadError', 'silent-peer'):
                    disc.append(s)
                    s.attrs['_is_closing'] = True
                    raise PyRaise(ExcVal(cls(it3, 'exceptions', 'ConnectionReadError'), ('read',)))
                if oc == 'MessageDeserializationError':
                    raise PyRaise(ExcVal(cls(it3, 'exceptions', 'MessageDeserializationError'), (), {'proto_message': Rope()}))
                return new(it3, MSG, 'Ping.Request')
            return A.SimpleAwaitable(it2.aio, 'receive_message_object', body)
        it.hooks[f'{CONN}:DataConnection.receive_message_object'] = c_receive
        net = new(it, NET, 'Network')
        net.attrs.update(peer_connections=[other], _expected_connection_futures={},
                         _event_bus=Stub('bus', emit=Recorder('emit', is_async=True)))
        it.write_log = []
        try:
            run(it, it.getattr(net, 'on_peer_accepted'), conn)
        except PyRaise as pr:
            ctx.fail(f'C02.on_peer_accepted.isolation[{oc}]', f'{pr.exc.cls.name} escapes on_peer_accepted')
            return
        touched_other = any(o is other for o, _ in it.write_log) or any(d is other for d in disc)
        ctx.prove(f'C02.on_peer_accepted.isolation[{oc}]',
                  (not touched_other) and conn.attrs['_is_closing'] is True and all(d is conn for d in disc),
                  f'disconnects={disc!r}, accepted connection closing={conn.attrs["_is_closing"]}')
    ex.run(path, 'on_peer_accepted')


# ---------------------------------------------------------------------------
# handlers reachable from on_message_received must not leak CancelledError (a BaseException) into the reader

RESERVED_LOG_KEYS = {'name', 'msg', 'args', 'levelname', 'levelno', 'pathname', 'filename', 'module', 'exc_info', 'exc_text', 'stack_info', 'lineno',
                     'funcName', 'created', 'msecs', 'relativeCreated', 'thread', 'threadName', 'processName', 'process', 'message', 'asctime', 'taskName'}


def scan_logging(src_root, ex: Explorer, res):
    """The extraction drops logging calls (they are assumed total and side-effect free).  This whole-tree scan discharges the one way a
    logging call of this code base can raise regardless of the log level configuration of handlers: Logger.makeRecord raises KeyError
    when `extra` carries a key that is a reserved LogRecord attribute.  Obligation: no literal key of an `extra=` dictionary (including
    dictionaries spliced in with **{...}) is reserved; objects spliced in as **self.__dict__ must not define such an attribute."""
    src, _ = source(src_root)
    ctx = Ctx(ex, [])
    bad = []
    n = 0
    for mod in src.modules.values():
        attrs_by_class = {}
        for c in [x for x in ast.walk(mod.tree) if isinstance(x, ast.ClassDef)]:
            names = set()
            for sub in ast.walk(c):
                if isinstance(sub, ast.Attribute) and isinstance(sub.value, ast.Name) and sub.value.id == 'self' and isinstance(sub.ctx, ast.Store):
                    names.add(sub.attr)
            attrs_by_class[c.name] = names
        for call in [x for x in ast.walk(mod.tree) if isinstance(x, ast.Call)]:
            for kw in call.keywords:
                if kw.arg != 'extra':
                    continue
                n += 1

                def keys(d):
                    out = []
                    if isinstance(d, ast.Dict):
                        for k, v in zip(d.keys, d.values):
                            if k is None:
                                out += keys(v)
                            elif isinstance(k, ast.Constant):
                                out.append(k.value)
                    return out
                for k in keys(kw.value):
                    if k in RESERVED_LOG_KEYS:
                        bad.append(f'{mod.name}:{call.lineno} extra key {k!r}')
        for cname, names in attrs_by_class.items():
            hit = names & RESERVED_LOG_KEYS
            uses = any(isinstance(x, ast.keyword) and x.arg == 'extra' and 'self.__dict__' in ast.unparse(x.value) for c in ast.walk(mod.tree)
                       if isinstance(c, ast.ClassDef) and c.name == cname for x in ast.walk(c))
            if hit and uses:
                bad.append(f'{mod.name}:{cname} logs extra=self.__dict__ and defines {sorted(hit)}')
    ctx.prove('C02.logging.extra-keys', not bad and n > 0, f'a logging call can raise KeyError in makeRecord (it runs inside the reader task): {bad[:4]}')
    res.functions.add('whole tree: logging calls with extra= (scan)')


def scan_handlers(src_root, ex: Explorer, res):
    """Obligation C02.handler.<Class>.<method>.no-cancel-escape#k: in code executed by the reader's activation
    (an @on_message handler or a MessageReceivedEvent listener and the methods it awaits / calls on self),
    every `await` of a task or future (an expression that is not a call, or gather/wait without
    return_exceptions) lies inside a try that catches CancelledError/BaseException.  Extern contract of
    `await task` (A-asyncio): raises CancelledError in the awaiter when the task was cancelled."""
    src, _ = source(src_root)
    ctx = Ctx(ex, [])
    n_handlers = 0
    for mod in src.modules.values():
        for c in [n for n in mod.tree.body if isinstance(n, ast.ClassDef)]:
            methods = {m.name: m for m in c.body if isinstance(m, (ast.FunctionDef, ast.AsyncFunctionDef))}
            roots = [m for m in methods.values() if any(ast.unparse(d).startswith('on_message(') for d in m.decorator_list)]
            for n in ast.walk(c):
                if isinstance(n, ast.Call) and ast.unparse(n.func).endswith('.register') and len(n.args) >= 2 \
                        and ast.unparse(n.args[0]) == 'MessageReceivedEvent':
                    nm = ast.unparse(n.args[1]).split('.')[-1]
                    if nm in methods:
                        roots.append(methods[nm])
            seen, work = {}, [(r, r.name) for r in roots]
            while work:
                m, root = work.pop()
                if m.name in seen:
                    continue
                seen[m.name] = root
                for n in ast.walk(m):
                    call = None
                    if isinstance(n, ast.Await) and isinstance(n.value, ast.Call):
                        call = n.value
                    elif isinstance(n, ast.Call):
                        call = n
                    if call is not None and isinstance(call.func, ast.Attribute) and isinstance(call.func.value, ast.Name) \
                            and call.func.value.id == 'self' and call.func.attr in methods:
                        tgt = methods[call.func.attr]
                        awaited = isinstance(n, ast.Await)
                        if awaited or isinstance(tgt, ast.FunctionDef):
                            work.append((tgt, root))
            for nm, root in sorted(seen.items()):
                m = methods[nm]
                n_handlers += 1
                res.functions.add(f'{mod.name.split(".", 1)[-1]}:{c.name}.{nm}')
                k = 0
                parents = {}
                for p in ast.walk(m):
                    for ch in ast.iter_child_nodes(p):
                        parents[id(ch)] = p
                for n in ast.walk(m):
                    if not isinstance(n, ast.Await):
                        continue
                    risky = False
                    if not isinstance(n.value, ast.Call):
                        risky = True
                    else:
                        fn = ast.unparse(n.value.func)
                        if fn in ('asyncio.gather',) and 'return_exceptions=True' not in ast.unparse(n.value):
                            # gather of coroutine calls only propagates their own exceptions; of tasks: cancellation
                            risky = not all(isinstance(a, ast.Call) or (isinstance(a, ast.Starred) and isinstance(a.value, ast.ListComp)
                                                                        and isinstance(a.value.elt, ast.Call)) for a in n.value.args)
                        elif fn in ('asyncio.wait_for', 'asyncio.shield'):
                            risky = True
                    if not risky:
                        continue
                    # shielded by an enclosing try that catches CancelledError / BaseException / bare except?
                    shielded = False
                    q = n
                    while id(q) in parents:
                        p = parents[id(q)]
                        if isinstance(p, ast.Try) and q in p.body:
                            for h in p.handlers:
                                t = ast.unparse(h.type) if h.type is not None else 'BaseException'
                                if 'CancelledError' in t or 'BaseException' in t:
                                    shielded = True
                        if isinstance(p, (ast.With, ast.AsyncWith)) and any('suppress' in ast.unparse(i.context_expr) and
                                                                                'CancelledError' in ast.unparse(i.context_expr) for i in p.items):
                            shielded = True
                        q = p
                    name = f'C02.handler.{c.name}.{nm}.no-cancel-escape#{k}'
                    k += 1
                    ctx.prove(name, shielded,
                              f'`await {ast.unparse(n.value)}` (line {n.lineno} of {mod.name}) can raise CancelledError, a '
                              f'BaseException that no reader-loop handler catches: the reader task of the connection dies '
                              f'(reached from handler {root})')
                if k == 0:
                    ctx.ok(f'C02.handler.{c.name}.{nm}.no-cancel-escape')
    if n_handlers == 0:
        ctx.fail('C02.handler.scan', 'no message handlers found (vacuity guard)')


# ---------------------------------------------------------------------------

def elem_types():
    return C01.array_elem_types()


def items(src_root, tier):
    out = [('prim', t) for t in sorted(RAISES)]
    out += [('record', t) for t in sorted(LAYOUT['records'])]
    out += [('array', t) for t in elem_types()]
    out += [('msg', q) for q in sorted(LAYOUT['messages'])]
    out += [('dispatch', d) for d in DISPATCHERS]
    out += [('dispatch-history', None), ('decode-state', None), ('finalize-relies', None)]
    out += [('obf', None), ('conn', 'decode'), ('conn', 'framing'), ('conn', 'read'), ('conn', 'loop'),
            ('conn', 'accepted'), ('conn', 'receive-object'), ('handlers', None)]
    return out


def run_item(src_root, item, tier):
    res = std_result('C02')
    ex = Explorer()
    kind, arg = item
    N.EXTERNS_USED.clear()
    try:
        if kind == 'prim':
            prove_prim_total(src_root, arg, ex)
        elif kind == 'record':
            prove_record_total(src_root, arg, ex)
        elif kind == 'array':
            prove_array_total(src_root, arg, ex)
        elif kind == 'msg':
            prove_message_total(src_root, arg, ex)
        elif kind == 'dispatch':
            prove_dispatch_total(src_root, arg[0], arg[1], ex)
        elif kind == 'dispatch-history':
            prove_dispatch_history_free(src_root, ex)
        elif kind == 'decode-state':
            scan_decode_state(src_root, ex)
        elif kind == 'finalize-relies':
            # an initialised connection of ANY announced type gets its reader (otherwise nobody notices its close): C11.finalize[*]
            from contracts import C11
            C11.prove_finalize(src_root, ex)
            for ob in ex.obligations:
                if ob.name.startswith('C11.finalize'):
                    ob.name = 'C02.initialised-connection-is-read' + ob.name[len('C11.finalize'):]
        elif kind == 'obf':
            prove_obf_total(src_root, ex)
        elif kind == 'conn':
            {'decode': prove_decode_message_data, 'framing': prove_framing, 'read': prove_read,
             'loop': prove_reader_loop, 'accepted': prove_on_peer_accepted, 'receive-object': prove_receive_message_object}[arg](src_root, ex)
        elif kind == 'handlers':
            scan_handlers(src_root, ex, res)
            scan_logging(src_root, ex, res)
    except Unsupported as e:
        res.errors.append(f'{kind}:{arg}: unsupported: {e}')
    # obligations emitted by the shared obfuscation loop contracts are C02's here
    for ob in ex.obligations:
        if ob.name.startswith('C01.obf'):
            ob.name = 'C02' + ob.name[3:]
    collect(res, ex)
    res.functions.update([
        f'{CONN}:DataConnection.decode_message_data', f'{CONN}:DataConnection._read_message', f'{CONN}:DataConnection._read',
        f'{CONN}:DataConnection._message_reader_loop', f'{CONN}:DataConnection._perform_message_callback', f'{CONN}:DataConnection.receive_message_object',
        f'{NET}:Network.on_peer_accepted', f'{OBF}:decode'])
    return res
