"""C14 -- search requests flow down the tree exactly once and are answered to the asker.  DESIGN.md section 4 / C14."""
from __future__ import annotations

import z3

from pyvc.ctx import Ctx, Explorer, Unsupported, PathAbort
from pyvc.interp import Interp, CoroVal
from pyvc.values import (Sym, Obj, PyRaise, Native, Bound, EnumMember, Opaque, unbox, z3int, z3str)
from pyvc import natives as N
from pyvc import aio as A
from contracts.common import (source, mk, cls, func, new, run, enum, Recorder, Stub, collect, std_result)
from contracts.C13 import Tree, sstr, DN, CONN, MSG

SM = 'search.manager'

ASSUMPTIONS = [
    'the ghost trace sent[c] (messages handed to queue_messages / send_peer_messages) is the hand-over point',
    'SharesManager.query returns (visible, locked) result lists (its contract belongs to C07/C08)',
    'list shapes: parent absent/present, 0..3 children, one further distributed connection (candidate) are enumerated; '
    'obligations that quantify over the children are labelled [bounded]',
    'A-atomic cooperative scheduling',
]
TRUSTED_BASE = ['pyvc engine', 'z3', 'abstract asyncio model']
NOT_DECIDED = ['delivery on the wire of a queued message; children that close while the send task is queued (C10: send suppressed)',
               'share contents (C07 / C08)']

CARRIERS = {
    'server': dict(handler='_on_server_search_request', msg='ServerSearchRequest.Response', unknown='same'),
    'distributed': dict(handler='_on_distributed_search_request', msg='DistributedSearchRequest.Request', unknown='same'),
    'legacy': dict(handler='_on_distributed_server_search_request', msg='DistributedServerSearchRequest.Request', unknown=0x31),
}


def carrier_message(it, ctx, kind, username):
    spec = CARRIERS[kind]
    fields = dict(username=username, ticket=Sym(ctx.fresh_int('ticket'), 'int'), query=sstr(ctx, 'query'), unknown=Sym(ctx.fresh_int('unknown'), 'int'))
    if kind == 'server':
        fields['distributed_code'] = 3
    if kind == 'legacy':
        code = ctx.fresh_int('code')
        fields['distributed_code'] = Sym(code, 'int')
    return new(it, MSG, spec['msg'], **fields)


def prove_forward(src_root, kind, ex: Explorer):
    spec = CARRIERS[kind]

    def path(ctx: Ctx):
        it = mk(src_root, ctx)
        n = ctx.choose(4, 'children')
        has_parent = ctx.choose(2, 'parent') == 1
        own = ctx.choose(2, 'own-search') == 1
        # the tree outlives the server session (the server connection may be lost while parent and children stay connected): without a
        # session there is no own name to compare with, every search is somebody else's
        logged_in = own or ctx.choose(2, 'logged-in') == 1
        t = Tree(it, ctx, parent=has_parent, n_children=n, session=logged_in)
        asker = t.me if own else sstr(ctx, 'asker')
        if not own:
            ctx.assume(asker.t != t.me.t)
        msg = carrier_message(it, ctx, kind, asker)
        src_conn = (t.parent.attrs['connection'] if has_parent else t.extra.attrs['connection']) if kind != 'server' else Opaque('server-connection')
        code_ok = True
        if kind == 'legacy':
            code_ok = ctx.branch(z3int(msg.attrs['distributed_code']) == 3)
        try:
            run(it, it.getattr(t.dn, spec['handler']), msg, src_conn)
        except PyRaise as pr:
            ctx.fail(f'C14.forward.{kind}.no-raise', repr(pr.exc))
            return
        child_labels = [c.attrs['connection'].label for c in t.children]
        others = {k: v for k, v in t.sent.items() if k not in child_labels}
        # SearchManager listens on the same bus and answers all three carriers (C14.answer.*): a search request put back on the
        # bus by the forwarding side is answered a second time
        again = [e for e in t.emitted if isinstance(e, Obj) and e.cls.qual == "MessageReceivedEvent"]
        ctx.prove(f'C14.forward.{kind}.no-redispatch', not again,
                  'the forwarding handler re-dispatched a received message on the event bus: the answering side sees the search twice')
        if own:
            ctx.prove(f'C14.own.forward.{kind}', not t.sent and not t.server_sent,
                      f'a search that originates from the logged-in user was passed on to {sorted(t.sent)}')
            return
        if not code_ok:
            ctx.prove('C14.code-check.forward', not t.sent and not t.server_sent, 'a legacy carrier with another code must be ignored')
            return
        ctx.prove(f'C14.forward.{kind}.nobody-else', not others and not t.server_sent,
                  f'messages handed to connections that are not children: {sorted(others)}')
        ok = True
        detail = ''
        for lab in child_labels:
            got = t.sent.get(lab, [])
            if len(got) != 1 or not isinstance(got[0], Obj) or got[0].cls.qual != 'DistributedSearchRequest.Request':
                ok, detail = False, f'{lab} received {[getattr(g, "cls", g) for g in got]}'
                break
            g = got[0]
            same = z3.And(z3str(g.attrs['username']) == asker.t, z3int(g.attrs['ticket']) == z3int(msg.attrs['ticket']),
                          z3str(g.attrs['query']) == z3str(msg.attrs['query']))
            if spec['unknown'] == 'same':
                same = z3.And(same, z3int(g.attrs['unknown']) == z3int(msg.attrs['unknown']))
            else:
                same = z3.And(same, z3int(g.attrs['unknown']) == spec['unknown'])
            if not ctx.valid(same):
                ok, detail = False, f'{lab}: forwarded request differs from the incoming one'
                break
        ctx.prove(f'C14.forward.{kind}.each-child-once[bounded]', ok, detail)
        # unbounded form: ONE fan-out (contract C14.fanout.*: every child, all messages, no suspension) of ONE request equal to the incoming one
        bc = t.broadcasts
        okb = len(bc) == 1 and len(bc[0]) == 1 and isinstance(bc[0][0], Obj) and bc[0][0].cls.qual == 'DistributedSearchRequest.Request'
        if okb:
            g = bc[0][0]
            same = z3.And(z3str(g.attrs['username']) == asker.t, z3int(g.attrs['ticket']) == z3int(msg.attrs['ticket']),
                          z3str(g.attrs['query']) == z3str(msg.attrs['query']),
                          z3int(g.attrs['unknown']) == (z3int(msg.attrs['unknown']) if spec['unknown'] == 'same' else spec['unknown']))
            okb = ctx.valid(same)
        ctx.prove(f'C14.forward.{kind}.one-fanout-of-the-same-search', okb,
                  f'the search must be handed to the children in exactly one fan-out of one request with the same user, ticket and query (got {len(bc)} fan-outs)')
    ex.run(path, f'forward-{kind}')


def prove_queue_messages(src_root, ex: Explorer):
    """DataConnection.queue_messages(*messages) creates exactly one send task per message, in order."""
    def path(ctx: Ctx):
        it = mk(src_root, ctx)
        n = ctx.choose(3, 'messages')
        c = Obj(cls(it, CONN, 'PeerConnection'))
        c.attrs['_queued_messages'] = []
        msgs = [Opaque(f'm{i}') for i in range(n)]
        it.natives['aioslsk.utils.task_counter'] = Native('task_counter', lambda it2, a, k: 1)
        r = it.call(it.getattr(c, 'queue_messages'), msgs, {})
        tasks = it.aio.tasks
        ok = len(tasks) == n and len(r) == n and all(isinstance(tk.coro, CoroVal) and tk.coro.func.node.name == 'send_message'
                                                     and tk.coro.args[1] is m for tk, m in zip(tasks, msgs))
        ctx.prove('C14.queue_messages.one-task-per-message', ok)
        ctx.prove('C14.queue_messages.tracked', c.attrs['_queued_messages'] == tasks and all(len(tk.callbacks) == 1 for tk in tasks))
    ex.run(path, 'queue_messages')

    def own_list(ctx: Ctx):
        """the list of pending send tasks belongs to ONE connection: disconnect() of a connection cancels what that list holds, so a list
        shared between connections (a mutable class-level default) lets the close of any connection cancel the forwards queued for every
        child.  Two connections built by the real constructors: every mutable container they start with is their own."""
        it = mk(src_root, ctx)
        kind = ['PeerConnection', 'ServerConnection'][ctx.choose(2, 'class')]
        net = Stub('network')
        a = it.call(cls(it, CONN, kind), ['1.2.3.4', 5, net], {})
        b = it.call(cls(it, CONN, kind), ['1.2.3.5', 6, net], {})
        shared = []
        for o in (a, b):
            for nm in ('_queued_messages',):
                if nm not in o.attrs:
                    v = it.getattr(o, nm)           # class-level default
                    shared.append((nm, 'class attribute'))
        for nm, v in a.attrs.items():
            if isinstance(v, (list, dict, set)) and b.attrs.get(nm) is v:
                shared.append((nm, 'same object in two connections'))
        qa = a.attrs.get('_queued_messages')
        ctx.prove(f'C14.queue_messages.own-list[{kind}]', not shared and isinstance(qa, list) and qa == [],
                  f'two {kind} objects share mutable state: {shared}')
    ex.run(own_list, 'queue_messages-own-list')


# ---------------------------------------------------------------------------
# answering (SearchManager)

def mk_search_manager(it, ctx, *, session=True):
    me = sstr(ctx, 'me')
    emitted = []
    bus = Stub('bus', emit=Recorder('emit', fn=lambda it2, a, k: emitted.append(a[0]), is_async=True))
    blocked = ctx.fresh_bool('blocked')
    block_calls = []

    def is_blocked(it2, a, k):
        block_calls.append(a)
        return Sym(blocked, 'bool')
    settings = Stub('settings', users=Stub('users', is_blocked=Recorder('is_blocked', fn=is_blocked)))
    nv, nl = ctx.fresh_int('n_visible'), ctx.fresh_int('n_locked')
    ctx.assume(z3.And(nv >= 0, nl >= 0))

    class Results:
        def __init__(self, name, n):
            self.name, self.n = name, n

        def pyvc_len(self, it2):
            return Sym(self.n, 'int')

        def pyvc_truth(self, it2):
            return self.n > 0

        def __repr__(self):
            return f'<{self.name}>'
    visible, locked = Results('visible', nv), Results('locked', nl)
    queries = []

    def query(it2, a, k):
        queries.append((a, k))
        return (visible, locked)
    shares = Stub('shares', query=Recorder('query', fn=query))
    peer_sends = []

    def send_peer(it2, a, k):
        peer_sends.append(a)
    net = Stub('network', send_peer_messages=Recorder('send_peer_messages', fn=send_peer, is_async=True))
    upi = Stub('upload_info', has_slots_free=Recorder('hsf', ret=True), get_average_upload_speed=Recorder('gaus', ret=1.0),
               get_queue_size=Recorder('gqs', ret=0))
    it.hooks['shares.utils:convert_items_to_file_data'] = lambda it2, f, a, k: ('filedata', a[0])
    sess = Stub('session', user=Stub('user', name=me)) if session else None
    mgr = new(it, SM, 'SearchManager', _settings=settings, _event_bus=bus, _shares_manager=shares, _network=net, _session=sess,
              _upload_info_provider=upi, excluded_search_phrases=['x'], received_searches=[], _search_reply_tasks=[])
    # our own pending searches: an ARBITRARY set of tickets (tickets are drawn per client, a foreign request may carry any of them) - whether
    # a foreign request is answered must not depend on it
    from pyvc.symcoll import SymSet as _SymSet
    mgr.attrs['requests'] = _SymSet.fresh(ctx, 'own_pending_tickets', z3.IntSort())
    it.natives['aioslsk.utils.task_counter'] = Native('task_counter', lambda it2, a, k: 1)
    return dict(mgr=mgr, me=me, emitted=emitted, blocked=blocked, block_calls=block_calls, visible=visible, locked=locked,
                nv=nv, nl=nl, queries=queries, net=net)


def prove_reply(src_root, ex: Explorer):
    def path(ctx: Ctx):
        it = mk(src_root, ctx)
        w = mk_search_manager(it, ctx)
        asker, query, ticket = sstr(ctx, 'asker'), sstr(ctx, 'query'), Sym(ctx.fresh_int('ticket'), 'int')
        try:
            run(it, it.getattr(w['mgr'], '_query_shares_and_reply'), ticket, asker, query)
        except PyRaise as pr:
            ctx.fail('C14.reply.no-raise', repr(pr.exc))
            return
        tasks = [t for t in it.aio.tasks]
        if ctx.valid(w['blocked']):
            ctx.prove('C14.reply.blocked', not tasks and not w['queries'], 'users blocked for searches get no reply (and no query is run)')
            return
        some = z3.Or(w['nv'] > 0, w['nl'] > 0)
        ctx.prove('C14.reply.once', z3.BoolVal(len(tasks) == 1) == some if len(tasks) <= 1 else False,
                  'exactly one reply task iff there are visible or locked matches')
        ctx.prove('C14.reply.queries-for-asker', len(w['queries']) == 1 and w['queries'][0][0][0] is query and w['queries'][0][1].get('username') is asker)
        if len(tasks) == 1:
            coro = tasks[0].coro
            # the coroutine of the task: network.send_peer_messages(asker, PeerSearchReply(...))
            aw = coro
            args = aw.fn.__self__.calls[-1][0] if hasattr(aw, 'fn') and hasattr(aw.fn, '__self__') else None
            calls = w['net'].attrs['send_peer_messages'].calls
            ok = len(calls) == 1 and calls[0][0][0] is asker and len(calls[0][0]) == 2
            if ok:
                m = calls[0][0][1]
                ok = m.cls.qual == 'PeerSearchReply.Request' and m.attrs['username'] is w['me'] and m.attrs['ticket'] is ticket \
                    and m.attrs['results'] == ('filedata', w['visible']) and m.attrs['locked_results'] == ('filedata', w['locked'])
            ctx.prove('C14.reply.content', ok, 'one PeerSearchReply to the asker with the same ticket, the own username and the visible / locked results')
    ex.run(path, 'reply')


ANSWERERS = {
    'server': dict(handler='_on_server_search_request', msg='ServerSearchRequest.Response'),
    'file-search': dict(handler='_on_file_search', msg='FileSearch.Response'),
    'distributed': dict(handler='_on_distributed_search_request', msg='DistributedSearchRequest.Request'),
    'legacy': dict(handler='_on_distributed_server_search_request', msg='DistributedServerSearchRequest.Request'),
}


def _same_value(ctx, a, b):
    if isinstance(a, Sym) and isinstance(b, Sym) and a.k == b.k:
        return ctx.valid(a.t == b.t)
    return not isinstance(a, (Sym, Obj)) and not isinstance(b, (Sym, Obj)) and type(a) is type(b) and a == b


def prove_answerers(src_root, kind, ex: Explorer):
    spec = ANSWERERS[kind]

    def path(ctx: Ctx):
        it = mk(src_root, ctx)
        w = mk_search_manager(it, ctx)
        own = ctx.choose(2, 'own-search') == 1
        asker = w['me'] if own else sstr(ctx, 'asker')
        if not own:
            ctx.assume(asker.t != w['me'].t)
        fields = dict(username=asker, ticket=Sym(ctx.fresh_int('ticket'), 'int'), query=sstr(ctx, 'query'))
        if kind in ('server', 'legacy'):
            fields['distributed_code'] = Sym(ctx.fresh_int('code'), 'int') if kind == 'legacy' else 3
            fields['unknown'] = 0
        if kind == 'distributed':
            fields['unknown'] = 0
        msg = new(it, MSG, spec['msg'], **fields)
        code_ok = True
        if kind == 'legacy':
            code_ok = ctx.branch(z3int(msg.attrs['distributed_code']) == 3)
        calls = []

        def c_reply(it2, f, a, k):
            # (ticket, username, query), however they are passed
            pos = list(a[1:])
            vals = [pos[i] if i < len(pos) else k.get(nm) for i, nm in enumerate(('ticket', 'username', 'query'))]
            calls.append(tuple(vals))
            return A.SimpleAwaitable(it2.aio, 'reply', lambda it3: None, yields=False)
        it.hooks[f'{SM}:SearchManager._query_shares_and_reply'] = c_reply
        before = dict(msg.attrs)
        run(it, it.getattr(w['mgr'], spec['handler']), msg, Opaque('conn'))
        # the message object is shared with the forwarding side (same event, same bus): it must leave this handler as it came
        same = all(k in msg.attrs and (msg.attrs[k] is v or _same_value(ctx, msg.attrs[k], v)) for k, v in before.items())
        ctx.prove(f'C14.answer.{kind}.message-untouched', same,
                  'the answering handler changed the received message, which the forwarding handler passes on to the children')
        if own:
            ctx.prove(f'C14.own.answer.{kind}', not calls, 'a search that originates from the logged-in user was answered')
        elif not code_ok:
            ctx.prove('C14.code-check.answer', not calls)
        else:
            ok = len(calls) == 1 and calls[0][0] is before['ticket'] and calls[0][1] is asker and calls[0][2] is before['query']
            ctx.prove(f'C14.answer.{kind}', ok, 'the shares are queried once for (ticket, asker, query) of the incoming request')
    ex.run(path, f'answer-{kind}')


def prove_fanout(src_root, ex: Explorer):
    """send_messages_to_children, loop contract (arbitrary child of an arbitrary children list): the messages are handed to the child's
    connection with queue_messages - one independent send task per message (C14.queue_messages.*) - and the fan-out never suspends: the
    children list cannot change under the loop, a slow child delays nobody and a failing child cannot stop the others."""
    def path(ctx: Ctx):
        it = mk(src_root, ctx)
        queued, awaited = [], []
        conn = Stub('child connection', queue_messages=Recorder('queue_messages', fn=lambda it2, a, k: queued.append(tuple(a))),
                    send_message=Recorder('send_message', fn=lambda it2, a, k: awaited.append(a[0]), is_async=True),
                    queue_message=Recorder('queue_message', fn=lambda it2, a, k: queued.append(tuple(a))))
        child = Stub('child', connection=conn)

        class Children:
            def pyvc_iter(self, it2, loop):
                raise Unsupported('iteration over the children without a contract')
        children = Children()
        dn = new(it, DN, 'DistributedNetwork', children=children)
        m1, m2 = Stub('message 1'), Stub('message 2')
        yields = []
        it.aio.on_yield = lambda it2, label: yields.append(label)
        seen = []

        def loop(it2, node, env):
            src = it2.eval(node.iter, env)
            it2.assign(node.target, child, env)
            it2.exec_block(node.body, env)
            seen.append(src)
        it.loop_specs[(f'{DN}:DistributedNetwork.send_messages_to_children', 0)] = loop
        run(it, it.getattr(dn, 'send_messages_to_children'), m1, m2)
        flat = [m for q in queued for m in q]
        ctx.prove('C14.fanout.iterates-children', len(seen) == 1 and seen[0] is children)
        ctx.prove('C14.fanout.child-gets-all', flat == [m1, m2] and not awaited, 'each child must be handed every message once, through its send queue')
        ctx.prove('C14.fanout.never-suspends', not yields and not awaited,
                  f'the fan-out suspends ({yields}) while it iterates over the live children list: a slow or failing child delays or cuts off the others')
    ex.run(path, 'fanout')


def prove_child_admission_site(src_root, ex: Explorer):
    """_on_peer_connection_initialized: only a distributed connection that the PEER opened is considered as a child.  A connection this
    client requested goes to a potential parent: it must never enter the children (it would be fed every forwarded search and could never
    become the parent).  Every distributed connection is recorded as a distributed peer."""
    def path(ctx: Ctx):
        it = mk(src_root, ctx)
        requested = ctx.choose(2, 'requested-by-us') == 1
        distributed = ctx.choose(2, 'distributed') == 1
        checked = []
        it.hooks[f'{DN}:DistributedNetwork._check_if_new_child'] = lambda it2, f, a, k: A.SimpleAwaitable(it2.aio, 'check', lambda it3: checked.append(a[1]))
        typ = cls(it, CONN, 'PeerConnectionType')
        ctype = it.class_attr(typ, 'DISTRIBUTED') if distributed else it.class_attr(typ, 'PEER')
        conn = Stub('connection', connection_type=ctype, username='bob')
        dn = new(it, DN, 'DistributedNetwork', distributed_peers=[])
        run(it, it.getattr(dn, '_on_peer_connection_initialized'), Stub('event', connection=conn, requested=requested))
        peers = dn.attrs['distributed_peers']
        if not distributed:
            ctx.prove('C14.children.site[other-connection]', not checked and not peers)
            return
        ok_peer = len(peers) == 1 and isinstance(peers[0], Obj) and peers[0].attrs.get('connection') is conn
        ctx.prove('C14.children.site[records-peer]', ok_peer)
        if requested:
            ctx.prove('C14.children.site[requested]', not checked, 'a connection this client requested (to a potential parent) is considered as a child')
        else:
            ctx.prove('C14.children.site[incoming]', ok_peer and checked == [peers[0]], 'an incoming distributed connection must be considered as a child')
    ex.run(path, 'child-admission-site')


def prove_tree_relies(src_root, ex: Explorer):
    """Forwarding to 'the children and nobody else' presupposes that the children list holds exactly the admitted, still connected
    children and never the parent: the C13 obligations about the parent election (a child never becomes the parent) and about the lookup
    of the peer object of a closing connection (the right child is removed) are discharged here as well."""
    from contracts import C13
    C13.prove_check_new_parent(src_root, ex)
    C13.prove_peer_lookup(src_root, ex)
    # "exactly once": every frame is delivered to the handlers once (the reader loop contract of C02); "to the asker": the address that
    # is looked up for the reply connection is the asker's (C11.peer-address.*)
    from contracts import C02, C11
    C02.prove_reader_loop(src_root, ex)
    C11.prove_address_and_state(src_root, ex)
    for ob in ex.obligations:
        if ob.name.startswith('C13.'):
            ob.name = 'C14.tree.' + ob.name[4:]
        elif ob.name.startswith('C02.'):
            ob.name = 'C14.delivered-once.' + ob.name[4:]
        elif ob.name.startswith('C11.'):
            ob.name = 'C14.reply-to-asker.' + ob.name[4:]


def prove_reply_connection(src_root, ex: Explorer):
    """The reply is handed to Network.send_peer_messages(asker, ...), which writes on an ACTIVE MESSAGING connection of that user.  The
    asker may also be our child or parent (a distributed connection to the same user) or be transferring a file: the selection
    get_active_peer_connections(user, type) must return exactly the registered connections of that user AND that type that are
    connected and established - a reply framed as a peer message on a distributed connection is garbage to the asker."""
    NETM = 'network.network'

    def path(ctx: Ctx):
        it = mk(src_root, ctx)
        cstate = cls(it, CONN, 'ConnectionState')
        pstate = cls(it, CONN, 'PeerConnectionState')

        def conn(label, user, typ, state='CONNECTED', pst='ESTABLISHED'):
            return Stub(label, username=user, connection_type=typ, state=enum(it, CONN, 'ConnectionState', state),
                        connection_state=enum(it, CONN, 'PeerConnectionState', pst))
        want_typ = ['P', 'D'][ctx.choose(2, 'type')]
        regs = [conn('asker messaging', 'asker', 'P'), conn('asker distributed', 'asker', 'D'), conn('asker file', 'asker', 'F', pst='TRANSFERRING'),
                conn('asker messaging closed', 'asker', 'P', state='CLOSED'), conn('asker messaging not initialised', 'asker', 'P', pst='AWAITING_INIT'),
                conn('other messaging', 'other', 'P'), conn('other distributed', 'other', 'D')]
        net = new(it, NETM, 'Network', peer_connections=list(regs))
        r = it.call(it.getattr(net, 'get_active_peer_connections'), ['asker', want_typ], {})
        got = [c._name for c in (r if isinstance(r, list) else list(it.iterate(r)))]
        want = ['asker messaging'] if want_typ == 'P' else ['asker distributed']
        ctx.prove(f'C14.reply.connection-selection[type={want_typ}]', got == want,
                  f'active connections of type {want_typ} for the asker: {got}, expected {want}')
    ex.run(path, 'reply-connection')


def items(src_root, tier):
    return [('tree', None)] + [('forward', k) for k in CARRIERS] + [('queue', None), ('reply', None), ('reply-connection', None), ('fanout', None), ('site', None)] + [('answer', k) for k in ANSWERERS]


def run_item(src_root, item, tier):
    res = std_result('C14')
    ex = Explorer()
    kind, arg = item
    try:
        if kind == 'forward':
            prove_forward(src_root, arg, ex)
        elif kind == 'queue':
            prove_queue_messages(src_root, ex)
        elif kind == 'reply':
            prove_reply(src_root, ex)
        elif kind == 'reply-connection':
            prove_reply_connection(src_root, ex)
        elif kind == 'fanout':
            prove_fanout(src_root, ex)
        elif kind == 'site':
            prove_child_admission_site(src_root, ex)
        elif kind == 'tree':
            prove_tree_relies(src_root, ex)
        elif kind == 'answer':
            prove_answerers(src_root, arg, ex)
    except Unsupported as e:
        res.errors.append(f'{kind}:{arg}: unsupported: {e}')
    collect(res, ex)
    res.bounded.append({'obligations': '*[bounded]', 'bound': 'children lists of length 0..3', 'counted_as_proved': False})
    res.functions.update([f'{DN}:DistributedNetwork.{c["handler"]}' for c in CARRIERS.values()])
    res.functions.update([f'{SM}:SearchManager.{c["handler"]}' for c in ANSWERERS.values()])
    res.functions.update([f'{DN}:DistributedNetwork.send_messages_to_children', f'{DN}:DistributedNetwork._on_peer_connection_initialized', f'{CONN}:DataConnection.queue_messages',
                          f'{CONN}:DataConnection.queue_message', f'{SM}:SearchManager._query_shares_and_reply',
                          'network.network:Network.get_active_peer_connections', 'network.network:Network.get_peer_connections'])
    return res
