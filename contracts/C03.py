"""C03 -- transfer state changes follow the documented graph.  DESIGN.md section 4 / C03."""
from __future__ import annotations
import ast

import z3

from pyvc.ctx import Ctx, Explorer, Unsupported, PathAbort
from pyvc.interp import Interp, CoroVal
from pyvc.values import (Sym, Obj, ClassVal, PyRaise, Native, Bound, PyFunc, ExcVal, BUILTIN_CLASSES, Opaque, unbox)
from pyvc import natives as N
from pyvc import aio as A
from contracts.common import (source, mk, cls, func, new, run, enum, Recorder, Stub, collect, std_result, is_exception)

STATE = 'transfer.state'
MODEL = 'transfer.model'
MGR = 'transfer.manager'

# pinned transfer state graph (DESIGN section 3; docs/source/USAGE.rst "Managing Transfer States")
EDGES = {
    'VIRGIN': {'QUEUED', 'PAUSED'},
    'QUEUED': {'INITIALIZING', 'FAILED', 'ABORTED', 'PAUSED'},
    'INITIALIZING': {'QUEUED', 'FAILED', 'ABORTED', 'PAUSED', 'DOWNLOADING', 'UPLOADING'},
    'DOWNLOADING': {'COMPLETE', 'INCOMPLETE', 'FAILED', 'ABORTED', 'PAUSED'},
    'UPLOADING': {'COMPLETE', 'FAILED', 'ABORTED', 'PAUSED'},
    'INCOMPLETE': {'QUEUED', 'INITIALIZING', 'FAILED', 'ABORTED', 'PAUSED'},
    'COMPLETE': {'QUEUED'},
    'FAILED': {'QUEUED'},
    'PAUSED': {'QUEUED', 'ABORTED', 'FAILED'},
    'ABORTED': {'QUEUED'},
}
STATE_CLASSES = ['VirginState', 'QueuedState', 'InitializingState', 'DownloadingState', 'UploadingState',
                 'CompleteState', 'IncompleteState', 'FailedState', 'PausedState', 'AbortedState']
METHODS = {'fail': ['r'], 'abort': ['r'], 'queue': [], 'initialize': [], 'complete': [], 'incomplete': [],
           'start_transferring': [], 'pause': []}

ASSUMPTIONS = [
    'A-atomic: cooperative scheduling; the only yield points are awaits of library awaitables',
    'A-asyncio: asyncio.Lock gives mutual exclusion between activations; acquiring it may suspend',
    'A-inspect: inspect.getmembers(obj, inspect.ismethod) lists every function attribute along the MRO',
    'A-nomonkey: no rebinding of state methods other than TransferState._wrap_lock (which is executed for real)',
    'A-fs: aiofiles.os.path.exists / remove return or raise OSError',
]
TRUSTED_BASE = ['pyvc engine', 'z3', 'pinned EDGES table in contracts/C03.py']
NOT_DECIDED = []


def install_env(it: Interp, ctx: Ctx, effects: list):
    it.natives['time.time'] = Native('time.time', lambda it2, a, k: Sym(ctx.fresh_real('now'), 'real'))
    it.natives['collections.deque'] = Native('deque', lambda it2, a, k: Opaque('deque'))

    def exists(it2, a, k):
        def body(it3):
            effects.append(('exists', a[0]))
            kk = it3.ctx.choose(3, 'exists')
            if kk == 2:
                it3.throw('OSError', 'stat failed')
            return kk == 1
        return A.SimpleAwaitable(it2.aio, 'aiofiles.os.path.exists', body)

    def remove(it2, a, k):
        def body(it3):
            effects.append(('remove', a[0]))
            if it3.ctx.choose(2, 'remove') == 1:
                it3.throw('OSError', 'unlink failed')
        return A.SimpleAwaitable(it2.aio, 'aiofiles.os.remove', body)
    it.natives['aiofiles.os.path.exists'] = Native('exists', exists)
    it.natives['aiofiles.os.remove'] = Native('remove', remove)


def mk_transfer(it: Interp, ctx: Ctx, direction: str, notified: list, with_tasks=False):
    t = new(it, MODEL, 'Transfer')
    lock = A.LockVal(it.aio, 'state_lock')

    def on_changed(it2, args, kwargs):
        notified.append((args[1], args[2], lock.locked, t.attrs['state']))
    listener = Stub('listener', on_transfer_state_changed=Recorder('on_transfer_state_changed', fn=on_changed, is_async=True))
    t.attrs.update(
        direction=enum(it, MODEL, 'TransferDirection', direction), username='user', remote_path='path',
        local_path=Sym(ctx.fresh_str('local'), 'str') if direction == 'DOWNLOAD' else None,
        remotely_queued=Sym(ctx.fresh_bool('rq'), 'bool'), place_in_queue=None, fail_reason=None, abort_reason=None,
        filesize=None, bytes_transfered=0, queue_attempts=0, last_queue_attempt=0.0, upload_request_attempts=0,
        last_upload_request_attempt=0.0, start_time=Sym(ctx.fresh_real('st'), 'real'), complete_time=None,
        _speed_log=Opaque('deque'), _remotely_queue_task=None, _transfer_task=None, _state_lock=lock,
        state_listeners=[listener], progress_snapshot=Opaque('snapshot'))
    if with_tasks:
        t.attrs['_remotely_queue_task'] = A.TaskVal(it.aio, None, 'queue-remotely')
        t.attrs['_transfer_task'] = A.TaskVal(it.aio, None, 'transfer-task')
    return t, lock


def value_name(v):
    return getattr(v, 'name', repr(v))


# ---------------------------------------------------------------------------

def prove_edges(src_root, sname, mname, ex: Explorer):
    """C03.<S>.<m>: under `transfer.state is self` and the lock held, method m of state class S either
    returns True after exactly one observable change S.VALUE -> T.VALUE that is an edge of EDGES, or returns
    False and changes nothing (no field written, no task cancelled, no file touched)."""
    def path(ctx: Ctx):
        it = mk(src_root, ctx)
        effects: list = []
        install_env(it, ctx, effects)
        direction = ['DOWNLOAD', 'UPLOAD'][ctx.choose(2, 'direction')]
        notified: list = []
        t, lock = mk_transfer(it, ctx, direction, notified, with_tasks=True)
        S = cls(it, STATE, sname)
        s = it.call(S, [t], {})
        t.attrs['state'] = s
        lock.locked = True                               # requires holds(self.transfer._state_lock)
        meth = it.class_attr(S, mname)                   # the unwrapped body (the wrapper is C03.wrapper.*)
        args = [Sym(ctx.fresh_str('reason'), 'str')] if METHODS[mname] else []
        it.write_log = []
        src_val = value_name(it.class_attr(S, 'VALUE'))
        tag = f'{sname}.{mname}[{direction.lower()}]'
        try:
            res = run(it, meth, s, *args)
        except PyRaise as pr:
            ctx.fail(f'C03.{tag}.no-raise', f'{pr.exc!r}')
            return
        ok_res = res is True or res is False
        ctx.prove(f'C03.{tag}.returns-bool', ok_res, f'returned {res!r}')
        writes = [(o, a) for o, a in it.write_log if o is t]
        cancelled = ctx.ghost.get('cancelled_tasks', [])
        if res is True:
            good = len(notified) == 1
            detail = f'listeners saw {[(value_name(a), value_name(b)) for a, b, _, _ in notified]}'
            if good:
                old, new_, held, _ = notified[0]
                good = value_name(old) == src_val and value_name(new_) in EDGES.get(src_val, ()) and held
                good = good and value_name(it.getattr(t.attrs['state'], 'VALUE')) == value_name(new_)
                if not held:
                    detail += ' (state lock not held at the change)'
            ctx.prove(f'C03.{tag}.edge', good, detail + f'; allowed from {src_val}: {sorted(EDGES.get(src_val, ()))}')
            # the new state object is bound to the same transfer
            ctx.prove(f'C03.{tag}.bound', t.attrs['state'].attrs.get('transfer') is t)
        else:
            ctx.prove(f'C03.{tag}.refused-is-write-free',
                      not notified and not writes and not cancelled and not effects and t.attrs['state'] is s,
                      f'refused request had effects: notifications={len(notified)} writes={[a for _, a in writes]} '
                      f'cancelled={cancelled!r} file-ops={effects!r}')
    ex.run(path, f'{sname}.{mname}')


def prove_wrapped(src_root, sname, ex: Explorer):
    def path(ctx: Ctx):
        it = mk(src_root, ctx)
        install_env(it, ctx, [])
        t, lock = mk_transfer(it, ctx, 'DOWNLOAD', [])
        S = cls(it, STATE, sname)
        s = it.call(S, [t], {})
        bad = []
        for m in METHODS:
            v = s.attrs.get(m)
            if not (isinstance(v, Bound) and isinstance(v.func, PyFunc) and v.func.node.name == 'wrapper'
                    and v.func.qual.startswith('_with_state_lock') and v.self_val is s):
                bad.append(m)
        ctx.prove(f'C03.{sname}.wrapped', not bad, f'public methods not behind the state lock: {bad}')
    ex.run(path, f'{sname}.wrapped')


def prove_wrapper(src_root, ex: Explorer):
    """C03.wrapper.*: the body that runs after the lock was acquired is the one of the transfer's CURRENT
    state (the lock acquisition is a yield point: another holder may have changed transfer.state)."""
    def path(ctx: Ctx):
        it = mk(src_root, ctx)
        install_env(it, ctx, [])
        mname = sorted(METHODS)[ctx.choose(len(METHODS), 'method')]
        t, lock = mk_transfer(it, ctx, 'DOWNLOAD', [])
        S1 = cls(it, STATE, 'DownloadingState')
        S2 = cls(it, STATE, 'AbortedState')
        s1 = Obj(S1, {'transfer': t})
        s2 = Obj(S2, {'transfer': t})
        t.attrs['state'] = s1
        ran = []

        def body_contract(it2, f, args, kwargs):
            """every concrete state method: requires self.transfer.state is self and holds(lock)"""
            def body(it3):
                ran.append((f.qual, args[0], t.attrs['state'], lock.locked))
                return True
            return A.SimpleAwaitable(it2.aio, f.qual, body, yields=False)
        for sn in STATE_CLASSES + ['TransferState']:
            for m in METHODS:
                it.hooks[f'{STATE}:{sn}.{m}'] = body_contract
        changed = {'v': False}

        def on_yield(it2, label):
            if label.startswith('acquire') and not changed['v']:
                if it2.ctx.choose(2, 'state-changed-while-waiting') == 1:
                    changed['v'] = True
                    t.attrs['state'] = s2
        it.aio.on_yield = on_yield
        deco = func(it, STATE, '_with_state_lock')
        bound = it.getattr(s1, mname)            # what _wrap_lock captures: the bound method of this state object
        wrapper = it.call(deco, [bound], {})
        args = ['reason'] if METHODS[mname] else []
        try:
            res = run(it, wrapper, s1, *args)
        except PyRaise as pr:
            ctx.fail(f'C03.wrapper.no-raise[{mname}]', f'{pr.exc!r}')
            return
        tag = f'{mname},{"changed" if changed["v"] else "unchanged"}'
        ok = len(ran) == 1
        detail = f'bodies run: {[(q, repr(sf)) for q, sf, _, _ in ran]}'
        if ok:
            q, self_arg, cur, held = ran[0]
            ok = self_arg is cur and held and q.endswith('.' + mname)
            if self_arg is not cur:
                detail = (f'{q} ran on the captured {self_arg!r} while transfer.state is {cur!r}: '
                          f'a transition from a state the transfer is no longer in')
        ctx.prove(f'C03.wrapper.current[{tag}]', ok, detail)
        ctx.prove(f'C03.wrapper.releases[{tag}]', lock.locked is False and res is True)
    ex.run(path, 'wrapper')


def prove_transition(src_root, ex: Explorer):
    def path(ctx: Ctx):
        it = mk(src_root, ctx)
        install_env(it, ctx, [])
        notified: list = []
        t, lock = mk_transfer(it, ctx, 'DOWNLOAD', notified)
        # two listeners
        seen2 = []
        l2 = Stub('listener2', on_transfer_state_changed=Recorder('l2', fn=lambda it2, a, k: seen2.append((a[1], a[2])), is_async=True))
        t.attrs['state_listeners'].append(l2)
        s1 = Obj(cls(it, STATE, 'QueuedState'), {'transfer': t})
        s2 = Obj(cls(it, STATE, 'InitializingState'), {'transfer': t})
        t.attrs['state'] = s1
        run(it, it.getattr(t, 'transition'), s2)
        ok = t.attrs['state'] is s2 and len(notified) == 1 and len(seen2) == 1 and \
            value_name(notified[0][0]) == 'QUEUED' and value_name(notified[0][1]) == 'INITIALIZING' and \
            value_name(seen2[0][0]) == 'QUEUED' and value_name(seen2[0][1]) == 'INITIALIZING' and notified[0][3] is s2
        ctx.prove('C03.Transfer.transition.post', ok, 'state := new state, then every listener once with (old, new)')
    ex.run(path, 'transition')


def prove_manager(src_root, op, ex: Explorer):
    def path(ctx: Ctx):
        it = mk(src_root, ctx)
        install_env(it, ctx, [])
        t, lock = mk_transfer(it, ctx, 'DOWNLOAD', [], with_tasks=True)
        slot_tasks = [t.attrs['_remotely_queue_task'], t.attrs['_transfer_task']]
        present = ctx.choose(2, 'present') == 1
        result = ctx.choose(2, 'result') == 1
        calls = []

        def st_method(it2, args, kwargs):
            calls.append((args, kwargs))
            return result
        st = Stub('state', VALUE=enum(it, STATE, 'TransferState.State', 'COMPLETE'),
                  **{m: Recorder(m, fn=st_method, is_async=True) for m in METHODS})
        t.attrs['state'] = st
        mgr = new(it, MGR, 'TransferManager', _transfers=[t] if present else [])
        it.write_log = []
        tag = f'{op}[{"present" if present else "absent"},{"accepted" if result else "refused"}]'
        try:
            run(it, it.getattr(mgr, op), t)
            raised = None
        except PyRaise as pr:
            raised = pr.exc.cls.name
        want = None if (present and result) else ('TransferNotFoundError' if not present else 'InvalidStateTransition')
        ctx.prove(f'C03.manager.{tag}.raise-iff-refused', raised == want, f'raised {raised}, expected {want}')
        n_calls = len(calls)
        ctx.prove(f'C03.manager.{tag}.one-request', n_calls == (1 if present else 0) and
                  not [a for o, a in it.write_log if o is t or o is mgr])
        # the manager itself touches nothing: whether tasks are cancelled is the decision of the state object (a refused request cancels
        # nothing, C03.<S>.<m>.refused-is-write-free)
        ctx.prove(f'C03.manager.{tag}.cancels-nothing-itself', not any(x.cancel_requested for x in slot_tasks),
                  'the manager cancelled a task of the transfer before / without the state object deciding')
        if op == 'abort' and calls:
            reason = calls[0][1].get('reason', calls[0][0][0] if calls[0][0] else None)
            ctx.prove(f'C03.manager.{tag}.reason', unbox(reason) == 'Requested', f'abort reason {reason!r}')
    ex.run(path, f'manager.{op}')


def scan_writers(src_root, ex: Explorer, res):
    """C03.lock-discipline: every store to a `.state` attribute of a Transfer and every call of `.transition(`
    lies in a function under contract (whole-tree frame scan, receiver narrowed by class where resolvable)."""
    src, _ = source(src_root)
    ctx = Ctx(ex, [])
    allowed_state_writers = {('transfer.model', 'Transfer.__init__'), ('transfer.model', 'Transfer.transition'),
                             ('transfer.manager', 'TransferManager.read_cache')}
    found_transition = False
    for mod, qual, node in src.functions():
        mname = mod.name.split('.', 1)[-1]
        for n in ast.walk(node):
            if isinstance(n, (ast.Assign, ast.AugAssign, ast.AnnAssign)):
                targets = n.targets if isinstance(n, ast.Assign) else [n.target]
                for tg in targets:
                    if isinstance(tg, ast.Attribute) and tg.attr == 'state':
                        recv = ast.unparse(tg.value)
                        # narrow: connections and tracked users have their own `state`
                        if mname.startswith(('network', 'user', 'distributed', 'server', 'room', 'peer')) and 'transfer' not in recv:
                            continue
                        name = f'C03.lock-discipline.state-writer[{mname}:{qual}]'
                        ctx.prove(name, (mname, qual) in allowed_state_writers,
                                  f'`{ast.unparse(n)[:60]}` writes Transfer.state outside transition()/constructors')
            if isinstance(n, ast.Call) and isinstance(n.func, ast.Attribute) and n.func.attr == 'transition' and '<locals>' not in qual:
                found_transition = True
                in_state_cls = mname == 'transfer.state' and qual.split('.')[0] in STATE_CLASSES
                ctx.prove(f'C03.lock-discipline.transition-caller[{mname}:{qual}]', in_state_cls,
                          'transition() called outside a state method (not under the state lock)')
    ctx.prove('C03.lock-discipline.scan-nonempty', found_transition)


def items(src_root, tier):
    out = [('edges', (s, m)) for s in STATE_CLASSES for m in METHODS]
    out += [('wrapped', s) for s in STATE_CLASSES]
    out += [('wrapper', None), ('transition', None), ('scan', None)]
    out += [('manager', op) for op in ('abort', 'queue', 'pause')]
    return out


def run_item(src_root, item, tier):
    res = std_result('C03')
    ex = Explorer()
    kind, arg = item
    try:
        if kind == 'edges':
            prove_edges(src_root, arg[0], arg[1], ex)
            res.functions.add(f'{STATE}:{arg[0]}.{arg[1]}')
        elif kind == 'wrapped':
            prove_wrapped(src_root, arg, ex)
            res.functions.add(f'{STATE}:TransferState._wrap_lock')
        elif kind == 'wrapper':
            prove_wrapper(src_root, ex)
            res.functions.add(f'{STATE}:_with_state_lock')
        elif kind == 'transition':
            prove_transition(src_root, ex)
            res.functions.add(f'{MODEL}:Transfer.transition')
        elif kind == 'manager':
            prove_manager(src_root, arg, ex)
            res.functions.add(f'{MGR}:TransferManager.{arg}')
        elif kind == 'scan':
            scan_writers(src_root, ex, res)
    except Unsupported as e:
        res.errors.append(f'{kind}:{arg}: unsupported: {e}')
    collect(res, ex)
    return res
