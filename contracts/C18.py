"""C18 -- search results reach only live requests; removal and timeouts are exact.  DESIGN.md section 4 / C18."""
from __future__ import annotations
import ast

import z3

from pyvc.ctx import Ctx, Explorer, Unsupported, PathAbort
from pyvc.interp import Interp, CoroVal, Env
from pyvc.values import (Sym, Obj, ClassVal, PyRaise, Native, Bound, PyFunc, ExcVal, BUILTIN_CLASSES, Opaque, unbox,
                         z3int, z3real, ReturnEx)
from pyvc import natives as N
from pyvc import aio as A
from contracts.common import (source, mk, cls, func, new, run, enum, Recorder, Stub, collect, std_result)

SM = 'search.manager'
SMODEL = 'search.model'
TASKS = 'tasks'
UTILS = 'utils'
CMDS = 'commands'
MAXT = 0xFFFFFFFF

ASSUMPTIONS = [
    'A-asyncio: create_task starts a separate activation; a cancelled task never resumes its coroutine; done-callbacks '
    'run later as separate activations (also those of a task cancelled by the current activation)',
    'asyncio.sleep(t) does not return before t elapsed (real-time "not before" is trusted)',
    'dictionary of requests: lazy initialisation (a looked-up key is either present with an arbitrary request or absent)',
    'fewer than 2^32 - 2 tickets are drawn during the life of one request (precondition of C18.tickets.distinct)',
    'datetime.datetime.now and logging are side-effect free',
]
TRUSTED_BASE = ['pyvc engine', 'z3', 'abstract asyncio model pyvc/aio.py']
NOT_DECIDED = ['"at the timeout and not before" in wall-clock terms (asyncio.sleep is trusted)']


def install_env(it, ctx):
    it.natives['datetime.datetime.now'] = Native('now', lambda it2, a, k: Opaque('now'))
    it.natives['datetime.now'] = it.natives['datetime.datetime.now']


# ---------------------------------------------------------------------------
# ticket generator

def prove_ticket_generator(src_root, ex: Explorer):
    """Loop contract of utils.ticket_generator (initial = 1, the only instantiation in the tree):
         invariant  1 <= idx <= 2^32-1
         step       the yielded value is succ(idx) = idx + 1 if idx < 2^32-1 else 1   and becomes the new idx
    Lemma C18.tickets.distinct: with N = 2^32-1 and p = idx-1, succ is p -> (p+1) mod N, so two draws whose
    distance d satisfies 0 < d < N are different."""
    def step(ctx: Ctx):
        it = mk(src_root, ctx)
        f = func(it, UTILS, 'ticket_generator')
        idx0 = z3.Int('idx')
        ctx.assume(z3.And(idx0 >= 1, idx0 <= MAXT))
        yielded = []

        carried = []

        def on_yield(it2, v, env):
            yielded.append((v, env.lookup(carried[0])))
            raise ReturnEx('<yield>')
        it.on_yield_value = on_yield

        def loop(it2, node, env):
            # arbitrary iteration from the invariant
            test = it2.eval(node.test, env)
            if it2.truth(test) is not True:
                ctx.fail('C18.tickets.generator.never-ends', 'the generator loop can terminate')
                raise PathAbort()
            # the value the generator carries is identified by its role: the local (other than the parameter) that holds the initial
            # ticket when the loop is first reached
            init = env.vars.get('initial')
            names = [k for k, v in env.vars.items() if k != 'initial' and isinstance(v, int) and not isinstance(v, bool) and v == init]
            if len(names) != 1:
                raise Unsupported(f'ticket_generator: cannot identify the carried ticket among {names}')
            carried.append(names[0])
            env.vars[names[0]] = Sym(idx0, 'int')
            it2.exec_block(node.body, env)
            ctx.fail('C18.tickets.generator.yields', 'an iteration of the generator does not yield')
            raise PathAbort()
        it.loop_specs[(f'{UTILS}:ticket_generator', 0)] = loop
        initial = None
        try:
            it.inline(f, [], {})
        except PyRaise as pr:
            ctx.fail('C18.tickets.generator.no-raise', repr(pr.exc))
            return
        if len(yielded) != 1:
            ctx.fail('C18.tickets.generator.yields', f'{len(yielded)} yields in one iteration')
            return
        v, new_idx = yielded[0]
        vt, nt = z3int(v), z3int(new_idx)
        succ = z3.If(idx0 < MAXT, idx0 + 1, z3.IntVal(1))
        ctx.prove('C18.tickets.generator.step', z3.And(vt == succ, nt == vt), 'yields the cyclic successor and remembers it')
        ctx.prove('C18.tickets.generator.range', z3.And(vt >= 1, vt <= MAXT), 'tickets fit a uint32 and are never 0')
        ctx.ok('C18.tickets.generator.never-ends')
        ctx.ok('C18.tickets.generator.yields')
    ex.run(step, 'ticket-step')

    def initial(ctx: Ctx):
        # the first value drawn: default initial == 1 => idx starts inside the invariant
        it = mk(src_root, ctx)
        f = func(it, UTILS, 'ticket_generator')
        d = f.node.args.defaults
        ok = len(d) == 1 and isinstance(d[0], ast.Constant) and d[0].value == 1
        ctx.prove('C18.tickets.generator.initial', ok, 'default initial ticket must be 1 (invariant 1 <= idx)')
    ex.run(initial, 'ticket-initial')

    def lemma(ctx: Ctx):
        Nn = MAXT
        p, j1, j2 = z3.Int('p'), z3.Int('j1'), z3.Int('j2')
        ctx.assume(z3.And(p >= 0, p < Nn, j1 >= 0, j2 > j1, j2 - j1 < Nn))
        ctx.prove('C18.tickets.distinct', (p + j1) % Nn != (p + j2) % Nn,
                  'two tickets drawn fewer than 2^32-1 draws apart are different')
        q = z3.Int('q')
        ctx.assume(z3.And(q >= 0, q < Nn))
        ctx.prove('C18.tickets.succ-is-mod', z3.If(q + 1 < Nn + 1 - 1 + 1 - 1, q + 1, q + 1) % Nn == z3.If(q + 1 < Nn, q + 1, z3.IntVal(0)))
    ex.run(lemma, 'ticket-lemma')


# ---------------------------------------------------------------------------
# writers of SearchManager.requests draw from the manager's ONE generator

def scan_request_writers(src_root, ex: Explorer, res):
    src, _ = source(src_root)
    ctx = Ctx(ex, [])
    n = 0
    gens = []
    for mod, qual, node in src.functions():
        mname = mod.name.split('.', 1)[-1]
        # every generator instantiation is recorded
        for c in ast.walk(node):
            if isinstance(c, ast.Call) and ast.unparse(c.func) == 'ticket_generator':
                gens.append(f'{mname}:{qual}')
        stores = []
        for st in ast.walk(node):
            if isinstance(st, ast.Assign):
                for tg in st.targets:
                    if isinstance(tg, ast.Subscript) and isinstance(tg.value, ast.Attribute) and tg.value.attr == 'requests':
                        stores.append((st, tg))
        for st, tg in stores:
            n += 1
            key = ast.unparse(tg.slice)
            recv = ast.unparse(tg.value.value)
            # where does the key come from?  direct `ticket` local / attribute assigned from next(<gen>) in this function,
            # or `request.ticket` of a SearchRequest built by the callers of this function (manager-internal helper)
            def draws_of(n_):
                # direct draws next(<generator>) plus calls of a draw helper of the manager (a method that only returns next(self._ticket_generator))
                d = [ast.unparse(c.args[0]) for c in ast.walk(n_) if isinstance(c, ast.Call) and ast.unparse(c.func) == 'next' and c.args]
                d += ['self._ticket_generator' for c in ast.walk(n_) if isinstance(c, ast.Call) and isinstance(c.func, ast.Attribute)
                      and isinstance(c.func.value, ast.Name) and c.func.value.id == 'self' and c.func.attr in helpers]
                return d
            helpers = set()
            for m2, q2, n2 in src.functions():
                if m2.name.endswith('search.manager') and q2.startswith('SearchManager.') and len(n2.body) <= 2 and isinstance(n2.body[-1], ast.Return) \
                        and n2.body[-1].value is not None and ast.unparse(n2.body[-1].value) == 'next(self._ticket_generator)':
                    helpers.add(q2.split('.')[-1])
            draws = draws_of(node)
            if mname == 'search.manager' and qual.startswith('SearchManager.'):
                if not draws:
                    # helper: its callers must draw from self._ticket_generator
                    callers = []
                    for m2, q2, n2 in src.functions():
                        if m2 is mod and q2.startswith('SearchManager.') and any(
                                isinstance(c, ast.Call) and isinstance(c.func, ast.Attribute) and c.func.attr == qual.split('.')[-1]
                                for c in ast.walk(n2)) and n2 is not node:
                            callers.append((q2, draws_of(n2)))
                    ok = bool(callers) and all(d == ['self._ticket_generator'] for _, d in callers)
                    detail = f'callers {callers}'
                else:
                    ok = set(draws) == {'self._ticket_generator'}
                    detail = f'draws from {draws}'
            else:
                ok = bool(draws) and all(d.endswith('searches._ticket_generator') for d in draws)
                detail = (f'`{ast.unparse(st)[:70]}` registers a request under a ticket drawn from {draws or "nowhere"}: a second '
                          f'generator starts at the same value, so a live request with that ticket is silently replaced')
            ctx.prove(f'C18.requests.writers[{mname}:{qual}]', ok, detail)
            res.functions.add(f'{mname}:{qual}')
    # ONE generator for the life of the manager: the registry outlives a login session (requests stay registered across a loss), so the
    # generator may not be re-created: every assignment to an attribute named _ticket_generator of the search manager is in __init__
    assigns = []
    for mod, qual, node in src.functions():
        for st in ast.walk(node):
            tgts = st.targets if isinstance(st, ast.Assign) else [st.target] if isinstance(st, (ast.AnnAssign, ast.AugAssign)) else []
            for tg in tgts:
                if isinstance(tg, ast.Attribute) and tg.attr == '_ticket_generator' and 'ticket_generator' in ast.unparse(st):
                    owner = qual.rsplit('.', 1)[0]
                    if 'Search' in owner or ast.unparse(tg.value).endswith('searches'):
                        assigns.append(f'{mod.name.split(".", 1)[-1]}:{qual}')
    ctx.prove('C18.tickets.single-generator', assigns == ['search.manager:SearchManager.__init__'],
              f'the search manager\'s ticket generator is (re)created in {assigns}: tickets of requests that are still registered are handed out again')
    ctx.prove('C18.requests.writers.scan-nonempty', n >= 2, f'{n} writers found')
    res.notes.append(f'ticket generators instantiated in: {gens}')


# ---------------------------------------------------------------------------
# manager

def scan_request_removers(src_root, ex: Explorer):
    """A request leaves the registry in two places only - remove_request (user: the timer is cancelled first, C18.remove.quiet) and
    _timeout_search_request (its own timer: reported once, C18.timeout.once).  Whole-tree scan: no other function deletes from, pops from,
    clears or rebinds `requests` of the search manager (a request dropped anywhere else keeps its armed timer, which later fires for a
    ticket that is gone, and its removal is never reported)."""
    import ast
    src, _ = source(src_root)
    ctx = Ctx(ex, [])
    sites = []
    for mod, qn, node in src.functions():
        for sub in ast.walk(node):
            tgt = None
            if isinstance(sub, ast.Delete):
                for t in sub.targets:
                    if isinstance(t, ast.Subscript) and isinstance(t.value, ast.Attribute) and t.value.attr == 'requests':
                        tgt = 'del'
            if isinstance(sub, ast.Call) and isinstance(sub.func, ast.Attribute) and sub.func.attr in ('pop', 'popitem', 'clear') \
                    and isinstance(sub.func.value, ast.Attribute) and sub.func.value.attr == 'requests':
                tgt = sub.func.attr
            if isinstance(sub, (ast.Assign, ast.AnnAssign)):
                for t in (sub.targets if isinstance(sub, ast.Assign) else [sub.target]):
                    if isinstance(t, ast.Attribute) and t.attr == 'requests' and not qn.endswith('__init__'):
                        tgt = 'rebind'
            if tgt and 'search' in mod.name:
                sites.append((qn, tgt))
    allowed = {'SearchManager.remove_request', 'SearchManager._timeout_search_request'}
    bad = [s_ for s_ in sites if s_[0].split(':')[-1] not in allowed and s_[0] not in allowed]
    ctx.prove('C18.requests.removers', bool(sites) and not bad, f'requests are removed by {sorted(set(sites))}; outside remove_request / _timeout_search_request: {bad}')


def mk_manager(it, ctx, *, request_timeout=None, store=None):
    emitted = []
    bus = Stub('bus', emit=Recorder('emit', fn=lambda it2, a, k: emitted.append(a[0]), is_async=True))
    sent = []
    net = Stub('network', send_server_messages=Recorder('send_server_messages', fn=lambda it2, a, k: sent.append(a), is_async=True))
    rt = request_timeout if request_timeout is not None else Sym(ctx.fresh_int('request_timeout'), 'int')
    send = Stub('send', request_timeout=rt, wishlist_request_timeout=Sym(ctx.fresh_int('wl_timeout'), 'int'),
                store_results=store if store is not None else Sym(ctx.fresh_bool('store'), 'bool'))
    settings = Stub('settings', searches=Stub('searches', send=send, wishlist=[]))

    def factory(it2, key):
        r = new(it2, SMODEL, 'SearchRequest', ticket=key, query='q', results=[], timer=None)
        return r
    reqs = N.LazyDict(ctx, 'requests', factory)
    tickets = []

    class Gen:
        def pyvc_next(self, it2):
            t = ctx.fresh_int('ticket')
            ctx.assume(z3.And(t >= 1, t <= MAXT))
            tickets.append(t)
            return Sym(t, 'int')
    mgr = new(it, SM, 'SearchManager', _event_bus=bus, _network=net, _settings=settings, requests=reqs,
              _ticket_generator=Gen(), wishlist_interval=None, _session=None)
    return mgr, emitted, sent, reqs, tickets


def ev_name(e):
    return e.cls.name if isinstance(e, Obj) else repr(e)


def prove_reply(src_root, ex: Explorer):
    def path(ctx: Ctx):
        it = mk(src_root, ctx)
        install_env(it, ctx)
        mgr, emitted, sent, reqs, _ = mk_manager(it, ctx)
        t = ctx.fresh_int('reply_ticket')
        # a reply may carry visible results, locked results only, or nothing at all: it is a result for its (live) request either way
        shape = ['visible', 'locked-only', 'empty'][ctx.choose(3, 'reply-shape')]
        msg = new(it, 'protocol.messages', 'PeerSearchReply.Request', ticket=Sym(t, 'int'), username='bob',
                  has_slots_free=True, avg_speed=1, queue_size=0, results=['item'] if shape == 'visible' else [],
                  locked_results=['locked item'] if shape == 'locked-only' else None)
        disc = []
        conn = Stub('connection', disconnect=Recorder('disconnect', fn=lambda it2, a, k: disc.append(k), is_async=True))
        # suspension points between the moment the registry is consulted and the moment the result is handed to the listeners
        window = []

        def on_yield(it2, label):
            consulted = bool(reqs.entries)
            reported = any(ev_name(e) == 'SearchResultEvent' for e in emitted)
            if consulted and not reported and label != 'emit':
                window.append(label)
        it.aio.on_yield = on_yield
        try:
            run(it, it.getattr(mgr, '_on_peer_search_reply'), msg, conn)
        except PyRaise as pr:
            ctx.fail('C18.reply.no-raise', repr(pr.exc))
            return
        ctx.ok('C18.reply.no-raise')
        entry = [e for e in reqs.entries]
        present = bool(entry and entry[0][2])
        results = [e for e in emitted if ev_name(e) == 'SearchResultEvent']
        tag = 'registered' if present else 'unknown-ticket'
        if present:
            req = entry[0][1]
            ok = len(results) == 1 and results[0].attrs.get('query') is req and \
                unbox(results[0].attrs['result'].attrs['ticket']) is unbox(msg.attrs['ticket'])
            ctx.prove(f'C18.reply.iff[{tag}]', ok, f'events {[ev_name(e) for e in emitted]}')
            ctx.prove('C18.reply.atomic-with-lookup', not window,
                      f'the handler suspends on {window} between looking the ticket up and reporting the result: the request can be removed '
                      'or time out in between and the result is still reported')
            stored = len(req.attrs['results'])
            st = it.truth(mgr.attrs['_settings'].attrs['searches'].attrs['send'].attrs['store_results'])
            ctx.prove(f'C18.reply.stored-iff-setting[{tag}]', z3.BoolVal(stored == 1) == (st if not isinstance(st, bool) else z3.BoolVal(st)))
        else:
            ctx.prove(f'C18.reply.iff[{tag}]', not emitted and not reqs.log, 'a reply for a ticket that is not registered must be ignored')
        ctx.prove(f'C18.reply.closes-connection[{tag}]', len(disc) == 1)
        ctx.prove(f'C18.reply.frame[{tag}]', len(reqs.entries) == 1 and not reqs.log, 'no other request touched, registry unchanged')
    ex.run(path, 'reply')


def prove_attach(src_root, ex: Explorer):
    def path(ctx: Ctx):
        it = mk(src_root, ctx)
        install_env(it, ctx)
        mgr, emitted, sent, reqs, _ = mk_manager(it, ctx)
        tk = ctx.fresh_int('tk')
        req = new(it, SMODEL, 'SearchRequest', ticket=Sym(tk, 'int'), query='q', results=[], timer=None)
        started = []

        def c_start(it2, f, args, kwargs):
            started.append(args[0])
        it.hooks[f'{TASKS}:Timer.start'] = c_start
        at_yield = []
        it.aio.on_yield = lambda it2, label: at_yield.append(
            (label, any(l[0] == 'set' for l in reqs.log), req.attrs['timer'] is not None, any(x is req.attrs['timer'] for x in started)))
        run(it, it.getattr(mgr, '_attach_request_timer_and_emit'), req)
        it.aio.on_yield = None
        rt = mgr.attrs['_settings'].attrs['searches'].attrs['send'].attrs['request_timeout']
        # registering and arming are one step: at a suspension a registered request with a timeout has a running timer (a removal
        # by the user or a cancellation in between would otherwise leave / start a timer for a superseded request)
        wants = ctx.valid(z3int(rt) > 0)
        ctx.prove('C18.attach.armed-with-registration',
                  all((not registered) or (not wants and not has_timer) or (has_timer and running) for _l, registered, has_timer, running in at_yield),
                  f'(suspension, registered, timer attached, timer started) = {at_yield}: the request is registered while its timeout is not counting')
        timer = req.attrs['timer']
        has = timer is not None
        ctx.prove('C18.timer.config.iff', z3.BoolVal(has) == (z3int(rt) > 0), 'timer attached iff request_timeout > 0')
        if has:
            cb = timer.attrs['callback']
            ok = isinstance(cb, N.PartialVal) and isinstance(cb.fn, Bound) and cb.fn.func.node.name == '_timeout_search_request' \
                and cb.fn.self_val is mgr and cb.args == [req] and started == [timer]
            ctx.prove('C18.timer.config.callback', ok and ctx.valid(z3real(timer.attrs['timeout']) == z3real(rt)),
                      'the timer must call _timeout_search_request(this request) after request_timeout and be started')
        regs = [l for l in reqs.log if l[0] == 'set']
        ctx.prove('C18.attach.registers', len(regs) == 1 and regs[0][2] is req and ctx.valid(z3int(regs[0][1]) == tk))
        ctx.prove('C18.attach.emits-once', [ev_name(e) for e in emitted] == ['SearchRequestSentEvent'] and emitted[0].attrs.get('query') is req)
    ex.run(path, 'attach')


def prove_searches(src_root, ex: Explorer):
    kinds = [('search', ['q'], 'FileSearch.Request', 'NETWORK'), ('search_room', ['room', 'q'], 'RoomSearch.Request', 'ROOM'),
             ('search_user', ['bob', 'q'], 'UserSearch.Request', 'USER')]

    def path(ctx: Ctx):
        it = mk(src_root, ctx)
        install_env(it, ctx)
        name, args, mname, stype = kinds[ctx.choose(3, 'kind')]
        mgr, emitted, sent, reqs, tickets = mk_manager(it, ctx)
        attached = []

        def c_attach(it2, f, a, k):
            attached.append(a[1])
            return A.SimpleAwaitable(it2.aio, 'attach', lambda it3: None, yields=False)
        it.hooks[f'{SM}:SearchManager._attach_request_timer_and_emit'] = c_attach
        req = run(it, it.getattr(mgr, name), *args)
        ok = len(tickets) == 1 and len(sent) == 1 and len(sent[0]) == 1 and sent[0][0].cls.qual == mname and attached == [req]
        if ok:
            m = sent[0][0]
            ok = ctx.valid(z3.And(z3int(m.attrs['ticket']) == tickets[0], z3int(req.attrs['ticket']) == tickets[0])) and \
                unbox(m.attrs['query']) == 'q' and unbox(req.attrs['query']) == 'q' and req.attrs['search_type'].name == stype
        ctx.prove(f'C18.{name}.spec', ok, 'one ticket from the own generator, used for the message and the request; registered through the common helper')
    ex.run(path, 'searches')


def prove_timeout_and_remove(src_root, ex: Explorer):
    def timeout(ctx: Ctx):
        """_timeout_search_request(request) is reached only from the request's own timer (C18.timer.config.callback), and
        C18.remove.quiet + C18.Timer.handle say that timer is cancelled whenever the request leaves the registry by other
        means: precondition request.ticket in requests."""
        it = mk(src_root, ctx)
        install_env(it, ctx)
        mgr, emitted, sent, reqs, _ = mk_manager(it, ctx)
        tk = ctx.fresh_int('tk')
        # the handler runs INSIDE the task of the request's timer: cancelling that timer from here cancels the running activation, and the
        # CancelledError is delivered at its next suspension (Timer.cancel -> task.cancel, C18.Timer.handle[start-cancel])
        self_cancelled = []
        timer = Stub('timer of this request', cancel=Recorder('cancel', fn=lambda it2, a, k: self_cancelled.append(1)))
        req = new(it, SMODEL, 'SearchRequest', ticket=Sym(tk, 'int'), query='q', results=[], timer=timer)
        reqs.entries.append([Sym(tk, 'int'), req, True])
        at_yield = []

        def on_yield(it2, label):
            at_yield.append((label, reqs.entries[0][2]))
            if self_cancelled:
                raise PyRaise(ExcVal(BUILTIN_CLASSES['CancelledError'], (), {'at': label}))
        it.aio.on_yield = on_yield
        try:
            run(it, it.getattr(mgr, '_timeout_search_request'), req)
        except PyRaise as pr:
            ctx.fail('C18.timeout.once', repr(pr.exc))
            return
        ctx.prove('C18.timeout.once', [ev_name(e) for e in emitted] == ['SearchRequestRemovedEvent'] and emitted[0].attrs.get('query') is req
                  and reqs.entries[0][2] is False and [l[0] for l in reqs.log] == ['del'],
                  'removes the request and reports the removal exactly once')
        ctx.prove('C18.timeout.atomic-removal', reqs.entries[0][2] is False and all(present is False for _label, present in at_yield),
                  f'the expired request is still registered while the handler is suspended ({at_yield}): a reply handled in between is '
                  'reported after the removal was announced')
    ex.run(timeout, 'timeout')

    def remove(ctx: Ctx):
        it = mk(src_root, ctx)
        install_env(it, ctx)
        by_ticket = ctx.choose(2, 'by') == 1
        with_timer = ctx.choose(2, 'timer') == 1
        mgr, emitted, sent, reqs, _ = mk_manager(it, ctx)
        tk = ctx.fresh_int('tk')
        req = new(it, SMODEL, 'SearchRequest', ticket=Sym(tk, 'int'), query='q', results=[], timer=None)
        cancelled = []
        if with_timer:
            timer = new(it, TASKS, 'Timer', timeout=5.0, callback=None, _task=None)
            req.attrs['timer'] = timer

            def c_cancel(it2, f, a, k):
                cancelled.append(a[0])
                return None
            it.hooks[f'{TASKS}:Timer.cancel'] = c_cancel
        reqs.entries.append([Sym(tk, 'int'), req, True])
        tag = f'{"ticket" if by_ticket else "object"},{"timer" if with_timer else "no-timer"}'
        try:
            it.call(it.getattr(mgr, 'remove_request'), [Sym(tk, 'int') if by_ticket else req], {})
        except PyRaise as pr:
            ctx.fail(f'C18.remove.quiet[{tag}]', repr(pr.exc))
            return
        ctx.prove(f'C18.remove.unregisters[{tag}]', reqs.entries[0][2] is False and not emitted)
        ctx.prove(f'C18.remove.quiet[{tag}]', (cancelled == [req.attrs['timer']]) if with_timer else True,
                  "after remove_request the request's timer is still armed: it later runs _timeout_search_request on a "
                  "ticket that is gone (KeyError in the timer task) ")
    ex.run(remove, 'remove')

    def wishlist_timeout(ctx: Ctx):
        it = mk(src_root, ctx)
        install_env(it, ctx)
        mgr, *_ = mk_manager(it, ctx)
        ivl_known = ctx.choose(2, 'interval') == 1
        ivl = ctx.fresh_int('interval')
        mgr.attrs['wishlist_interval'] = Sym(ivl, 'int') if ivl_known else None
        dflt = it.module_global(it.source.module(SM), 'DEFAULT_WISHLIST_INTERVAL')
        r = it.call(it.getattr(mgr, '_get_wishlist_request_timeout'), [], {})
        cfg = z3int(mgr.attrs['_settings'].attrs['searches'].attrs['send'].attrs['wishlist_request_timeout'])
        want = z3.If(cfg < 0, (ivl if ivl_known else z3.IntVal(dflt)), cfg)
        ctx.prove('C18.timer.config.wishlist', z3int(r) == want)
    ex.run(wishlist_timeout, 'wishlist-timeout')


def prove_timer(src_root, ex: Explorer):
    """C18.Timer.handle: self._task is the latest started runner that was not cancelled, or None; a done-callback clears
    the handle only if it is the callback of that very task; cancel() stops the runner the handle designates."""
    scenarios = ['start', 'start-cancel', 'start-finish', 'reschedule', 'reschedule-cancel', 'cancel-idle', 'reschedule-cancel-same-instant']

    def path(ctx: Ctx):
        it = mk(src_root, ctx)
        sc = scenarios[ctx.choose(len(scenarios), 'scenario')]
        cb = Recorder('callback', is_async=True)
        timer = it.call(cls(it, TASKS, 'Timer'), [5.0, cb], {})
        tasks = it.aio.tasks

        def run_callbacks():
            # done-callbacks are separate activations that run after the current one yielded
            for cbk, t in ctx.ghost.pop('scheduled_callbacks', []):
                it.call(cbk, [t], {})

        def finish_cancelled():
            # A-asyncio: a task whose cancel() was requested ends (cancelled) and its done-callbacks are scheduled
            for t in tasks:
                if t.cancel_requested and t.done is not True:
                    t.cancelled = True
                    t.complete(it)
        live = lambda: [t for t in tasks if t.done is not True and not t.cancel_requested]   # noqa: E731
        if sc == 'cancel-idle':
            r = it.call(it.getattr(timer, 'cancel'), [], {})
            ctx.prove('C18.Timer.handle[cancel-idle]', r is None and not tasks)
            return
        it.call(it.getattr(timer, 'start'), [], {})
        t1 = tasks[0]
        ok = timer.attrs['_task'] is t1 and len(t1.callbacks) == 1
        if sc == 'start':
            ctx.prove('C18.Timer.handle[start]', ok and isinstance(t1.coro, CoroVal) and t1.coro.func.node.name == 'runner')
            return
        if sc == 'start-finish':
            t1.complete(it)
            run_callbacks()
            ctx.prove('C18.Timer.handle[start-finish]', timer.attrs['_task'] is None)
            return
        if sc == 'start-cancel':
            r = it.call(it.getattr(timer, 'cancel'), [], {})
            finish_cancelled()
            run_callbacks()
            ctx.prove('C18.Timer.handle[start-cancel]', r is t1 and t1.cancel_requested and timer.attrs['_task'] is None and not live())
            return
        # reschedule
        it.call(it.getattr(timer, 'reschedule'), [Sym(ctx.fresh_real('new_timeout'), 'real')], {})
        if sc == 'reschedule-cancel-same-instant':
            # the user removes the request in the same instant the timer was re-armed: no done-callback has run yet.  The handle must
            # already designate the re-armed run, otherwise cancel() finds nothing and the timer fires for a removed request
            it.call(it.getattr(timer, 'cancel'), [], {})
            finish_cancelled()
            run_callbacks()
            finish_cancelled()
            run_callbacks()
            ctx.prove('C18.Timer.handle[reschedule-cancel-same-instant]', not live() and timer.attrs['_task'] is None,
                      f'cancel() right after reschedule() leaves runners {live()!r} alive (handle {timer.attrs["_task"]!r}): a cancelled timer fires at the re-armed deadline')
            return
        finish_cancelled()
        run_callbacks()                      # the OLD runner's done-callback fires now
        t2 = tasks[1] if len(tasks) > 1 else None
        good = t2 is not None and t1.cancel_requested and timer.attrs['_task'] is t2 and live() == [t2]
        if sc == 'reschedule':
            ctx.prove('C18.Timer.handle[reschedule]', good,
                      f'after reschedule() and the old runner\'s done-callback the handle is {timer.attrs["_task"]!r}, live runners {live()!r}: '
                      f'the stale callback dropped the new handle')
            return
        r = it.call(it.getattr(timer, 'cancel'), [], {})
        finish_cancelled()
        run_callbacks()
        ctx.prove('C18.Timer.handle[reschedule-cancel]', not live() and timer.attrs['_task'] is None,
                  f'cancel() after reschedule() leaves runners {live()!r} alive: the callback fires after cancellation')
    ex.run(path, 'timer')

    def runner(ctx: Ctx):
        it = mk(src_root, ctx)
        order = []
        cb = Recorder('callback', fn=lambda it2, a, k: order.append('callback'), is_async=True)
        timer = new(it, TASKS, 'Timer', timeout=Sym(ctx.fresh_real('t'), 'real'), callback=cb, _task=None)
        it.aio.sleep_hook = lambda it2, x: order.append(('sleep', x))
        run(it, it.getattr(timer, 'runner'))
        ctx.prove('C18.Timer.runner', len(order) == 2 and order[0][0] == 'sleep' and order[0][1] is timer.attrs['timeout'] and order[1] == 'callback',
                  'the callback runs once, after sleeping the configured timeout')
    ex.run(runner, 'timer-runner')


def prove_wishlist(src_root, ex: Explorer):
    """_wishlist_job, loop contract (one ARBITRARY enabled item): a fresh ticket, one WishlistSearch with it, the request registered under it,
    and - when a time-out is configured - a started timer whose callback expires THIS request.  The callback is invoked after every
    variable assigned in the loop body has been overwritten (as the next iterations do), so a closure that reads the loop variable late
    is caught."""
    def path(ctx: Ctx):
        it = mk(src_root, ctx)
        install_env(it, ctx)
        mgr, emitted, sent, reqs, tickets = mk_manager(it, ctx)
        it.natives['builtins.filter'] = Native('builtins.filter', lambda it2, a, k: [x for x in it2.iterate(a[1]) if it2.truth(it2.call(a[0], [x], {})) is True])
        has_timeout = ctx.choose(2, 'timeout-configured') == 1
        it.hooks[f'{SM}:SearchManager._get_wishlist_request_timeout'] = lambda it2, f, a, k: 30 if has_timeout else 0
        started, expired = [], []
        it.hooks[f'{TASKS}:Timer.start'] = lambda it2, f, a, k: started.append(a[0])
        it.hooks[f'{SM}:SearchManager._timeout_search_request'] = lambda it2, f, a, k: A.SimpleAwaitable(it2.aio, 'expire', lambda it3: expired.append(a[1]))
        item = Stub('wishlist item', query=Sym(ctx.fresh_str('query'), 'str'), enabled=True)
        seen = []

        def loop(it2, node, env):
            before = set(env.vars)
            it2.assign(node.target, item, env)
            it2.exec_block(node.body, env)
            seen.append(env.vars.get('request'))
            # the following iterations rebind everything the body assigned
            for k in list(env.vars):
                if k not in before or k == getattr(node.target, 'id', None):
                    env.vars[k] = Stub(f'value of a later iteration ({k})', query='later', timer=None, ticket=-1)
        it.loop_specs[(f'{SM}:SearchManager._wishlist_job', 0)] = loop
        run(it, it.getattr(mgr, '_wishlist_job'))
        req = seen[0] if seen else None
        ok = isinstance(req, Obj) and req.cls.name == 'SearchRequest' and len(tickets) == 1
        ctx.prove('C18.wishlist.one-request', ok)
        if not ok:
            return
        regs = [l for l in reqs.log if l[0] == 'set']
        ctx.prove('C18.wishlist.registers', len(regs) == 1 and regs[0][2] is req and ctx.valid(z3int(regs[0][1]) == tickets[0]) and ctx.valid(z3int(req.attrs['ticket']) == tickets[0])
                  and len(sent) == 1 and sent[0][0].cls.qual == 'WishlistSearch.Request' and ctx.valid(z3int(sent[0][0].attrs['ticket']) == tickets[0]),
                  'the request must be registered under the ticket that was sent')
        timer = req.attrs.get('timer')
        ctx.prove('C18.wishlist.timer-iff-configured', (timer is not None) == has_timeout and started == ([timer] if has_timeout else []))
        if timer is not None:
            cb = timer.attrs['callback']
            r = it.call(cb, [], {})
            if hasattr(r, 'pyvc_await') or isinstance(r, A.SimpleAwaitable):
                it.await_value(r)
            ctx.prove('C18.wishlist.timer-expires-own-request', expired == [req],
                      f'the timer of a wishlist request expires {expired!r} instead of its own request (late binding of the loop variable?)')
    ex.run(path, 'wishlist')


def items(src_root, tier):
    return [('tickets', None), ('writers', None), ('removers', None), ('reply', None), ('attach', None), ('searches', None), ('timeout', None), ('timer', None), ('wishlist', None)]


def run_item(src_root, item, tier):
    res = std_result('C18')
    ex = Explorer()
    kind, arg = item
    try:
        {'tickets': prove_ticket_generator, 'reply': prove_reply, 'attach': prove_attach, 'searches': prove_searches,
         'timeout': prove_timeout_and_remove, 'timer': prove_timer, 'wishlist': prove_wishlist,
         'writers': lambda s, e: scan_request_writers(s, e, res), 'removers': scan_request_removers}[kind](src_root, ex)
    except Unsupported as e:
        res.errors.append(f'{kind}: unsupported: {e}')
    collect(res, ex)
    res.functions.update([f'{UTILS}:ticket_generator', f'{TASKS}:Timer.start', f'{TASKS}:Timer.cancel', f'{TASKS}:Timer.runner',
                          f'{TASKS}:Timer.reschedule', f'{TASKS}:Timer._unset_task', f'{SM}:SearchManager.search',
                          f'{SM}:SearchManager.search_room', f'{SM}:SearchManager.search_user',
                          f'{SM}:SearchManager._attach_request_timer_and_emit', f'{SM}:SearchManager._timeout_search_request',
                          f'{SM}:SearchManager.remove_request', f'{SM}:SearchManager._on_peer_search_reply',
                          f'{SM}:SearchManager._get_wishlist_request_timeout', f'{SM}:SearchManager._wishlist_job'])
    return res
