"""C05 -- upload slots, one per user, priority.  DESIGN.md section 4 / C05.   (harness shared with C06)

Proved (unbounded): the loop-body step contracts of _get_queued_transfers (for an ARBITRARY transfer and ARBITRARY
accumulator sets) and of the ranking in _prioritize_uploads, the order-embedding lemma rank <-> lexicographic
priority, the induction step of the fold invariant, get_free_upload_slots' formula.
Bounded stand-ins ([bounded], lists of <= 3 transfers with symbolic fields): the whole-function postconditions."""
from __future__ import annotations

import z3

from pyvc.ctx import Ctx, Explorer, Unsupported, PathAbort
from pyvc.interp import Interp, CoroVal
from pyvc.values import (Sym, Obj, PyRaise, Native, Bound, EnumMember, Opaque, unbox, z3int, z3str, ContinueEx, BreakEx, ReturnEx)
from pyvc import natives as N
from pyvc import aio as A
from pyvc.symcoll import SymSet
from contracts.common import (source, mk, cls, func, new, run, enum, Recorder, Stub, collect, std_result)

MGR = 'transfer.manager'
MODEL = 'transfer.model'
STATE = 'transfer.state'
UMODEL = 'user.model'
S = z3.StringSort()

ASSUMPTIONS = [
    'list.sort is a stable sort by the key; reversed() reverses (extern contracts)',
    'UserManager.get_user_object(name) returns the user object of that name (status / privileged are functions of the name)',
    'A-atomic: manage_transfers and the functions it calls never yield (checked: yield log empty)',
]
TRUSTED_BASE = ['pyvc engine', 'z3']
NOT_DECIDED = ['the INSTANT invariant "processing uploads <= slots at every moment" as a whole-history statement: what is discharged is its '
               'inductive content per function (a started task takes its slot before its first other suspension, C05.*.takes-slot-first; one '
               'scheduling pass per activation of the job, C05.management-job.one-pass; no second task for a transfer that holds one, '
               'C05.slot-released.slot-free#*)',
               'eventual start of an eligible queued upload as a liveness statement (fairness of the event loop is assumed): what is discharged '
               'are the wake-up conditions it rests on - a cycle is requested on every state change (C05.cycle-on-change[*]), on every status '
               'notification (C05.cycle-on-status[*]) and once the finished task has left its slot (C05.slot-released.then-cycle[upload])',
               'a raised slot limit takes effect at the next cycle only: the application assigns to the settings object, no function of the '
               'library runs, so no contract can request a cycle (with 0 -> 1 slots and no other event a queued upload waits)']

STATE_NAMES = ['VIRGIN', 'QUEUED', 'INITIALIZING', 'INCOMPLETE', 'DOWNLOADING', 'UPLOADING', 'COMPLETE', 'FAILED', 'ABORTED', 'PAUSED']


class World:
    def __init__(self, it: Interp, ctx: Ctx):
        self.it, self.ctx = it, ctx
        it.sym_containers = True
        it.natives['aioslsk.utils.task_counter'] = Native('task_counter', lambda it2, a, k: 1)
        it.natives['operator.itemgetter'] = Native('itemgetter', lambda it2, a, k: Native('getter', lambda it3, b, kk: N.getitem(it3, b[0], a[0])))
        self.STATUS = z3.Function('status_of', S, z3.IntSort())       # index into UserStatus members
        self.PRIV = z3.Function('privileged', S, z3.BoolSort())
        self.st_cls = cls(it, UMODEL, 'UserStatus')
        self.state_enum = cls(it, STATE, 'TransferState.State')
        self.friends = SymSet.fresh(ctx, 'friends')
        self.slots = Sym(ctx.fresh_int('upload_slots'), 'int')
        ctx.assume(self.slots.t >= 0)

        def get_user_object(it2, a, k):
            name = z3str(unbox(a[0]))
            idx = self.STATUS(name)
            ctx.assume(z3.And(idx >= 0, idx < len(self.st_cls.enum_members)))
            return Stub('user', name=a[0], status=Sym(idx, 'enum', self.st_cls), privileged=Sym(self.PRIV(name), 'bool'))
        um = Stub('user_manager', get_user_object=Recorder('get_user_object', fn=get_user_object))
        settings = Stub('settings', users=Stub('users', friends=self.friends),
                        transfers=Stub('transfers', limits=Stub('limits', upload_slots=self.slots)))
        self.mgr = new(it, MGR, 'TransferManager', _settings=settings, _user_manager=um, _transfers=[], _network=Stub('network'))

    def status_idx(self, name):
        return [m.index for m in self.st_cls.enum_members if m.name == name][0]

    def state_idx(self, name):
        return [m.index for m in self.state_enum.enum_members if m.name == name][0]

    done_tasks = False      # C06: a task in a slot may already be done (its done-callback, which clears the slot, has not run yet)

    def transfer(self, label, *, direction=None, free_slots=False):
        ctx, it = self.ctx, self.it
        d = ctx.fresh_bool(label + '_is_upload') if direction is None else z3.BoolVal(direction == 'UPLOAD')
        dir_cls = cls(it, MODEL, 'TransferDirection')
        up = [m for m in dir_cls.enum_members if m.name == 'UPLOAD'][0]
        down = [m for m in dir_cls.enum_members if m.name == 'DOWNLOAD'][0]
        dsym = Sym(z3.If(d, z3.IntVal(up.index), z3.IntVal(down.index)), 'enum', dir_cls)
        sidx = ctx.fresh_int(label + '_state')
        ctx.assume(z3.And(sidx >= 1, sidx < len(self.state_enum.enum_members)))      # every state but UNSET
        st = Stub('state', VALUE=Sym(sidx, 'enum', self.state_enum))
        t = new(it, MODEL, 'Transfer', username=Sym(ctx.fresh_str(label + '_user'), 'str'), remote_path=Sym(ctx.fresh_str(label + '_path'), 'str'),
                direction=dsym, state=st, remotely_queued=Sym(ctx.fresh_bool(label + '_rq'), 'bool'))
        t.label = label
        t.ghost.update(is_upload=d, state=sidx)
        # optional fields: None or a value (decided lazily, concretely)
        t.attrs['fail_reason'] = None if ctx.choose(2, label + '-fail_reason') == 0 else 'reason'
        t.attrs['_remotely_queue_task'] = None if free_slots or ctx.choose(2, label + '-rqtask') == 0 else A.TaskVal(it.aio, None, label + '-queue-remotely')
        t.attrs['_transfer_task'] = None if free_slots or ctx.choose(2, label + '-ttask') == 0 else A.TaskVal(it.aio, None, label + '-transfer-task')
        if self.done_tasks:
            for slot in ('_remotely_queue_task', '_transfer_task'):
                if t.attrs[slot] is not None and ctx.choose(2, label + slot + '-done') == 1:
                    t.attrs[slot].done = True
        return t

    # spec predicates over one transfer -----------------------------------------------------------
    def processing(self, t):
        s = t.ghost['state']
        return z3.Or(*[s == self.state_idx(n) for n in ('DOWNLOADING', 'UPLOADING', 'INITIALIZING')])

    def user(self, t):
        return z3str(t.attrs['username'])

    def offline(self, t):
        return self.STATUS(self.user(t)) == self.status_idx('OFFLINE')

    def prio(self, name):
        """lexicographic priority as a triple of z3 Bools"""
        st = self.STATUS(name)
        return (self.PRIV(name), z3.IsMember(name, self.friends.term),
                z3.Or(st == self.status_idx('ONLINE'), st == self.status_idx('AWAY')))


def lex_gt(a, b):
    return z3.Or(z3.And(a[0], z3.Not(b[0])), z3.And(a[0] == b[0], a[1], z3.Not(b[1])),
                 z3.And(a[0] == b[0], a[1] == b[1], a[2], z3.Not(b[2])))


def lex_eq(a, b):
    return z3.And(a[0] == b[0], a[1] == b[1], a[2] == b[2])


# ---------------------------------------------------------------------------
# step contract of the selection loop (shared with C06)

def run_selection_step(src_root, ctx: Ctx, prefix: str, done_tasks: bool = False):
    """Executes ONE iteration of the `for transfer in self._transfers` loop of _get_queued_transfers for an arbitrary
    transfer and arbitrary accumulators.  Returns what happened."""
    it = mk(src_root, ctx)
    w = World(it, ctx)
    w.done_tasks = done_tasks
    t = w.transfer('t')
    UU, UQ = SymSet.fresh(ctx, 'uploading_users'), SymSet.fresh(ctx, 'users_with_queued_upload')
    UQ0 = UQ.term
    out = {'w': w, 't': t, 'UU': UU.term, 'UQ0': UQ0, 'it': it}

    class OneShot(list):
        pass
    w.mgr.attrs['_transfers'] = []          # the comprehension before the loop sees nothing; accumulators are replaced below

    def loop(it2, node, env):
        env.vars['uploading_users'] = UU
        env.vars['users_with_queued_upload'] = UQ
        qd = env.vars.get('queued_downloads')
        qu = env.vars.get('queued_uploads')
        if not (isinstance(qd, list) and isinstance(qu, list)):
            raise Unsupported('selection loop: accumulators not found')
        it2.assign(node.target, t, env)
        try:
            it2.exec_block(node.body, env)
        except ContinueEx:
            pass
        out.update(downloads=list(qd), uploads=list(qu), UQ1=UQ.term)
        raise ReturnEx('<step-done>')
    it.loop_specs[(f'{MGR}:TransferManager._get_queued_transfers', 0)] = loop
    r = it.call(it.getattr(w.mgr, '_get_queued_transfers'), [], {})
    if r != '<step-done>':
        raise Unsupported('selection loop not reached')
    out['yields'] = list(it.aio.yields)
    return out


def prove_selection_step(src_root, ex: Explorer):
    def path(ctx: Ctx):
        o = run_selection_step(src_root, ctx, 'C05')
        w, t = o['w'], o['t']
        up = t.ghost['is_upload']
        s = t.ghost['state']
        u = w.user(t)
        in_up, in_down = any(x is t for x in o['uploads']), any(x is t for x in o['downloads'])
        elig_up = z3.And(up, z3.Not(w.offline(t)), z3.Not(z3.IsMember(u, o['UU'])), z3.Not(z3.IsMember(u, o['UQ0'])), s == w.state_idx('QUEUED'))
        ctx.prove('C05._get_queued_transfers.step.upload-only-if', z3.Implies(z3.BoolVal(in_up), elig_up),
                  'an upload is selected only if its user is not offline, has no processing upload, has no upload selected yet, and it is QUEUED')
        # completeness up to the (C06) requirement that no negotiation is already in flight for the transfer
        free = t.attrs['_transfer_task'] is None and t.attrs['_remotely_queue_task'] is None
        if free:
            ctx.prove('C05._get_queued_transfers.step.upload-if', z3.Implies(elig_up, z3.BoolVal(in_up)),
                      'an eligible upload is skipped: priority / fairness is defeated by the filter')
        ctx.prove('C05._get_queued_transfers.step.one-per-user',
                  o['UQ1'] == (z3.SetAdd(o['UQ0'], u) if in_up else o['UQ0']), 'the per-user accumulator must record exactly the selected users')
        elig_down = z3.And(z3.Not(up), z3.Not(w.offline(t)), z3.Not(t.attrs['remotely_queued'].t),
                           z3.Or(s == w.state_idx('QUEUED'), s == w.state_idx('INCOMPLETE'),
                                 z3.And(s == w.state_idx('FAILED'), z3.BoolVal(t.attrs['fail_reason'] is None))))
        ctx.prove('C05._get_queued_transfers.step.download-only-if', z3.Implies(z3.BoolVal(in_down), elig_down))
        if free:
            ctx.prove('C05._get_queued_transfers.step.download-if', z3.Implies(elig_down, z3.BoolVal(in_down)))
        ctx.prove('C05._get_queued_transfers.step.disjoint', not (in_up and in_down) and len(o['uploads']) + len(o['downloads']) <= 1)
        ctx.prove('C05._get_queued_transfers.atomic', o['yields'] == [])
    ex.run(path, 'selection-step')

    def induction(ctx: Ctx):
        """Fold invariant over the list (pure lemma from the step contract):
             Inv:  every selected user is in UQ, no user of UQ is in UU or offline, and count(u) <= 1 for all u.
           One step preserves Inv."""
        u, v = z3.Const('u', S), z3.Const('v', S)
        UU, UQ = z3.Const('UU', z3.SetSort(S)), z3.Const('UQ', z3.SetSort(S))
        cnt = z3.Function('count', S, z3.IntSort())
        cnt2 = z3.Function('count2', S, z3.IntSort())
        off = z3.Function('offline', S, z3.BoolSort())
        sel = z3.Bool('selected')
        inv = lambda c, q: z3.And(z3.Implies(c(v) >= 1, z3.IsMember(v, q)), z3.Implies(z3.IsMember(v, q), z3.And(c(v) == 1, z3.Not(z3.IsMember(v, UU)), z3.Not(off(v)))),
                                  c(v) >= 0, c(v) <= 1)     # noqa: E731
        # hypothesis instantiated at the user of the step and at the arbitrary probe v
        hyp = z3.And(inv(cnt, UQ), z3.substitute(inv(cnt, UQ), (v, u)))
        step = z3.And(z3.Implies(sel, z3.And(z3.Not(off(u)), z3.Not(z3.IsMember(u, UU)), z3.Not(z3.IsMember(u, UQ)))),
                      cnt2(u) == cnt(u) + z3.If(sel, 1, 0), z3.Implies(v != u, cnt2(v) == cnt(v)))
        UQ2 = z3.If(sel, z3.SetAdd(UQ, u), UQ)
        ctx.assume(hyp)
        ctx.assume(step)
        ctx.prove('C05._get_queued_transfers.fold-invariant', inv(cnt2, UQ2),
                  'at most one selected upload per user, none for users that are uploading or offline')
    ex.run(induction, 'selection-induction')


def prove_rank(src_root, ex: Explorer):
    def step(ctx: Ctx):
        """_prioritize_uploads on two arbitrary queued uploads (the pairwise statement of "sorted by priority"; the sort itself is the
        engine's symbolic stable sort): the upload of the user with the lexicographically higher (privileged, friend, online/away) comes
        first.  Stated on the RESULT, so the way the rank is computed (loop, comprehension, helper) does not matter."""
        it = mk(src_root, ctx)
        w = World(it, ctx)
        a, b = w.transfer('a', direction='UPLOAD'), w.transfer('b', direction='UPLOAD')
        swapped = ctx.choose(2, 'input-order') == 1
        r = it.call(it.getattr(w.mgr, '_prioritize_uploads'), [[b, a] if swapped else [a, b]], {})
        pa, pb = w.prio(w.user(a)), w.prio(w.user(b))
        ok_shape = isinstance(r, list) and len(r) == 2 and {id(x) for x in r} == {id(a), id(b)}
        first_a = ok_shape and r[0] is a
        ctx.prove('C05._prioritize_uploads.rank-embeds-priority',
                  z3.And(z3.BoolVal(ok_shape), z3.Implies(lex_gt(pa, pb), z3.BoolVal(first_a)), z3.Implies(lex_gt(pb, pa), z3.BoolVal(ok_shape and not first_a))),
                  'uploads must be ordered by (privileged, friend, online/away) of their users, lexicographically, highest first')
    ex.run(step, 'rank-step')


def prove_free_slots(src_root, ex: Explorer):
    def path(ctx: Ctx):
        it = mk(src_root, ctx)
        w = World(it, ctx)
        k = Sym(ctx.fresh_int('n_uploading'), 'int')
        ctx.assume(k.t >= 0)

        class Fake:
            def pyvc_len(self, it2):
                return k
        it.hooks[f'{MGR}:TransferManager.get_uploading'] = lambda it2, f, a, kw: Fake()
        r = it.call(it.getattr(w.mgr, 'get_free_upload_slots'), [], {})
        ctx.prove('C05.get_free_upload_slots.spec', z3int(r) == z3.If(w.slots.t - k.t > 0, w.slots.t - k.t, 0))
        h = it.call(it.getattr(w.mgr, 'has_slots_free'), [], {})
        ht = it.truth(h)
        ctx.prove('C05.has_slots_free.spec', (z3.BoolVal(ht) if isinstance(ht, bool) else ht) == (w.slots.t - k.t > 0))
    ex.run(path, 'free-slots')


# ---------------------------------------------------------------------------
# bounded whole-function checks

def bounded_world(src_root, ctx, n):
    it = mk(src_root, ctx)
    w = World(it, ctx)
    ts = [w.transfer(f't{i}', free_slots=True) for i in range(n)]
    for t in ts:       # bounded runs: slots free (C06 covers occupied slots)
        pass
    w.mgr.attrs['_transfers'] = list(ts)
    return it, w, ts


def prove_bounded(src_root, ex: Explorer, res, which, n):
    def selection(ctx: Ctx):
        it, w, ts = bounded_world(src_root, ctx, n)
        downloads, uploads = it.call(it.getattr(w.mgr, '_get_queued_transfers'), [], {})
        ok = all(any(u is t for t in ts) for u in uploads) and len({id(u) for u in uploads}) == len(uploads)
        conj = []
        for i, a in enumerate(uploads):
            conj.append(z3.And(a.ghost['is_upload'], a.ghost['state'] == w.state_idx('QUEUED'), z3.Not(w.offline(a))))
            for t in ts:
                conj.append(z3.Implies(z3.And(t.ghost['is_upload'], w.processing(t)), w.user(t) != w.user(a)))
            for b in uploads[i + 1:]:
                conj.append(w.user(a) != w.user(b))
                pa, pb = w.prio(w.user(a)), w.prio(w.user(b))
                conj.append(z3.Not(lex_gt(pb, pa)))
        ctx.prove('C05._get_queued_transfers.uploads[bounded]', z3.And(z3.BoolVal(ok), *conj),
                  'selected uploads: QUEUED, distinct users, no offline / uploading user, priority non-increasing')
    if which == 'selection':
        ex.run(selection, 'bounded-selection')

    def manage(ctx: Ctx):
        it, w, ts = bounded_world(src_root, ctx, n)
        for t in ts:
            if t.attrs['_transfer_task'] is not None or t.attrs['_remotely_queue_task'] is not None:
                raise PathAbort()        # occupied slots belong to C06
        it.call(it.getattr(w.mgr, 'manage_transfers'), [], {})
        started = [t for t in ts if t.attrs['_transfer_task'] is not None]
        n_proc = sum([z3.If(z3.And(t.ghost['is_upload'], w.processing(t)), 1, 0) for t in ts])
        free = z3.If(w.slots.t - n_proc > 0, w.slots.t - n_proc, 0)
        conj = [z3.IntVal(len(started)) <= free]
        for i, a in enumerate(started):
            conj.append(z3.And(a.ghost['is_upload'], a.ghost['state'] == w.state_idx('QUEUED')))
            for b in started[i + 1:]:
                conj.append(w.user(a) != w.user(b))
            # no eligible upload of a strictly higher-priority user was left behind
            for t in ts:
                if t.attrs['_transfer_task'] is None:
                    elig = z3.And(t.ghost['is_upload'], t.ghost['state'] == w.state_idx('QUEUED'), z3.Not(w.offline(t)),
                                  *[z3.Implies(z3.And(x.ghost['is_upload'], w.processing(x)), w.user(x) != w.user(t)) for x in ts])
                    conj.append(z3.Implies(elig, z3.Not(lex_gt(w.prio(w.user(t)), w.prio(w.user(a))))))
        ctx.prove('C05.manage_transfers.bound[bounded]', z3.And(*conj),
                  'uploads started <= free slots, one per user, the highest-priority eligible ones')
        ctx.prove('C05.manage_transfers.atomic[bounded]', it.aio.yields == [])
    if which == 'manage':
        ex.run(manage, 'bounded-manage')
    res.bounded.append({'obligations': '*[bounded]', 'bound': 'lists of 1..2 transfers, all fields symbolic', 'counted_as_proved': False})


def prove_takes_slot(src_root, ex: Explorer):
    """Slot accounting across the tasks manage_transfers starts: free slots are counted from the transfers that are INITIALIZING or
    UPLOADING, and a started upload is skipped by the next selection only through its task.  Hence the task must take its slot - the
    transition to INITIALIZING - BEFORE its first suspension on anything else (network send, waiting for the peer): otherwise the slot and
    the user look free to the next management cycle while the request is in flight.  Same for the download task."""
    def path(ctx: Ctx):
        it = mk(src_root, ctx)
        which = ['_initialize_upload', '_initialize_download'][ctx.choose(2, 'task')]
        calls = []

        def rec(name, yields):
            return Recorder(name, fn=lambda it2, a, k: calls.append(name), is_async=True, yields=yields)
        st = Stub('state', initialize=rec('state.initialize', False), queue=rec('state.queue', False), fail=rec('state.fail', False),
                  incomplete=rec('state.incomplete', False), VALUE=Opaque('value'))
        t = Stub('transfer', state=st, username='bob', remote_path='f', filesize=10, local_path='/x', direction=Opaque('dir'))
        net = Stub('network', send_peer_messages=rec('network.send_peer_messages', True), create_peer_response_future=rec('network.create_peer_response_future', True),
                   create_peer_connection=rec('network.create_peer_connection', True))
        mgr = new(it, MGR, 'TransferManager', _network=net, _ticket_generator=iter([7, 8, 9]))
        seen = []

        def on_yield(it2, label):
            if not seen:
                seen.append(label)
                ctx.prove(f'C05.{which}.takes-slot-first', calls[:1] == ['state.initialize'],
                          f'the task suspends on {label} before the transfer is INITIALIZING: its slot looks free to the next management cycle')
            raise PathAbort()
        it.aio.on_yield = on_yield
        it.natives['builtins.next'] = Native('builtins.next', lambda it2, a, k: 7)
        try:
            if which == '_initialize_upload':
                run(it, it.getattr(mgr, which), t)
            else:
                conn = Stub('connection', send_message=rec('connection.send_message', True), username='bob')
                run(it, it.getattr(mgr, which), t, conn, Stub('request', filesize=10, ticket=3))
        except PyRaise:
            pass
        if not seen:
            ctx.prove(f'C05.{which}.takes-slot-first', calls[:1] == ['state.initialize'], 'the task never takes its slot')
    ex.run(path, 'takes-slot')


def prove_cycle_on_change(src_root, ex: Explorer):
    """The selection is re-run by the management cycle; a slot that becomes free (an initialising upload is refused or fails, an upload
    completes, ...) or a transfer that becomes eligible must lead to a cycle.  on_transfer_state_changed - the manager is a state
    listener of every transfer (C17.add / read_cache wiring) - requests a TRANSFER_CHANGE cycle for EVERY transition (exhaustive over the
    pairs of states)."""
    def path(ctx: Ctx):
        it = mk(src_root, ctx)
        ST = cls(it, 'transfer.state', 'TransferState.State')
        members = ST.enum_members
        old = members[ctx.choose(len(members), 'old')]
        new_ = members[ctx.choose(len(members), 'new')]
        flags = []
        it.hooks[f'{MGR}:TransferManager.request_management_cycle'] = lambda it2, f, a, k: flags.append(a[1])
        mgr = new(it, MGR, 'TransferManager')
        run(it, it.getattr(mgr, 'on_transfer_state_changed'), Stub('transfer'), old, new_)
        ctx.prove(f'C05.cycle-on-change[{old.name}->{new_.name}]', len(flags) >= 1 and all(getattr(f, 'name', None) == 'TRANSFER_CHANGE' for f in flags),
                  'a state change of a transfer does not request a management cycle: a freed slot is not given to the next queued upload')
    ex.run(path, 'cycle-on-change')


def prove_slot_released(src_root, ex: Explorer):
    """A started transfer is skipped by the next selections through its task handle; the handle has to be cleared when the task ends,
    otherwise an upload that went back to QUEUED is never started again.  manage_transfers must register the done-callback that clears
    exactly the slot it filled (C06.assigns / C06.callbacks); discharged here too because the selection contract depends on it."""
    from contracts import C06
    C06.prove_manage_assigns(src_root, ex, liveness=True)
    C06.prove_done_callbacks(src_root, ex)
    # the other half: while a task - finished or not - sits in a slot the selection leaves the transfer alone, so the handle of a running
    # task is never overwritten, nor cleared by the done-callback of an earlier task (an upload nobody can abort keeps its slot in fact
    # while the state-based count gives the slot to the next user)
    C06.prove_slot_selection(src_root, ex)
    for ob in ex.obligations:
        if ob.name.startswith('C06.'):
            ob.name = 'C05.slot-released.' + ob.name[4:]


def prove_relies_more(src_root, ex: Explorer):
    """Further contracts the slot accounting rests on, discharged here as well:
    (a) abort / pause of every state cancel and await BOTH task slots of the transfer (C06.cancel-all.*): an upload that a management
        cycle has just started (its task exists, its state is still QUEUED) and that the user aborts must not go on to take a slot;
    (b) a repeated PeerTransferQueue leaves a QUEUED / INITIALIZING / UPLOADING upload alone (C05.peer-queue.*);
    (c) the users of unfinished transfers are tracked and only users WITHOUT unfinished transfers are untracked (C15.transfer.reason): the
        selection skips users that are offline, which it only knows for tracked users."""
    from contracts import C06, C15
    from contracts.common import std_result as _sr
    C06.prove_cancel_all(src_root, ex)
    C06.prove_peer_queue_leaves_processing(src_root, ex)
    C15.prove_transfer_reason(src_root, ex, _sr('C15'))
    # (d) the ranking reads status and privileges from the user object: every GetUserStatus / GetUserStats / privilege notification is
    #     folded into that object, also one that changes the privileges only (C19 user handlers)
    from contracts import C19
    C19.prove_user_handlers(src_root, ex)
    for ob in ex.obligations:
        if ob.name.startswith('C19.'):
            ob.name = 'C05.relies.user-view.' + ob.name[4:]
    for ob in ex.obligations:
        if ob.name.startswith('C06.'):
            ob.name = 'C05.relies.' + ob.name[4:]
        elif ob.name.startswith('C15.'):
            ob.name = 'C05.relies.tracking.' + ob.name[4:]


def prove_wakeups_and_users(src_root, ex: Explorer):
    """(a) a status notification of ANY kind requests a management cycle (a user coming back online makes his queued uploads eligible - the
    freed slot is waiting for exactly that); (b) the user object of an unknown name carries the privileged mark of the server's list (the
    ranking reads it); (c) one run of the management job makes ONE scheduling pass - requests that arrive while it runs wait for the
    next run (a second pass in the same activation would count slots while the picks of the first are still QUEUED)."""
    def status(ctx: Ctx):
        it = mk(src_root, ctx)
        st_cls = cls(it, UMODEL, 'UserStatus')
        m = st_cls.enum_members[ctx.choose(len(st_cls.enum_members), 'status')]
        cycles = []
        it.hooks[f'{MGR}:TransferManager.request_management_cycle'] = lambda it2, f, a, k: cycles.append(a[1])
        it.hooks[f'{MGR}:TransferManager._reset_remotely_queued_flags'] = lambda it2, f, a, k: None
        mgr = new(it, MGR, 'TransferManager', _transfers=[])
        run(it, it.getattr(mgr, '_on_get_user_status'), Stub('GetUserStatus.Response', username='bob', status=m.value, privileged=False), Opaque('conn'))
        ctx.prove(f'C05.cycle-on-status[{m.name}]', len(cycles) == 1, f'status {m.name}: {len(cycles)} cycle requests')
    ex.run(status, 'cycle-on-status')

    def user_object(ctx: Ctx):
        it = mk(src_root, ctx)
        listed = ctx.choose(2, 'in-privileged-list') == 1
        um = new(it, 'user.manager', 'UserManager', _users={}, _privileged_users={'bob'} if listed else set())
        u = it.call(it.getattr(um, 'get_user_object'), ['bob'], {})
        ctx.prove(f'C05.user-object.privileged[listed={listed}]', isinstance(u, Obj) and it.truth(u.attrs.get('privileged')) is listed,
                  f'a new user object for a name that is {"" if listed else "not "}in the privileged list has privileged={u.attrs.get("privileged") if isinstance(u, Obj) else u!r}')
    ex.run(user_object, 'user-object')

    def one_pass(ctx: Ctx):
        it = mk(src_root, ctx)
        flag_cls = cls(it, MGR, '_RequestFlag')
        members = {m.name: m for m in flag_cls.enum_members}
        passes = []
        it.natives['time.monotonic'] = Native('monotonic', lambda it2, a, k: 1.0)
        mgr = new(it, MGR, 'TransferManager', _management_flags=members['TRANSFER_CHANGE'],
                  _management_queue=Stub('queue', get=Recorder('get', is_async=True)))
        it.hooks[f'{MGR}:TransferManager.manage_shares_changed'] = lambda it2, f, a, k: A.SimpleAwaitable(it2.aio, 'shares', lambda it3: None)

        def tracking(it2, f, a, k):
            def body(it3):
                mgr.attrs['_management_flags'] = members['TRANSFER_CHANGE']        # a request arrives while the job runs
            return A.SimpleAwaitable(it2.aio, 'tracking', body)
        it.hooks[f'{MGR}:TransferManager.manage_user_tracking'] = tracking
        it.hooks[f'{MGR}:TransferManager.manage_transfers'] = lambda it2, f, a, k: passes.append(1)
        it.MAX_UNROLL = 6
        try:
            run(it, it.getattr(mgr, '_management_job'))
        except Unsupported:
            passes.append('loop')
        ctx.prove('C05.management-job.one-pass', passes == [1], f'scheduling passes in one run of the job: {passes}')
    ex.run(one_pass, 'one-pass')


def items(src_root, tier):
    return [('wakeups', None), ('relies-more', None), ('step', None), ('rank', None), ('slots', None), ('takes-slot', None), ('slot-released', None), ('cycle-on-change', None)] + [('bounded', ('selection', n)) for n in (1, 2)] + [('bounded', ('manage', n)) for n in (1, 2)]


def run_item(src_root, item, tier):
    res = std_result('C05')
    ex = Explorer()
    kind, arg = item
    try:
        if kind == 'step':
            prove_selection_step(src_root, ex)
        elif kind == 'rank':
            prove_rank(src_root, ex)
        elif kind == 'slots':
            prove_free_slots(src_root, ex)
        elif kind == 'takes-slot':
            prove_takes_slot(src_root, ex)
        elif kind == 'slot-released':
            prove_slot_released(src_root, ex)
        elif kind == 'cycle-on-change':
            prove_cycle_on_change(src_root, ex)
        elif kind == 'relies-more':
            prove_relies_more(src_root, ex)
        elif kind == 'wakeups':
            prove_wakeups_and_users(src_root, ex)
        elif kind == 'bounded':
            prove_bounded(src_root, ex, res, arg[0], arg[1])
    except Unsupported as e:
        res.errors.append(f'{kind}: unsupported: {e}')
    collect(res, ex)
    res.functions.update([f'{MGR}:TransferManager.{m}' for m in ('_get_queued_transfers', '_prioritize_uploads', 'manage_transfers',
                                                                'get_free_upload_slots', 'has_slots_free', 'get_upload_slots', 'get_uploading',
                                                                '_initialize_upload', '_initialize_download')])
    res.functions.update([f'{MODEL}:Transfer.is_processing', f'{MODEL}:Transfer.is_upload'])
    return res
