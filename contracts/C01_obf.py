"""C01 layer 3 -- obfuscation: rotate_key, encode, decode, decode(encode(d,k)) == d for every 4-byte
key and every length; DataConnection.encode_message_data / decode_message_data compose them.

Byte strings have symbolic content here (z3 arrays Int -> BV8).  Loop invariants are *pointwise*
("for an arbitrary position j0 ..."), so no quantifier reaches the solver: the invariant is assumed at
the one arbitrary position, the body is executed, and the invariant is proved at that position again.
Rotations by a symbolic amount are case-split on the 32 residues (DESIGN 2.6)."""
from __future__ import annotations

import z3

from pyvc.ctx import Ctx, Explorer, Unsupported, PathAbort
from pyvc.interp import Interp, Env
from pyvc.values import Sym, PyRaise, Native, unbox, z3int, Obj
from pyvc.rope import Rope, Lit, LE, Blob, ByteArr, BVSeg, bv_of_int, bv_backing, rope_bytes_bv, BV8
from pyvc import natives as N
from contracts.C01 import source, mk_interp

OBF = 'protocol.obfuscation'


def arr(name):
    return z3.Array(name, z3.IntSort(), BV8)


def key32(K):
    """BV32 of the little-endian 4-byte key K (z3 array)."""
    return z3.Concat(K[3], K[2], K[1], K[0])


def byte_of(bv32, b: int):
    return z3.Extract(8 * b + 7, 8 * b, bv32)


def byte_at(bv32, bt):
    """byte (bt mod 4) of bv32 for an int term bt in 0..3"""
    return z3.If(bt == 0, byte_of(bv32, 0), z3.If(bt == 1, byte_of(bv32, 1), z3.If(bt == 2, byte_of(bv32, 2), byte_of(bv32, 3))))


# spec: key stream.  KB(j) = byte (j mod 4) of rotl32(K, (j div 4 + 1) mod 32)
def KB(K):
    return z3.Function('KB', z3.IntSort(), BV8)


def unfold_KB(ctx: Ctx, K, j):
    """Definitional instance of KB at j (32-way split on the rotation amount)."""
    c = ctx.split([((j / 4) + 1) % 32 == c for c in range(32)], 'rot')
    ctx.assume(KB(K)(j) == byte_at(z3.RotateLeft(key32(K), c), j % 4))


def rope_key32(ctx, r: Rope):
    bs = rope_bytes_bv(ctx, r)
    if bs is None or len(bs) != 4:
        return None
    return z3.simplify(z3.Concat(bs[3], bs[2], bs[1], bs[0]))


# ---------------------------------------------------------------------------
# contract of rotate_key (proved per rotation amount below, used by encode/decode)

def c_rotate_key(it, func, args, kwargs):
    """rotate_key(key, rot_bits)   requires |key| == 4 and 0 <= rot_bits <= 31
                                    ensures  int(result) == rotr32(int(key), rot_bits), |result| == 4"""
    ctx = it.ctx
    key = N.to_rope(it, args[0])
    rb = kwargs.get('rot_bits', args[1] if len(args) > 1 else 31)
    k32 = rope_key32(ctx, key)
    if k32 is None:
        raise Unsupported('rotate_key contract: key is not 4 bytes')
    rb = unbox(rb)
    if isinstance(rb, int):
        if not 0 <= rb <= 31:
            raise Unsupported('rotate_key contract: rot_bits out of 0..31')
        res = z3.RotateRight(k32, rb)
    else:
        t = z3int(rb)
        if not ctx.valid(z3.And(t >= 0, t <= 31)):
            ctx.fail('C01.obf.rotate_key.call-pre', 'rot_bits not within 0..31')
            raise PathAbort()
        c = ctx.split([t == c for c in range(32)], 'rot')
        res = z3.RotateRight(k32, c)
    ctx.ghost.setdefault('contracts_used', set()).add('rotate_key')
    return Rope([LE(4, z3.BV2Int(z3.simplify(res)))])


def prove_rotate_key(src_root, ex: Explorer):
    for r in range(32):
        def path(ctx: Ctx, r=r):
            it = mk_interp(src_root, ctx)
            K = arr('K')
            key = Rope([BVSeg(K, 0, 4)])
            f = it.module_global(it.source.module(OBF), 'rotate_key')
            try:
                out = it.call(f, [key], {'rot_bits': r})
            except PyRaise as pr:
                ctx.fail(f'C01.obf.rotate_key.spec[{r}]', f'raises {pr.exc!r}')
                return
            o32 = rope_key32(ctx, N.to_rope(it, out))
            if o32 is None:
                ctx.fail(f'C01.obf.rotate_key.spec[{r}]', 'result is not 4 bytes')
                return
            ctx.prove(f'C01.obf.rotate_key.spec[{r}]', o32 == z3.RotateRight(key32(K), r))
        ex.run(path, f'rotate_key[{r}]')


# ---------------------------------------------------------------------------
# encode

def find_var(env: Env, pred, prefer=()):
    for nm in prefer:
        if nm in env.vars and pred(env.vars[nm]):
            return nm
    for nm, v in env.vars.items():
        if pred(v):
            return nm
    raise Unsupported('loop contract: cannot identify the loop-carried variable')


def loop_encode(it: Interp, node, env: Env):
    """invariant#0 of encode (for idx, byt in enumerate(data)):
         |enc| == idx  and  key == rotl32(K, ceil(idx/4) mod 32)
         and for every j < idx: enc[j] == data[j] ^ KB(j)"""
    ctx = it.ctx
    g = ctx.ghost['obf']
    K, D, n, j0 = g['K'], g['D'], g['n'], g['j0']
    import ast as _ast
    assigned = {t.id for st in _ast.walk(_ast.Module(body=node.body, type_ignores=[])) if isinstance(st, _ast.Name)
                and isinstance(st.ctx, _ast.Store) for t in [st]}
    enc_nm = find_var(env, lambda v: isinstance(v, ByteArr), ('enc_message',))
    key_nm = find_var(env, lambda v: isinstance(v, Rope) and rope_key32(ctx, v) is not None,
                      tuple(a for a in assigned if a in env.vars) + ('key',))
    # the loop must enumerate the data bytes from 0
    en = it.eval(node.iter, env)
    src = N.to_rope(it, en.obj) if isinstance(en, N.SymEnumerate) else None
    if not (src is not None and en.start == 0 and len(src.segs) == 1 and isinstance(src.segs[0], BVSeg)
            and src.segs[0].arr is D and ctx.valid(z3.And(src.segs[0].off == 0, src.segs[0].ln == n))):
        ctx.fail('C01.obf.encode.invariant#0.range', 'the loop does not enumerate the data bytes from index 0')
        raise PathAbort()
    which = ctx.choose(3, 'loop')
    k0 = rope_key32(ctx, env.vars[key_nm])
    if which == 0:
        # established on entry (idx == 0)
        ctx.prove('C01.obf.encode.invariant#0.established',
                  z3.And(env.vars[enc_nm].rope.length() == 0, k0 == key32(K)))
        raise PathAbort()
    E = arr('E')
    if which == 1:
        idx = ctx.fresh_int('idx')
        ctx.assume(z3.And(idx >= 0, idx < n))
        c = ctx.split([((idx + 3) / 4) % 32 == c for c in range(32)], 'rots')
        env.vars[enc_nm] = ByteArr(Rope([BVSeg(E, 0, idx)]))
        env.vars[key_nm] = Rope([LE(4, z3.BV2Int(z3.simplify(z3.RotateLeft(key32(K), c))))])
        ctx.assume(z3.Implies(z3.And(j0 >= 0, j0 < idx), E[j0] == D[j0] ^ KB(K)(j0)))
        it.assign(node.target, (N.sym_int(idx), Sym(z3.BV2Int(D[idx]), 'int')), env)
        it.exec_block(node.body, env)
        enc2 = env.vars[enc_nm].rope
        if not (len(enc2.segs) == 1 and isinstance(enc2.segs[0], BVSeg)):
            raise Unsupported('encode loop: unexpected buffer shape')
        s = enc2.segs[0]
        k2 = rope_key32(ctx, env.vars[key_nm])
        c2 = (c + 1) % 32
        ctx.prove('C01.obf.encode.invariant#0.len', z3.And(s.ln == idx + 1, s.off == 0))
        ctx.prove('C01.obf.encode.invariant#0.key',
                  k2 == z3.If(idx % 4 == 0, z3.RotateLeft(key32(K), c2), z3.RotateLeft(key32(K), c)))
        # element part at the arbitrary position j0 <= idx
        if ctx.branch(j0 == idx):
            unfold_KB(ctx, K, idx)
        ctx.prove('C01.obf.encode.invariant#0.elements',
                  z3.Implies(z3.And(j0 >= 0, j0 < idx + 1), s.byte(j0) == D[j0] ^ KB(K)(j0)))
        raise PathAbort()
    # after the loop
    ctx.assume(z3.Implies(z3.And(j0 >= 0, j0 < n), E[j0] == D[j0] ^ KB(K)(j0)))
    env.vars[enc_nm] = ByteArr(Rope([BVSeg(E, 0, n)]))
    env.vars[key_nm] = Rope([Blob(('key-after-loop', ctx.fresh_name('k')), z3.IntVal(4))])
    g['E'] = E


def run_encode(it: Interp, ctx: Ctx):
    """Executes the real encode(data, key) on symbolic data D[0..n) and key K; returns the result rope."""
    K, D = arr('K'), arr('D')
    n = z3.Int('n')
    j0 = z3.Int('j0')
    ctx.assume(n >= 0)
    ctx.ghost['obf'] = {'K': K, 'D': D, 'n': n, 'j0': j0}
    it.hooks[f'{OBF}:rotate_key'] = c_rotate_key
    it.loop_specs[(f'{OBF}:encode', 0)] = loop_encode
    f = it.module_global(it.source.module(OBF), 'encode')
    return it.call(f, [Rope([BVSeg(D, 0, n)]), Rope([BVSeg(K, 0, 4)])], {})


def prove_encode(src_root, ex: Explorer):
    def path(ctx: Ctx):
        it = mk_interp(src_root, ctx)
        try:
            out = N.to_rope(it, run_encode(it, ctx))
        except PyRaise as pr:
            ctx.fail('C01.obf.encode.no-raise', f'{pr.exc!r}')
            return
        ctx.ok('C01.obf.encode.no-raise')
        g = ctx.ghost['obf']
        K, D, n, j0 = g['K'], g['D'], g['n'], g['j0']
        ctx.prove('C01.obf.encode.post.length', out.length() == n + 4)
        # first four bytes are the key, the rest is the XOR stream
        parts = out.split_at(ctx, z3.IntVal(4))
        if parts is None:
            ctx.fail('C01.obf.encode.post.key-prefix', f'result not key ++ body: {out!r}')
            return
        head, body = parts
        hb = rope_bytes_bv(ctx, head)
        ctx.prove('C01.obf.encode.post.key-prefix', z3.And(*[hb[b] == K[b] for b in range(4)]) if hb and len(hb) == 4 else False)
        if not (len(body.segs) == 1 and isinstance(body.segs[0], BVSeg)):
            if ctx.valid(n == 0):
                ctx.ok('C01.obf.encode.post.body')
            else:
                ctx.fail('C01.obf.encode.post.body', f'{body!r}')
            return
        ctx.prove('C01.obf.encode.post.body',
                  z3.Implies(z3.And(j0 >= 0, j0 < n), body.segs[0].byte(j0) == D[j0] ^ KB(K)(j0)))
    ex.run(path, 'encode')


# ---------------------------------------------------------------------------
# decode

def FKdef(K, c: int):
    """chunk c (4 bytes) of the decoder's key table: rotr32(K, 31 - c)"""
    return z3.RotateRight(key32(K), 31 - c)


def loop_decode0(it: Interp, node, env: Env):
    """invariant#0 of decode (for rot_bits in range(31, 31 - key_amount, -1)), iteration m:
         |full_key| == 4m  and for every p < 4m: full_key[p] == byte (p mod 4) of rotr32(K, 31 - p div 4)"""
    ctx = it.ctx
    g = ctx.ghost['obf']
    K, p0 = g['K'], g['p0']
    fk_nm = find_var(env, lambda v: isinstance(v, ByteArr) and ctx.valid(v.rope.length() == 0), ('full_key',))
    rng = it.eval(node.iter, env)
    ka = g['key_amount'] = None
    if not isinstance(rng, N.SymRange):
        if isinstance(rng, range):
            # concrete key amount (e.g. empty message): plain unrolling is exact
            return it.st_For(node, env, skip_spec=True)
        raise Unsupported('decode loop#0: iteration space')
    lo, hi, step = z3int(rng.lo), z3int(rng.hi), unbox(rng.step)
    if step != -1 or not ctx.valid(lo == 31):
        ctx.fail('C01.obf.decode.invariant#0.range', 'key table is not built from rotation 31 downwards')
        raise PathAbort()
    kamt = z3.simplify(31 - hi)        # number of iterations
    ctx.prove('C01.obf.decode.invariant#0.range', z3.And(kamt >= 0, kamt <= 32))
    g['key_amount'] = kamt
    F = arr('F')
    which = ctx.choose(2, 'loop')
    if which == 0:
        m = ctx.split([z3.BoolVal(True) if False else (z3.IntVal(m) < kamt) for m in range(32)], 'm')
        env.vars[fk_nm] = ByteArr(Rope([BVSeg(F, 0, 4 * m)]))
        for c in range(32):
            pass
        # invariant at the arbitrary position p0 (chunk index is p0 div 4)
        hyp = z3.And(*[z3.Implies(z3.And(p0 >= 4 * c, p0 < 4 * c + 4, c < m), F[p0] == byte_at(FKdef(K, c), p0 % 4))
                       for c in range(32)])
        ctx.assume(hyp)
        it.assign(node.target, 31 - m, env)
        it.exec_block(node.body, env)
        r2 = env.vars[fk_nm].rope
        if not (len(r2.segs) == 1 and isinstance(r2.segs[0], BVSeg)):
            raise Unsupported('decode loop#0: buffer shape')
        s = r2.segs[0]
        ctx.prove('C01.obf.decode.invariant#0.len', z3.And(s.ln == 4 * (m + 1), s.off == 0))
        goal = z3.And(*[z3.Implies(z3.And(p0 >= 4 * c, p0 < 4 * c + 4, c < m + 1), s.byte(p0) == byte_at(FKdef(K, c), p0 % 4))
                        for c in range(32)])
        ctx.prove('C01.obf.decode.invariant#0.elements', goal)
        raise PathAbort()
    env.vars[fk_nm] = ByteArr(Rope([BVSeg(F, 0, 4 * kamt)]))
    ctx.assume(z3.And(*[z3.Implies(z3.And(p0 >= 4 * c, p0 < 4 * c + 4, c < kamt), F[p0] == byte_at(FKdef(K, c), p0 % 4))
                        for c in range(32)]))
    g['F'] = F


def loop_decode1(it: Interp, node, env: Env):
    """invariant#1 of decode (for idx in range(message_len)):
         for every j < idx: message[j] == M0[j] ^ full_key[j mod |full_key|]; for j >= idx: message[j] == M0[j]"""
    ctx = it.ctx
    g = ctx.ghost['obf']
    j0 = g['j0']
    msg_nm = find_var(env, lambda v: isinstance(v, ByteArr) and v is not env.vars.get('full_key'), ('message',))
    fk_nm = find_var(env, lambda v: isinstance(v, ByteArr) and v is not env.vars[msg_nm], ('full_key',))
    msg = env.vars[msg_nm].rope
    rng = it.eval(node.iter, env)
    if isinstance(rng, range):
        return it.st_For(node, env, skip_spec=True)
    if not (len(msg.segs) == 1 and isinstance(msg.segs[0], BVSeg)):
        raise Unsupported('decode loop#1: message shape')
    m0 = msg.segs[0]
    n = m0.ln
    if not (isinstance(rng, N.SymRange) and rng.step == 1 and ctx.valid(z3.And(z3int(rng.lo) == 0, z3int(rng.hi) == n))):
        ctx.fail('C01.obf.decode.invariant#1.range', 'the XOR loop does not visit every message byte once')
        raise PathAbort()
    ctx.ok('C01.obf.decode.invariant#1.range')
    fk = env.vars[fk_nm].rope
    fkl = fk.length()
    fkseg = fk.segs[0] if fk.segs else None
    W = arr('W')
    g['M0'] = m0

    def fkbyte(j):
        # full_key[j mod fkl] with the mod resolved by proof (j < fkl) or with fkl == 128
        if ctx.valid(z3.And(j >= 0, j < fkl)):
            return fkseg.byte(j)
        if ctx.valid(fkl == 128):
            return fkseg.byte(j % 128)
        raise Unsupported('decode: cannot resolve idx mod |full_key|')
    g['fkbyte'] = fkbyte
    which = ctx.choose(2, 'loop')
    if which == 0:
        idx = ctx.fresh_int('idx')
        ctx.assume(z3.And(idx >= 0, idx < n))
        env.vars[msg_nm] = ByteArr(Rope([BVSeg(W, 0, n)]))
        ctx.assume(z3.Implies(z3.And(j0 >= 0, j0 < n),
                              W[j0] == z3.If(j0 < idx, m0.byte(j0) ^ fkbyte(j0), m0.byte(j0))))
        # the body reads message[idx] too: instantiate the invariant there as well
        ctx.assume(W[idx] == m0.byte(idx))
        it.assign(node.target, N.sym_int(idx), env)
        it.exec_block(node.body, env)
        r2 = env.vars[msg_nm].rope
        s = r2.segs[0]
        ctx.prove('C01.obf.decode.invariant#1.len', z3.And(s.ln == n, s.off == 0))
        ctx.prove('C01.obf.decode.invariant#1.elements',
                  z3.Implies(z3.And(j0 >= 0, j0 < n),
                             s.byte(j0) == z3.If(j0 < idx + 1, m0.byte(j0) ^ fkbyte(j0), m0.byte(j0))))
        raise PathAbort()
    env.vars[msg_nm] = ByteArr(Rope([BVSeg(W, 0, n)]))
    ctx.assume(z3.Implies(z3.And(j0 >= 0, j0 < n), W[j0] == m0.byte(j0) ^ fkbyte(j0)))


def install_decode(it: Interp):
    it.hooks[f'{OBF}:rotate_key'] = c_rotate_key
    it.loop_specs[(f'{OBF}:decode', 0)] = loop_decode0
    it.loop_specs[(f'{OBF}:decode', 1)] = loop_decode1


def prove_decode_inverse(src_root, ex: Explorer):
    """C01.obf.inverse: decode(K ++ E) == D whenever E is what encode's postcondition describes.
    (modular: uses encode's *contract*, executes decode's real body with its loop invariants)"""
    def path(ctx: Ctx):
        it = mk_interp(src_root, ctx)
        install_decode(it)
        K, D, E = arr('K'), arr('D'), arr('E')
        n, j0, p0 = z3.Int('n'), z3.Int('j0'), z3.Int('p0')
        ctx.assume(n >= 0)
        ctx.assume(z3.And(j0 >= 0, j0 < n))
        ctx.branch(n > 124)       # the two regimes of the key table (shorter than / equal to the 32-key cycle)
        ctx.ghost['obf'] = {'K': K, 'D': D, 'n': n, 'j0': j0, 'p0': p0}
        # p0 is the key-table position the arbitrary byte j0 will use
        ctx.assume(p0 == z3.If(n > 124, j0 % 128, j0))
        # encode's postcondition at the arbitrary position
        ctx.assume(E[j0] == D[j0] ^ KB(K)(j0))
        data = Rope([BVSeg(K, 0, 4), BVSeg(E, 0, n)])
        f = it.module_global(it.source.module(OBF), 'decode')
        try:
            out = N.to_rope(it, it.call(f, [data], {}))
        except PyRaise as pr:
            ctx.fail('C01.obf.decode.no-raise', f'{pr.exc!r}')
            return
        ctx.ok('C01.obf.decode.no-raise')
        ctx.prove('C01.obf.inverse.length', out.length() == n)
        if not (len(out.segs) == 1 and isinstance(out.segs[0], BVSeg)):
            ctx.fail('C01.obf.inverse.bytes', f'{out!r}')
            return
        unfold_KB(ctx, K, j0)
        ctx.prove('C01.obf.inverse.bytes', out.segs[0].byte(j0) == D[j0])
    ex.run(path, 'inverse')

    def path_empty(ctx: Ctx):
        # |d| == 0 separately (no modulo by zero, nothing to XOR)
        it = mk_interp(src_root, ctx)
        install_decode(it)
        K = arr('K')
        ctx.ghost['obf'] = {'K': K, 'D': arr('D'), 'n': z3.IntVal(0), 'j0': z3.Int('j0'), 'p0': z3.Int('p0')}
        f = it.module_global(it.source.module(OBF), 'decode')
        try:
            out = N.to_rope(it, it.call(f, [Rope([BVSeg(K, 0, 4)])], {}))
        except PyRaise as pr:
            ctx.fail('C01.obf.inverse.empty', f'{pr.exc!r}')
            return
        ctx.prove('C01.obf.inverse.empty', out.length() == 0)
    ex.run(path_empty, 'inverse-empty')


# ---------------------------------------------------------------------------
# DataConnection.encode_message_data / decode_message_data compose the codecs

def prove_connection(src_root, ex: Explorer):
    CONN = 'network.connection'

    def path(ctx: Ctx):
        it = mk_interp(src_root, ctx)
        mod = it.source.module(CONN)
        dc = it.module_global(mod, 'PeerConnection')
        conn = Obj(dc)
        obf = ctx.choose(2, 'obfuscated') == 1
        conn.attrs['obfuscated'] = obf
        payload = Rope([Blob(('payload', 'X'), z3.Int('plen'))])
        ctx.assume(z3.Int('plen') >= 0)
        calls = []

        def c_encode(it2, func, args, kwargs):
            calls.append(('encode', args))
            if len(args) != 1 or kwargs.get('key') is not None:
                pass
            return Rope([Blob(('obf.encode', N.to_rope(it2, args[0])), N.to_rope(it2, args[0]).length() + 4)])

        def c_decode(it2, func, args, kwargs):
            calls.append(('decode', args))
            r = N.to_rope(it2, args[0])
            if len(r.segs) == 1 and isinstance(r.segs[0], Blob) and r.segs[0].key[0] == 'obf.encode':
                return r.segs[0].key[1]        # C01.obf.inverse
            return Rope([Blob(('obf.decode', r), z3.Int('dlen'))])
        it.hooks[f'{OBF}:encode'] = c_encode
        it.hooks[f'{OBF}:decode'] = c_decode
        tag = 'obfuscated' if obf else 'plain'
        try:
            out = it.call(it.getattr(conn, 'encode_message_data'), [payload], {})
        except PyRaise as pr:
            ctx.fail(f'C01.conn.encode_message_data[{tag}]', f'{pr.exc!r}')
            return
        out = N.to_rope(it, out)
        from pyvc.rope import rope_equal
        if obf:
            ok = len(out.segs) == 1 and isinstance(out.segs[0], Blob) and out.segs[0].key[0] == 'obf.encode' \
                and rope_equal(ctx, out.segs[0].key[1], payload)[0]
            ctx.prove(f'C01.conn.encode_message_data[{tag}]', ok, 'obfuscated connection must send obfuscation.encode(serialised message)')
        else:
            ctx.prove(f'C01.conn.encode_message_data[{tag}]', rope_equal(ctx, out, payload)[0], 'plain connection must send the serialised bytes unchanged')
        # decode side: the deserialiser must be handed exactly the payload
        seen = []

        def c_deser(it2, func, args, kwargs):
            seen.append(args[1])
            return 'MSG'
        it.hooks[f'{CONN}:PeerConnection.deserialize_message'] = c_deser
        try:
            res = it.call(it.getattr(conn, 'decode_message_data'), [out], {})
        except PyRaise as pr:
            ctx.fail(f'C01.conn.decode_message_data[{tag}]', f'{pr.exc!r}')
            return
        ok = res == 'MSG' and len(seen) == 1 and rope_equal(ctx, N.to_rope(it, seen[0]), payload)[0]
        ctx.prove(f'C01.conn.decode_message_data[{tag}]', ok, 'deserialize_message must receive the de-obfuscated frame')
    ex.run(path, 'connection')

    def ser(ctx: Ctx):
        """serialize_message: a message object goes on the wire as ITS OWN serialize() (the per-class wire form, which for the three
        compressed replies is the zlib form - C01.<Class>.layout / roundtrip are stated for exactly that method); bytes pass unchanged"""
        it = mk_interp(src_root, ctx)
        from contracts.common import new as new_
        from pyvc.rope import rope_equal
        conn = new_(it, CONN, 'PeerConnection')
        conn.attrs.update(hostname='h', port=1, obfuscated=False)
        which = ['PeerSharesReply.Request', 'Ping.Request'][ctx.choose(2, 'class')]
        msg = new_(it, 'protocol.messages', which)
        wire = Rope([Blob(('serialize()', which), z3.Int('wlen'))])
        ctx.assume(z3.Int('wlen') >= 8)
        calls = []

        def generic(it2, func, args, kwargs):
            calls.append((func.node.name, args[1:], dict(kwargs)))
            if func.node.name == 'serialize_into':
                return None
            return wire
        for m, q, n in it.source.functions():
            if '.protocol.' in m.name + '.' and n.name in ('serialize', 'serialize_into') and (q.startswith(which + '.') or q.startswith('MessageDataclass.') or q.startswith('ProtocolDataclass.')):
                it.hooks[f'{m.name.split("aioslsk.", 1)[-1]}:{q}'] = generic
        try:
            out = it.call(it.getattr(conn, 'serialize_message'), [msg], {})
        except PyRaise as pr:
            ctx.fail(f'C01.conn.serialize_message[{which}]', repr(pr.exc))
            return
        first = calls[0] if calls else None
        ctx.prove(f'C01.conn.serialize_message[{which}]', out is wire and first is not None and first[0] == 'serialize' and first[1] == [] and not first[2],
                  f'the connection must send message.serialize() with the class defaults (compression), got calls {calls!r}')
        raw = Rope([Blob(('raw', 'B'), z3.Int('rlen'))])
        out2 = it.call(it.getattr(conn, 'serialize_message'), [raw], {})
        ctx.prove('C01.conn.serialize_message[bytes]', out2 is raw or rope_equal(ctx, N.to_rope(it, out2), raw)[0], 'bytes must be sent unchanged')
    ex.run(ser, 'serialize_message')


def prove(src_root, ex: Explorer, res, part=None):
    if part in (None, 'rotate_key'):
        prove_rotate_key(src_root, ex)
    if part in (None, 'encode'):
        prove_encode(src_root, ex)
    if part in (None, 'decode'):
        prove_decode_inverse(src_root, ex)
    if part in (None, 'connection'):
        prove_connection(src_root, ex)
    res.functions.update(['protocol.obfuscation:rotate_key', 'protocol.obfuscation:encode', 'protocol.obfuscation:decode',
                          'network.connection:DataConnection.encode_message_data',
                          'network.connection:DataConnection.decode_message_data',
                          'network.connection:DataConnection.serialize_message'])
