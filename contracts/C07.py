"""C07 - a search over the shares returns exactly the files that match the query.

Abstract view (ghost, z3): items are integers; LIVE is the union of the `items` sets of the shared directories; WORDS(i) the set of
indexed words of item i (the non-empty pieces of re.split([\\W_], (subdir + "/" + filename).lower())); the term map is (KEYS, IN) with
IN[t] the set of items stored under term t.  Class invariant TMINV of SharesManager:
    (C)  i in LIVE and w in WORDS(i)  ==>  w in KEYS and i in IN[w]          (index complete for live items)
    (S)  i in IN[w]                   ==>  i in LIVE and w in WORDS(i)      (nothing else can be found)
The query is specified against the uninterpreted predicates MP(term, path) / MW(term, path) ("path contains term as whole words,
case-insensitively" / "... with a wildcard prefix") which SearchQuery.matchers_iter is proved to evaluate with the pinned regular
expressions of create_term_pattern; the only link between the regexes and the term map is the regex lemma (assumed, BOUNDED-checked
against CPython re through the real functions):
    L1  MP(u, QP(i))  ==>  PIECES(u) subset of WORDS(i)
    L2  MW(u, QP(i))  ==>  REST(u) subset of WORDS(i)  and  (HEAD(u) != ""  ==>  some w in WORDS(i) ends with HEAD(u))
Every loop and comprehension of SharesManager.query is replaced by a contract that is itself checked on an ARBITRARY iteration
executed from the real AST (independent-iterations rule), so the result holds for any number of terms, pieces, keys and items."""
from __future__ import annotations
import ast
import json
import os
import subprocess

import z3

from pyvc.ctx import Ctx, Explorer, Unsupported, PathAbort
from pyvc.values import Sym, Obj, PyRaise, Native, unbox, z3int, z3str, ReturnEx, BreakEx, ContinueEx
from pyvc.interp import StarArg
from pyvc.symcoll import SymSet
from contracts.common import mk, cls, func, new, run, Recorder, Stub, std_result, collect

MGR, MODEL, SUTIL, SMODEL = 'shares.manager', 'shares.model', 'shares.utils', 'search.model'
SMODEL_SHARES = 'shares.model'
QUERY = f'{MGR}:SharesManager.query'
S, I, B = z3.StringSort(), z3.IntSort(), z3.BoolSort()

ASSUMPTIONS = [
    'A-re (lemma, BOUNDED-checked natively): L1/L2 above for the patterns of create_term_pattern, the word split [\\W_] of the term map and '
    'get_query_path; includes that (subdir + "/" + filename).lower() and the query path have the same words',
    'A-re (split): re.split(_QUERY_CLEAN_PATTERN, t) yields piece 0 (HEAD) and further pieces; PIECES(t) are the non-empty ones',
    'A-weak: an item dropped from the items set of a directory that stays shared is released at once (CPython reference counting; nothing '
    'else holds a SharedItem strongly), i.e. leaves every WeakSet of the term map',
    'A-case: characters whose str.lower() and re.IGNORECASE folding disagree are outside the claim',
    'A-ospath: os.path.commonpath([a, b]) == b iff b is an ancestor-or-self of a (abstract path order)',
    'iteration order of sets is arbitrary; the cap keeps an arbitrary subset of max_results matching items',
]
TRUSTED_BASE = ['pyvc engine', 'z3 (quantifier instantiation over sets-as-arrays), cvc5 as second back end', 'the regex lemma']
NOT_DECIDED = ['files changing on disk during a scan; os.walk / getmtime are external (scan_directory is under contract for one arbitrary walked directory)',
               'attribute extraction']


class World:
    def __init__(self, ctx: Ctx, tag=''):
        self.ctx = ctx
        self.LIVE = z3.Const('LIVE' + tag, z3.SetSort(I))
        self.WORDS = z3.Function('words', I, z3.SetSort(S))
        self.QP = z3.Function('query_path', I, S)
        self.PIECES = z3.Function('pieces', S, z3.SetSort(S))
        self.HEAD = z3.Function('head', S, S)
        self.REST = z3.Function('rest', S, z3.SetSort(S))
        self.MP = z3.Function('match_plain', S, S, B)
        self.MW = z3.Function('match_wild', S, S, B)
        self.WIT = z3.Function('wild_witness', S, I, S)
        self.KEYS = z3.Const('KEYS' + tag, z3.SetSort(S))
        self.IN = z3.Const('IN' + tag, z3.ArraySort(S, z3.SetSort(I)))
        self.INC = z3.Const('include_terms', z3.SetSort(S))
        self.WILD = z3.Const('wildcard_terms', z3.SetSort(S))
        self.EXC = z3.Const('exclude_terms', z3.SetSort(S))
        self.MAX = ctx.fresh_int('max_results')

    # ---- axioms / invariants as formulas (every quantifier carries its trigger: they are instantiated by E-matching)
    def lemma(self):
        u, w = z3.Const('u!l', S), z3.Const('w!l', S)
        x = z3.Const('x!l', I)
        mem = z3.IsMember
        l1 = z3.ForAll([u, x, w], z3.Implies(z3.And(self.MP(u, self.QP(x)), mem(w, self.PIECES(u))), mem(w, self.WORDS(x))),
                       patterns=[z3.MultiPattern(self.MP(u, self.QP(x)), mem(w, self.PIECES(u)))])
        l2a = z3.ForAll([u, x, w], z3.Implies(z3.And(self.MW(u, self.QP(x)), mem(w, self.REST(u))), mem(w, self.WORDS(x))),
                        patterns=[z3.MultiPattern(self.MW(u, self.QP(x)), mem(w, self.REST(u)))])
        l2b = z3.ForAll([u, x], z3.Implies(z3.And(self.MW(u, self.QP(x)), self.HEAD(u) != z3.StringVal('')),
                                           z3.And(mem(self.WIT(u, x), self.WORDS(x)), z3.SuffixOf(self.HEAD(u), self.WIT(u, x)))),
                        patterns=[self.MW(u, self.QP(x))])
        return z3.And(l1, l2a, l2b)

    def tminv(self, KEYS=None, IN=None, LIVE=None):
        KEYS = self.KEYS if KEYS is None else KEYS
        IN = self.IN if IN is None else IN
        LIVE = self.LIVE if LIVE is None else LIVE
        w, x = z3.Const('w!t', S), z3.Const('x!t', I)
        mem = z3.IsMember
        c = z3.ForAll([x, w], z3.Implies(z3.And(mem(x, LIVE), mem(w, self.WORDS(x))), z3.And(mem(w, KEYS), mem(x, z3.Select(IN, w)))),
                      patterns=[mem(w, self.WORDS(x))])
        s = z3.ForAll([w, x], z3.Implies(mem(x, z3.Select(IN, w)), z3.And(mem(x, LIVE), mem(w, self.WORDS(x)))),
                      patterns=[mem(x, z3.Select(IN, w))])
        return c, s

    def allmatch(self, x):
        u = z3.Const('u!m', S)
        p = self.QP(x)
        mem = z3.IsMember
        return z3.And(z3.ForAll([u], z3.Implies(mem(u, self.INC), self.MP(u, p)), patterns=[mem(u, self.INC)]),
                      z3.ForAll([u], z3.Implies(mem(u, self.WILD), self.MW(u, p)), patterns=[mem(u, self.WILD)]),
                      z3.ForAll([u], z3.Implies(mem(u, self.EXC), z3.Not(self.MP(u, p))), patterns=[mem(u, self.EXC)]))

    def query_invariant(self):
        """SearchQuery invariant established by parse (C07.parse.*): every term has a word character, i.e. a non-empty piece
        (Skolem witnesses PW / RW)"""
        u = z3.Const('u!q', S)
        mem = z3.IsMember
        self.PW = z3.Function('some_piece', S, S)
        return z3.And(z3.ForAll([u], z3.Implies(mem(u, self.INC), mem(self.PW(u), self.PIECES(u))), patterns=[mem(u, self.INC)]),
                      z3.ForAll([u], z3.Implies(mem(u, self.WILD), z3.Or(self.HEAD(u) != z3.StringVal(''), mem(self.PW(u), self.REST(u)))),
                                patterns=[mem(u, self.WILD)]))


class Item:
    """a SharedItem by its identity (ghost integer); get_query_path by its contract"""

    def __init__(self, w: World, t):
        self.w = w
        self.pyvc_term = t

    def pyvc_getattr(self, it, name):
        if name == 'get_query_path':
            return Native('get_query_path', lambda it2, a, k: Sym(self.w.QP(self.pyvc_term), 'str'))
        if name == 'get_absolute_path':
            return Native('get_absolute_path', lambda it2, a, k: Sym(z3.Function('absolute_path', I, S)(self.pyvc_term), 'str'))
        raise Unsupported(f'Item.{name}')

    def pyvc_eq(self, it, other):
        return self.pyvc_term == other.pyvc_term if isinstance(other, Item) else False


class TermList:
    """the list `include_terms`: the set of its elements and whether it is empty"""

    def __init__(self, term, n):
        self.term, self.n = term, n

    def pyvc_getattr(self, it, name):
        if name == 'append':
            def append(it2, a, k):
                self.term = z3.SetAdd(self.term, z3str(unbox(a[0])))
                self.n = self.n + 1
            return Native('append', append)
        if name == 'extend':
            def extend(it2, a, k):
                o = a[0]
                if isinstance(o, KeyList):
                    self.term = z3.SetUnion(self.term, o.term)
                    self.n = self.n + o.n
                    return
                raise Unsupported('extend of the term list')
            return Native('extend', extend)
        raise Unsupported(f'TermList.{name}')

    def pyvc_truth(self, it):
        return self.n > 0

    def pyvc_getitem(self, it, idx):
        if not it.ctx.branch(self.n > 0):
            it.throw('IndexError', 'list index out of range')
        e = it.ctx.fresh_str('first')
        it.ctx.assume(z3.IsMember(e, self.term))
        return Sym(e, 'str')

    def pyvc_iter(self, it, loop):
        raise Unsupported('iteration over the term list without a contract')


class KeyList:
    """the list `matching_terms`: {k in KEYS | k.endswith(sub)}"""

    def __init__(self, term, n):
        self.term, self.n = term, n

    def pyvc_truth(self, it):
        return self.n > 0

    def pyvc_iter(self, it, loop):
        raise Unsupported('iteration over the matching terms without a contract')


class Family:
    """a list of item sets of unknown length: their intersection MEET (the universe when empty) and the number of sets"""
    pyvc_star = True

    def __init__(self, meet, n):
        self.meet, self.n = meet, n

    def pyvc_getattr(self, it, name):
        if name == 'append':
            def append(it2, a, k):
                s = a[0]
                if not isinstance(s, SymSet):
                    raise Unsupported('family element')
                self.meet = z3.SetIntersect(self.meet, s.term)
                self.n = self.n + 1
            return Native('append', append)
        if name == 'extend':
            def extend(it2, a, k):
                o = a[0]
                if isinstance(o, list) and not o:
                    return
                if not isinstance(o, Family):
                    raise Unsupported('extend of the family')
                self.meet = z3.SetIntersect(self.meet, o.meet)
                self.n = self.n + o.n
            return Native('extend', extend)
        raise Unsupported(f'Family.{name}')

    def pyvc_truth(self, it):
        return self.n > 0


class SetsOf:
    """a generator of item sets whose UNION is known (argument of set().union(*...))"""
    pyvc_star = True

    def __init__(self, join):
        self.join = join


class TermMap:
    def __init__(self, w: World):
        self.w = w
        self.KEYS, self.IN = w.KEYS, w.IN

    def pyvc_contains(self, it, key):
        return z3.IsMember(z3str(unbox(key)), self.KEYS)

    def pyvc_getitem(self, it, key):
        k = z3str(unbox(key))
        if not it.ctx.branch(z3.IsMember(k, self.KEYS)):
            it.throw('KeyError', key)
        return TermSet(self, k)

    def pyvc_setitem(self, it, key, value):
        k = z3str(unbox(key))
        if isinstance(value, TermSet) and value.fresh_empty:
            self.KEYS = z3.SetAdd(self.KEYS, k)
            self.IN = z3.Store(self.IN, k, z3.EmptySet(I))
            return
        raise Unsupported('term map assignment')

    def pyvc_getattr(self, it, name):
        if name == 'keys':
            return Native('keys', lambda it2, a, k: KeysView(self))
        if name == 'items':
            return Native('items', lambda it2, a, k: ItemsView(self))
        raise Unsupported(f'TermMap.{name}')

    def pyvc_len(self, it):
        return Sym(it.ctx.fresh_int('n_terms'), 'int')

    def pyvc_iter(self, it, loop):
        raise Unsupported('iteration over the term map without a contract')


class KeysView:
    def __init__(self, tm):
        self.tm = tm

    def pyvc_iter(self, it, loop):
        raise Unsupported('iteration over the term map keys without a contract')


class ItemsView(KeysView):
    pass


class TermSet:
    """the WeakSet stored under one term (a view on IN[k])"""

    def __init__(self, tm, k, fresh_empty=False):
        self.tm, self.k, self.fresh_empty = tm, k, fresh_empty

    def pyvc_toset(self, it):
        return SymSet(z3.Select(self.tm.IN, self.k), I)

    def pyvc_getattr(self, it, name):
        if name == 'add':
            def add(it2, a, k):
                self.tm.IN = z3.Store(self.tm.IN, self.k, z3.SetAdd(z3.Select(self.tm.IN, self.k), a[0].pyvc_term))
            return Native('add', add)
        raise Unsupported(f'WeakSet.{name}')

    def pyvc_len(self, it):
        n = it.ctx.fresh_int('len')
        it.ctx.assume(z3.And(n >= 0, (n == 0) == (z3.Select(self.tm.IN, self.k) == z3.EmptySet(I))))
        return Sym(n, 'int')

    def pyvc_iter(self, it, loop):
        raise Unsupported('iteration over a term set without a contract')


class Pieces:
    """re.split(_QUERY_CLEAN_PATTERN, t) by its contract"""

    def __init__(self, t):
        self.t = t

    def pyvc_iter(self, it, loop):
        raise Unsupported('iteration over split pieces without a contract')


class EnumOf:
    def __init__(self, obj):
        self.obj = obj

    def pyvc_iter(self, it, loop):
        raise Unsupported('iteration over enumerate(...) without a contract')


class KeepSet:
    """the set `to_keep` with a ghost cardinality"""

    def __init__(self, term, k):
        self.term, self.k = term, k

    def pyvc_getattr(self, it, name):
        if name == 'add':
            def add(it2, a, k):
                e = a[0].pyvc_term
                self.k = z3.If(z3.IsMember(e, self.term), self.k, self.k + 1)
                self.term = z3.SetAdd(self.term, e)
            return Native('add', add)
        raise Unsupported(f'set.{name}')

    def pyvc_len(self, it):
        return Sym(self.k, 'int')

    def pyvc_tolist(self, it):
        return ResultList(self.term, self.k)

    def pyvc_iter(self, it, loop):
        raise Unsupported('iteration over to_keep without a contract')


class ResultList:
    def __init__(self, term, k):
        self.term, self.k = term, k

    def pyvc_getattr(self, it, name):
        if name == 'append':
            def append(it2, a, k):
                self.term = z3.SetAdd(self.term, a[0].pyvc_term)
                self.k = self.k + 1
            return Native('append', append)
        raise Unsupported(f'list.{name}')


class PatternVal:
    def __init__(self, text, flags=None):
        self.text, self.flags = text, flags


def install(it, ctx, w: World):
    """natives for the external functions query uses"""
    it.natives['re.compile'] = Native('re.compile', lambda it2, a, k: PatternVal(unbox(a[0]), k.get('flags')))

    def re_split(it2, a, k):
        pat = a[0]
        if not isinstance(pat, PatternVal) or pat.text != r"[\W_]":
            raise Unsupported(f're.split with pattern {getattr(pat, "text", pat)!r}')
        return Pieces(z3str(unbox(a[1])))
    it.natives['re.split'] = Native('re.split', re_split)
    orig_enum = it.natives.get('builtins.enumerate')

    def enumerate_(it2, a, k):
        if isinstance(a[0], Pieces):
            return EnumOf(a[0])
        return orig_enum.fn(it2, a, k)
    it.natives['builtins.enumerate'] = Native('builtins.enumerate', enumerate_)
    orig_set = it.natives['builtins.set']

    def set_(it2, a, k):
        if a and isinstance(a[0], KeepSet):
            return a[0]
        return orig_set.fn(it2, a, k)
    it.natives['builtins.set'] = Native('builtins.set', set_)
    orig_all, orig_any = it.natives['builtins.all'], it.natives['builtins.any']

    def all_(it2, a, k):
        if isinstance(a[0], MatchResults):
            return Sym(w.allmatch(a[0].x), 'bool')
        return orig_all.fn(it2, a, k)

    def any_(it2, a, k):
        if isinstance(a[0], MatchResults):
            return Sym(z3.Function('some_matcher_accepts', I, B)(a[0].x), 'bool')
        return orig_any.fn(it2, a, k)
    it.natives['builtins.all'] = Native('builtins.all', all_)
    it.natives['builtins.any'] = Native('builtins.any', any_)


# ---------------------------------------------------------------------------
# the query

def make_query_world(src_root, ctx: Ctx, username=None, excl=None):
    it = mk(src_root, ctx)
    w = World(ctx)
    install(it, ctx, w)
    ctx.lemma(w.lemma())
    c, s = w.tminv()
    ctx.lemma(c)
    ctx.lemma(s)
    ctx.lemma(w.query_invariant())
    ctx.assume(w.MAX >= 1)
    tm = TermMap(w)
    settings = Stub('settings', searches=Stub('searches', receive=Stub('receive', max_results=Sym(w.MAX, 'int'))))
    mgr = new(it, MGR, 'SharesManager', _term_map=tm, _settings=settings)
    q = new(it, SMODEL, 'SearchQuery', query='q', include_terms=SymSet(w.INC, S), exclude_terms=SymSet(w.EXC, S), wildcard_terms=SymSet(w.WILD, S))
    return it, w, tm, mgr, q


def no_match_possible(ctx, w: World, name, detail):
    """obligation of an early `return [], []`: no live item satisfies the query"""
    x = ctx.fresh_int('x')
    ctx.prove(name, z3.Not(z3.And(z3.IsMember(x, w.LIVE), w.allmatch(x))), detail)


def install_query_contracts(it, ctx: Ctx, w: World, tm: TermMap, focus=None, phrases=None, locked_pred=None, prop='C07'):
    """loop / comprehension contracts of SharesManager.query.  `focus` selects which contract is CHECKED on an arbitrary iteration
    (the path ends there); all others are applied as summaries."""
    state = {}
    EXCLUDED = z3.Function('has_excluded_phrase', I, B)

    def excluded(x):
        return EXCLUDED(x) if phrases is not None else z3.BoolVal(False)

    def wanted(x):
        return z3.And(w.allmatch(x), z3.Not(excluded(x)))
    state['excluded'], state['wanted'] = excluded, wanted
    if phrases is not None:
        # definition of EXCLUDED (Skolem function PHW): some phrase of the list occurs in the lower-cased query path, compared lower-cased
        ph_, x_e = z3.Const('ph!e', S), z3.Const('x!e', I)
        PHW = z3.Function('excluding_phrase', I, S)
        occurs = lambda ph, x: z3.Contains(LOWER(w.QP(x)), LOWER(ph))        # noqa
        state['occurs'] = occurs
        ctx.lemma(z3.ForAll([x_e], z3.Implies(EXCLUDED(x_e), z3.And(z3.IsMember(PHW(x_e), phrases.term), occurs(PHW(x_e), x_e))), patterns=[EXCLUDED(x_e)]))
        ctx.lemma(z3.ForAll([x_e, ph_], z3.Implies(z3.And(z3.IsMember(ph_, phrases.term), occurs(ph_, x_e)), EXCLUDED(x_e)),
                            patterns=[z3.MultiPattern(z3.IsMember(ph_, phrases.term), EXCLUDED(x_e))]))

    # -- loop 0/1: include terms and their pieces ---------------------------------------------------
    def loop_include(it2, node, env):
        lst = env.vars.get('include_terms')
        if lst != []:
            raise Unsupported('include loop: accumulator is not the empty list')
        if focus == 'include':
            t = ctx.fresh_str('term')
            ctx.assume(z3.IsMember(t, w.INC))
            L0 = z3.Const('L0', z3.SetSort(S))
            n0 = ctx.fresh_int('n0')
            ctx.assume(z3.And(n0 >= 0, (n0 == 0) == (L0 == z3.EmptySet(S))))
            tl = TermList(L0, n0)
            env.vars['include_terms'] = tl
            state['outer'] = (t, L0)
            it2.assign(node.target, Sym(t, 'str'), env)
            try:
                it2.exec_block(node.body, env)
            except ContinueEx:
                pass
            raise PathAbort()
        # summary: exactly the pieces of the include terms, all of them keys (otherwise query returned early)
        LA = z3.Const('LA', z3.SetSort(S))
        nA = ctx.fresh_int('nA')
        org = z3.Function('origin_include', S, S)
        s_ = z3.Const('s!a', S)
        u_ = z3.Const('u!a', S)
        mem = z3.IsMember
        ctx.lemma(z3.ForAll([s_], z3.Implies(mem(s_, LA), z3.And(mem(org(s_), w.INC), mem(s_, w.PIECES(org(s_))), mem(s_, tm.KEYS))),
                            patterns=[mem(s_, LA)]))
        ctx.lemma(z3.ForAll([u_, s_], z3.Implies(z3.And(mem(u_, w.INC), mem(s_, w.PIECES(u_))), mem(s_, LA)),
                            patterns=[z3.MultiPattern(mem(u_, w.INC), mem(s_, w.PIECES(u_)))]))
        ctx.assume(z3.And(nA >= 0, (nA == 0) == (LA == z3.EmptySet(S))))
        env.vars['include_terms'] = TermList(LA, nA)
    it.loop_specs[(QUERY, 0)] = loop_include

    def loop_include_pieces(it2, node, env):
        t, L0 = state['outer']
        pcs = it2.eval(node.iter, env)
        if not isinstance(pcs, Pieces) or not z3.eq(pcs.t, t):
            ctx.fail('C07.query.include.iterates-pieces', 'the inner loop does not iterate over the pieces of the current include term')
            raise PathAbort()
        tl = env.vars['include_terms']
        s = ctx.fresh_str('piece')
        ctx.assume(z3.Or(s == z3.StringVal(''), z3.IsMember(s, w.PIECES(t))))
        it2.assign(node.target, Sym(s, 'str'), env)
        before = tl.term
        try:
            it2.exec_block(node.body, env)
        except ContinueEx:
            pass
        except ReturnEx as r:
            ctx.prove('C07.query.include.early-exit-value', r.value == ([], []) or r.value == [[], []] or _is_empty_pair(r.value))
            ctx.prove('C07.query.include.early-exit-only-if-missing', z3.And(s != z3.StringVal(''), z3.Not(z3.IsMember(s, tm.KEYS))))
            no_match_possible(ctx, w, 'C07.query.include.early-exit-sound', 'query returns no result although a live item matches')
            raise PathAbort()
        ctx.prove('C07.query.include.collects', z3.If(s == z3.StringVal(''), tl.term == before,
                                                      z3.And(tl.term == z3.SetAdd(before, s), z3.IsMember(s, tm.KEYS))),
                  'a non-empty piece of an include term must be appended (exactly it), an empty piece skipped', use_lemmas=False)
        raise PathAbort()
    if focus == 'include':
        it.loop_specs[(QUERY, 1)] = loop_include_pieces

    # -- loop 2/3: wildcard terms ---------------------------------------------------------------------
    def loop_wild(it2, node, env):
        tl = env.vars.get('include_terms')
        fam = env.vars.get('wildcard_items')
        if not isinstance(tl, TermList) or fam != []:
            raise Unsupported('wildcard loop: accumulators')
        if focus in ('wild', 'comp-matching', 'comp-union'):
            t = ctx.fresh_str('term')
            ctx.assume(z3.IsMember(t, w.WILD))
            L0 = z3.Const('L0w', z3.SetSort(S))
            n0 = ctx.fresh_int('n0w')
            ctx.assume(z3.And(n0 >= 0, (n0 == 0) == (L0 == z3.EmptySet(S))))
            M0 = z3.Const('M0', z3.SetSort(I))
            m0 = ctx.fresh_int('m0')
            ctx.assume(m0 >= 0)
            env.vars['include_terms'] = TermList(L0, n0)
            env.vars['wildcard_items'] = Family(M0, m0)
            state['outer'] = (t, L0, M0, m0)
            it2.assign(node.target, Sym(t, 'str'), env)
            try:
                it2.exec_block(node.body, env)
            except ContinueEx:
                pass
            raise PathAbort()
        # summary
        LB = z3.Const('LB', z3.SetSort(S))
        nB = ctx.fresh_int('nB')
        org = z3.Function('origin_wild', S, S)
        s_, u_ = z3.Const('s!b', S), z3.Const('u!b', S)
        x_ = z3.Const('x!b', I)
        k_ = z3.Const('k!b', S)
        mem = z3.IsMember
        empty = z3.StringVal('')
        ctx.lemma(z3.ForAll([s_], z3.Implies(mem(s_, LB), z3.Or(
            mem(s_, tl.term),
            z3.And(mem(org(s_), w.WILD), mem(s_, w.REST(org(s_))), mem(s_, tm.KEYS)))), patterns=[mem(s_, LB)]))
        ctx.lemma(z3.ForAll([s_], z3.Implies(mem(s_, tl.term), mem(s_, LB)), patterns=[mem(s_, tl.term)]))
        ctx.lemma(z3.ForAll([u_, s_], z3.Implies(z3.And(mem(u_, w.WILD), mem(s_, w.REST(u_))), mem(s_, LB)),
                            patterns=[z3.MultiPattern(mem(u_, w.WILD), mem(s_, w.REST(u_)))]))
        ctx.assume(z3.And(nB >= tl.n, (nB == 0) == (LB == z3.EmptySet(S))))
        # the family: one set per wildcard term with a non-empty head: the items stored under ANY key that ends with the head.
        #   x in MB  <=>  for every such term u there is a key k ending with HEAD(u) with x in IN[k]        (Skolem functions KW / UW)
        MB = z3.Const('MB', z3.SetSort(I))
        mB = ctx.fresh_int('mB')
        KW = z3.Function('key_for', S, I, S)
        UW = z3.Function('unmatched_wild', I, S)
        ctx.lemma(z3.ForAll([x_, u_], z3.Implies(z3.And(mem(x_, MB), mem(u_, w.WILD), w.HEAD(u_) != empty),
                                                 z3.And(mem(KW(u_, x_), tm.KEYS), z3.SuffixOf(w.HEAD(u_), KW(u_, x_)), mem(x_, z3.Select(tm.IN, KW(u_, x_))))),
                            patterns=[z3.MultiPattern(mem(x_, MB), mem(u_, w.WILD))]))
        ctx.lemma(z3.ForAll([x_], z3.Implies(z3.Not(mem(x_, MB)), z3.And(
            mem(UW(x_), w.WILD), w.HEAD(UW(x_)) != empty,
            z3.ForAll([k_], z3.Not(z3.And(mem(k_, tm.KEYS), z3.SuffixOf(w.HEAD(UW(x_)), k_), mem(x_, z3.Select(tm.IN, k_)))),
                      patterns=[mem(x_, z3.Select(tm.IN, k_))]))), patterns=[mem(x_, MB)]))
        uw0 = z3.Const('some_wild_with_head', S)
        ctx.assume(mB >= 0)
        ctx.lemma(z3.ForAll([u_], z3.Implies(z3.And(mem(u_, w.WILD), w.HEAD(u_) != empty), mB > 0), patterns=[mem(u_, w.WILD)]))
        ctx.assume(z3.Implies(mB > 0, z3.And(mem(uw0, w.WILD), w.HEAD(uw0) != empty)))
        env.vars['include_terms'] = TermList(LB, nB)
        env.vars['wildcard_items'] = Family(MB, mB)
    it.loop_specs[(QUERY, 2)] = loop_wild

    def loop_wild_pieces(it2, node, env):
        t, L0, M0, m0 = state['outer']
        en = it2.eval(node.iter, env)
        if not isinstance(en, EnumOf) or not z3.eq(en.obj.t, t):
            ctx.fail('C07.query.wild.iterates-pieces', 'the inner loop does not enumerate the pieces of the current wildcard term')
            raise PathAbort()
        tl, fam = env.vars['include_terms'], env.vars['wildcard_items']
        first = ctx.choose(2, 'idx') == 0
        s = ctx.fresh_str('piece')
        if first:
            idx = 0
            ctx.assume(s == w.HEAD(t))
        else:
            idx = Sym(ctx.fresh_int('idx'), 'int')
            ctx.assume(idx.t >= 1)
            ctx.assume(z3.Or(s == z3.StringVal(''), z3.IsMember(s, w.REST(t))))
        it2.assign(node.target, (idx, Sym(s, 'str')), env)
        try:
            it2.exec_block(node.body, env)
        except ContinueEx:
            pass
        except ReturnEx as r:
            ctx.prove('C07.query.wild.early-exit-value', _is_empty_pair(r.value))
            no_match_possible(ctx, w, 'C07.query.wild.early-exit-sound', 'query returns no result although a live item matches the wildcard term')
            raise PathAbort()
        if focus != 'wild':
            raise PathAbort()
        x = ctx.fresh_int('x')
        k_ = z3.Const('k!w', S)
        empty = z3.StringVal('')
        if first:
            anyk = z3.Exists([k_], z3.And(z3.IsMember(k_, tm.KEYS), z3.SuffixOf(s, k_), z3.IsMember(x, z3.Select(tm.IN, k_))))
            ctx.prove('C07.query.wild.head.frame', z3.And(tl.term == L0, z3.If(s == empty, z3.And(fam.meet == M0, fam.n == m0), fam.n == m0 + 1)),
                      'the first piece of a wildcard term must add ONE item set (none when it is empty) and no whole-word term', use_lemmas=False)
            ctx.prove('C07.query.wild.head', z3.Implies(s != empty, z3.IsMember(x, fam.meet) == z3.And(z3.IsMember(x, M0), anyk)),
                      'the first piece of a wildcard term must contribute the UNION of the items of all keys ending with it')
        else:
            ctx.prove('C07.query.wild.rest', z3.If(s == empty, z3.And(tl.term == L0, fam.meet == M0),
                                                   z3.And(tl.term == z3.SetAdd(L0, s), z3.IsMember(s, tm.KEYS), fam.meet == M0, fam.n == m0)),
                      'a further non-empty piece of a wildcard term must be appended as a whole-word term', use_lemmas=False)
        raise PathAbort()
    if focus in ('wild', 'comp-matching', 'comp-union'):
        it.loop_specs[(QUERY, 3)] = loop_wild_pieces

    # -- comprehension 0: matching_terms = [k for k in term_map.keys() if k.endswith(subterm)] ----------
    def comp_matching(it2, node, env):
        sub = z3str(unbox(env.lookup('subterm')))
        src = it2.eval(node.generators[0].iter, env)
        if not isinstance(src, (KeysView, TermMap)) or isinstance(src, ItemsView):
            raise Unsupported('matching_terms: iteration space')
        if focus == 'comp-matching':
            k = ctx.fresh_str('key')
            ctx.assume(z3.IsMember(k, tm.KEYS))
            cenv = _child_env(env)
            it2.assign(node.generators[0].target, Sym(k, 'str'), cenv)
            keep = z3.And(*[it2.truth(it2.eval(c, cenv)) for c in node.generators[0].ifs]) if node.generators[0].ifs else z3.BoolVal(True)
            elt = z3str(unbox(it2.eval(node.elt, cenv)))
            ctx.prove('C07.query.matching-terms', z3.And(keep == z3.SuffixOf(sub, k), elt == k), 'matching_terms must be the keys that end with the piece', use_lemmas=False)
            raise PathAbort()
        MT = z3.Const(ctx.fresh_name('MT'), z3.SetSort(S))
        k_ = z3.Const('k!m', S)
        mem = z3.IsMember
        ctx.lemma(z3.ForAll([k_], mem(k_, MT) == z3.And(mem(k_, tm.KEYS), z3.SuffixOf(sub, k_)), patterns=[mem(k_, MT), mem(k_, tm.KEYS)]))
        n = ctx.fresh_int('n_matching')
        ctx.assume(z3.And(n >= 0, (n == 0) == (MT == z3.EmptySet(S))))
        return KeyList(MT, n)
    it.comp_specs[(QUERY, 0)] = comp_matching

    # -- comprehension 1: (term_map[k] for k in matching_terms) as argument of set().union(*...) -----
    def comp_union(it2, node, env):
        src = it2.eval(node.generators[0].iter, env)
        if not isinstance(src, KeyList):
            raise Unsupported('union generator: iteration space')
        if focus == 'comp-union':
            k = ctx.fresh_str('key')
            ctx.assume(z3.IsMember(k, src.term))
            cenv = _child_env(env)
            it2.assign(node.generators[0].target, Sym(k, 'str'), cenv)
            try:
                v = it2.eval(node.elt, cenv)
            except PyRaise as pr:
                ctx.fail('C07.query.union-elements', f'raises {pr.exc!r}')
                raise PathAbort()
            got = v.pyvc_toset(it2).term if hasattr(v, 'pyvc_toset') else None
            ctx.prove('C07.query.union-elements', got is not None and not node.generators[0].ifs and got == z3.Select(tm.IN, k),
                      'each matching key must contribute its term-map set', use_lemmas=False)
            raise PathAbort()
        J = z3.Const(ctx.fresh_name('J'), z3.SetSort(I))
        x_, k_ = z3.Const('x!u', I), z3.Const('k!u', S)
        JK = z3.Function(ctx.fresh_name('key_of'), I, S)
        mem = z3.IsMember
        ctx.lemma(z3.ForAll([x_], z3.Implies(mem(x_, J), z3.And(mem(JK(x_), src.term), mem(x_, z3.Select(tm.IN, JK(x_))))), patterns=[mem(x_, J)]))
        ctx.lemma(z3.ForAll([x_, k_], z3.Implies(z3.And(mem(k_, src.term), mem(x_, z3.Select(tm.IN, k_))), mem(x_, J)),
                            patterns=[z3.MultiPattern(mem(k_, src.term), mem(x_, z3.Select(tm.IN, k_)))]))
        return SetsOf(J)
    it.comp_specs[(QUERY, 1)] = comp_union

    # -- comprehension 2: item_sets = [set(term_map[t]) for t in include_terms] -----------------------
    def comp_item_sets(it2, node, env):
        src = it2.eval(node.generators[0].iter, env)
        if not isinstance(src, TermList):
            raise Unsupported('item_sets: iteration space')
        if focus == 'comp-item-sets':
            t = ctx.fresh_str('t')
            ctx.assume(z3.IsMember(t, src.term))
            cenv = _child_env(env)
            it2.assign(node.generators[0].target, Sym(t, 'str'), cenv)
            try:
                v = it2.eval(node.elt, cenv)
            except PyRaise as pr:
                ctx.fail('C07.query.item-sets', f'raises {pr.exc!r}')
                raise PathAbort()
            ctx.prove('C07.query.item-sets', isinstance(v, SymSet) and not node.generators[0].ifs and v.term == z3.Select(tm.IN, t),
                      'each term of the list must contribute its term-map set')
            raise PathAbort()
        M = z3.Const(ctx.fresh_name('MEET'), z3.SetSort(I))
        x_, t_ = z3.Const('x!i', I), z3.Const('t!i', S)
        TW = z3.Function(ctx.fresh_name('missing_term'), I, S)
        mem = z3.IsMember
        ctx.lemma(z3.ForAll([x_, t_], z3.Implies(z3.And(mem(x_, M), mem(t_, src.term)), mem(x_, z3.Select(tm.IN, t_))),
                            patterns=[z3.MultiPattern(mem(x_, M), mem(t_, src.term))]))
        ctx.lemma(z3.ForAll([x_], z3.Implies(z3.Not(mem(x_, M)), z3.And(mem(TW(x_), src.term), z3.Not(mem(x_, z3.Select(tm.IN, TW(x_)))))),
                            patterns=[mem(x_, M)]))
        return Family(M, src.n)
    it.comp_specs[(QUERY, 2)] = comp_item_sets

    # -- comprehension 3: all(matcher(path) for matcher in search_query.matchers_iter()) --------------
    def comp_all(it2, node, env):
        src = it2.eval(node.generators[0].iter, env)
        if not isinstance(src, Matchers):
            raise Unsupported('all(...): iteration space')
        if focus == 'comp-all':
            kind = ctx.choose(3, 'matcher')
            u = ctx.fresh_str('u')
            ctx.assume(z3.IsMember(u, [w.INC, w.WILD, w.EXC][kind]))
            cenv = _child_env(env)
            it2.assign(node.generators[0].target, Matcher(w, kind, u), cenv)
            v = it2.truth(it2.eval(node.elt, cenv))
            x = env.lookup('found_item').pyvc_term
            want = [w.MP(u, w.QP(x)), w.MW(u, w.QP(x)), z3.Not(w.MP(u, w.QP(x)))][kind]
            ctx.prove('C07.query.all-matchers', z3.And(v == want, z3.BoolVal(not node.generators[0].ifs)),
                      'every matcher must be applied to the query path of the item', use_lemmas=False)
            raise PathAbort()
        x = env.lookup('found_item').pyvc_term
        return MatchResults(w, x)
    it.comp_specs[(QUERY, 3)] = comp_all

    # -- loop 4: regex filter + cap --------------------------------------------------------------------
    def loop_filter(it2, node, env):
        F = env.vars.get('found_items')
        keep = env.vars.get('to_keep')
        if not isinstance(F, SymSet) or not (isinstance(keep, (set, SymSet))):
            raise Unsupported('filter loop: state')
        state['F'] = F.term
        if focus in ('filter', 'comp-all', 'excluded'):
            x = ctx.fresh_int('x')
            ctx.assume(z3.IsMember(x, F.term))
            T0 = z3.Const('T0', z3.SetSort(I))
            K0 = ctx.fresh_int('K0')
            ctx.assume(z3.And(K0 >= 0, K0 < w.MAX, z3.Not(z3.IsMember(x, T0))))      # invariant at the loop head; x not visited yet
            ks = KeepSet(T0, K0)
            env.vars['to_keep'] = ks
            it2.assign(node.target, Item(w, x), env)
            broke = False
            try:
                it2.exec_block(node.body, env)
            except ContinueEx:
                pass
            except BreakEx:
                broke = True
            if focus != 'filter':
                raise PathAbort()
            ok = wanted(x)
            ctx.prove(f'{prop}.query.filter.keeps-iff-matches', z3.If(ok, z3.And(ks.term == z3.SetAdd(T0, x), ks.k == K0 + 1), z3.And(ks.term == T0, ks.k == K0)),
                      'an item of the prefilter must be kept iff all matchers accept its query path')
            ctx.prove(f'{prop}.query.filter.cap', z3.BoolVal(broke) == (ks.k >= w.MAX), 'the loop must stop exactly when max_results items are kept', use_lemmas=False)
            raise PathAbort()
        T = z3.Const('T', z3.SetSort(I))
        K = ctx.fresh_int('K')
        BR = ctx.fresh_bool('stopped_at_cap')
        FS = z3.Const('FOUND', z3.SetSort(I))
        ctx.assume(FS == F.term)
        x_ = z3.Const('x!f', I)
        mem = z3.IsMember
        ctx.lemma(z3.ForAll([x_], z3.Implies(mem(x_, T), z3.And(mem(x_, FS), wanted(x_))), patterns=[mem(x_, T)]))
        ctx.lemma(z3.Implies(z3.Not(BR), z3.ForAll([x_], z3.Implies(z3.And(mem(x_, FS), wanted(x_)), mem(x_, T)), patterns=[mem(x_, T), mem(x_, FS)])))
        ctx.assume(z3.And(K >= 0, K <= w.MAX, z3.Implies(BR, K == w.MAX), (K == 0) == (T == z3.EmptySet(I))))
        state['BR'] = BR
        env.vars['to_keep'] = KeepSet(T, K)
    it.loop_specs[(QUERY, 4)] = loop_filter

    # -- loop 5: excluded phrases (for / else) -----------------------------------------------------------
    def loop_phrases(it2, node, env):
        src = it2.eval(node.iter, env)
        if src == []:
            it2.exec_block(node.orelse, env)
            return
        if src is not phrases:
            raise Unsupported('excluded phrases: iteration space')
        x = env.lookup('found_item').pyvc_term
        if focus == 'excluded':
            ph = ctx.fresh_str('phrase')
            ctx.assume(z3.IsMember(ph, phrases.term))
            it2.assign(node.target, Sym(ph, 'str'), env)
            broke = False
            try:
                it2.exec_block(node.body, env)
            except BreakEx:
                broke = True
            except ContinueEx:
                pass
            ctx.prove(f'{prop}.query.excluded.iteration', z3.BoolVal(broke) == state['occurs'](ph, x),
                      'an item must be dropped iff the phrase occurs in its query path, compared case-insensitively', use_lemmas=False)
            raise PathAbort()
        if ctx.branch(EXCLUDED(x)):
            return              # left by break: the else clause is skipped
        it2.exec_block(node.orelse, env)
    it.loop_specs[(QUERY, 5)] = loop_phrases

    # -- loop 6: visible / locked split ------------------------------------------------------------------
    def loop_split(it2, node, env):
        src = env.vars.get('found_items')
        if not isinstance(src, KeepSet) or locked_pred is None:
            raise Unsupported('split loop: state')
        if env.vars.get('visible_results') != [] or env.vars.get('locked_results') != []:
            raise Unsupported('split loop: accumulators')
        if focus == 'split':
            x = ctx.fresh_int('x')
            ctx.assume(z3.IsMember(x, src.term))
            V0, L0 = z3.Const('V0', z3.SetSort(I)), z3.Const('LK0', z3.SetSort(I))
            vis, lck = ResultList(V0, ctx.fresh_int('nv')), ResultList(L0, ctx.fresh_int('nl'))
            env.vars['visible_results'], env.vars['locked_results'] = vis, lck
            it2.assign(node.target, Item(w, x), env)
            it2.exec_block(node.body, env)
            ctx.prove(f'{prop}.query.split.iteration', z3.If(locked_pred(x), z3.And(lck.term == z3.SetAdd(L0, x), vis.term == V0),
                                                            z3.And(vis.term == z3.SetAdd(V0, x), lck.term == L0)),
                      'an item that is locked for the user must go to the locked results and to nothing else', use_lemmas=False)
            raise PathAbort()
        VIS, LCK = z3.Const('VISIBLE', z3.SetSort(I)), z3.Const('LOCKED', z3.SetSort(I))
        x_ = z3.Const('x!s', I)
        mem = z3.IsMember
        ctx.lemma(z3.ForAll([x_], mem(x_, VIS) == z3.And(mem(x_, src.term), z3.Not(locked_pred(x_))), patterns=[mem(x_, VIS), mem(x_, src.term)]))
        ctx.lemma(z3.ForAll([x_], mem(x_, LCK) == z3.And(mem(x_, src.term), locked_pred(x_)), patterns=[mem(x_, LCK), mem(x_, src.term)]))
        env.vars['visible_results'], env.vars['locked_results'] = ResultList(VIS, ctx.fresh_int('nv')), ResultList(LCK, ctx.fresh_int('nl'))
    it.loop_specs[(QUERY, 6)] = loop_split
    return state


class MatchResults:
    """the generator (matcher(path) for matcher in matchers_iter()) by its contract: only all() / any() can consume it"""

    def __init__(self, w, x):
        self.w, self.x = w, x


class Matchers:
    """the generator returned by SearchQuery.matchers_iter, by its contract (C07.matchers.*)"""

    def pyvc_iter(self, it, loop):
        raise Unsupported('iteration over matchers without a contract')


class Matcher:
    def __init__(self, w, kind, u):
        self.w, self.kind, self.u = w, kind, u

    def pyvc_call(self, it, args, kwargs):
        p = z3str(unbox(args[0]))
        w = self.w
        return Sym([w.MP(self.u, p), w.MW(self.u, p), z3.Not(w.MP(self.u, p))][self.kind], 'bool')


def _child_env(env):
    from pyvc.interp import Env
    c = Env(env.func, env.module, env)
    c.first_arg = env.first_arg
    return c


def _is_empty_pair(v):
    return isinstance(v, (tuple, list)) and len(v) == 2 and v[0] == [] and v[1] == []


def install_set_natives(it, ctx):
    """set().union(*SetsOf) / set.intersection(*Family)"""
    def union(it2, selfset, a, k):
        if len(a) == 1 and isinstance(a[0], StarArg) and isinstance(a[0].obj, SetsOf) and not selfset:
            return SymSet(a[0].obj.join, I)
        return NotImplemented

    def intersection(it2, a, k):
        if len(a) == 1 and isinstance(a[0], StarArg) and isinstance(a[0].obj, Family):
            fam = a[0].obj
            if not it2.ctx.branch(fam.n > 0):
                it2.throw('TypeError', "unbound method set.intersection() needs an argument")
            return SymSet(fam.meet, I)
        raise Unsupported('set.intersection of concrete arguments')
    it.set_method_overrides = {'union': union}
    it.natives['set.intersection'] = Native('set.intersection', intersection)


def prove_query(src_root, ex: Explorer):
    focuses = ['include', 'wild', 'comp-matching', 'comp-union', 'comp-item-sets', 'comp-all', 'filter', None]

    def path(ctx: Ctx):
        focus = focuses[ctx.choose(len(focuses), 'contract')]
        it, w, tm, mgr, q = make_query_world(src_root, ctx)
        install_set_natives(it, ctx)
        it.hooks[f'{SMODEL}:SearchQuery.matchers_iter'] = lambda it2, f, a, k: Matchers()
        state = install_query_contracts(it, ctx, w, tm, focus)
        try:
            r = it.call(it.getattr(mgr, 'query'), [q], {})
        except PyRaise as pr:
            ctx.fail('C07.query.no-raise', f'query raises {pr.exc!r}')
            return
        if focus is not None:
            # the focused contract lies on a path that is cut by an early return: nothing to check there
            return
        x = ctx.fresh_int('x')
        if _is_empty_pair(r):
            # the only early exit outside the loops: no inclusion terms (documented and pinned by the suite: such a query is ignored)
            ctx.prove('C07.query.no-inclusion-terms', z3.And(w.INC == z3.EmptySet(S), w.WILD == z3.EmptySet(S)),
                      'query returns nothing although the query has include or wildcard terms', use_lemmas=False)
            return
        vis, locked = r
        ctx.prove('C07.query.no-locked-without-user', locked == [])
        if not isinstance(vis, ResultList):
            ctx.fail('C07.query.result.sound', f'unexpected result {vis!r}')
            return
        ctx.prove('C07.query.vacuity-guard', ctx.consistent(), 'the assumptions of the summary path are contradictory', use_lemmas=False)
        ctx.prove('C07.query.result.sound', z3.Implies(z3.IsMember(x, vis.term), z3.And(z3.IsMember(x, w.LIVE), w.allmatch(x))),
                  'a returned item is not a live shared file or does not match the query')
        ctx.prove('C07.query.result.cap', vis.k <= w.MAX, 'more than max_results items are returned')
        ctx.prove('C07.query.result.complete', z3.Or(vis.k == w.MAX, z3.Implies(z3.And(z3.IsMember(x, w.LIVE), w.allmatch(x)), z3.IsMember(x, vis.term))),
                  'a live matching file is missing from a result that is below the cap')
    ex.run(path, 'query')


# ---------------------------------------------------------------------------
# term map maintenance

ADD = f'{MGR}:SharesManager._add_item_to_term_map'
BUILD = f'{MGR}:SharesManager._build_term_map'
REBUILD = f'{MGR}:SharesManager.rebuild_term_map'
CLEANUP = f'{MGR}:SharesManager._cleanup_term_map'
SCANF = f'{MGR}:SharesManager.scan_directory_files'
LOWER = z3.Function('str_lower', S, S)


def words_of(w: World, sub, fn):
    """definition of WORDS: the non-empty pieces of (subdir + "/" + filename).lower()"""
    return w.PIECES(LOWER(z3.Concat(sub, z3.StringVal('/'), fn)))


def install_weakset(it):
    it.natives['weakref.WeakSet'] = Native('weakref.WeakSet', lambda it2, a, k: TermSet(None, None, fresh_empty=True) if not a else
                                           (_ for _ in ()).throw(Unsupported('WeakSet(iterable)')))


def prove_termmap(src_root, ex: Explorer):
    def add(ctx: Ctx):
        """_add_item_to_term_map(item): every non-empty piece of the lower-cased path becomes a key whose set contains the item;
        nothing else changes (frame)"""
        it = mk(src_root, ctx)
        w = World(ctx)
        install(it, ctx, w)
        install_weakset(it)
        tm = TermMap(w)
        x = ctx.fresh_int('item')
        sub, fn = ctx.fresh_str('subdir'), ctx.fresh_str('filename')
        item = new(it, SMODEL_SHARES, 'SharedItem', subdir=Sym(sub, 'str'), filename=Sym(fn, 'str'))
        item.pyvc_term = x
        mgr = new(it, MGR, 'SharesManager', _term_map=tm)
        seen = []

        def loop(it2, node, env):
            pcs = it2.eval(node.iter, env)
            ok = isinstance(pcs, Pieces)
            ctx.prove('C07.termmap.add.path', ok and pcs.t == LOWER(z3.Concat(sub, z3.StringVal('/'), fn)),
                      'the indexed words must be the pieces of (subdir + "/" + filename).lower()', use_lemmas=False)
            if not ok:
                raise PathAbort()
            term = ctx.fresh_str('piece')
            ctx.assume(z3.Or(term == z3.StringVal(''), z3.IsMember(term, w.PIECES(pcs.t))))
            K0, IN0 = tm.KEYS, tm.IN
            it2.assign(node.target, Sym(term, 'str'), env)
            try:
                it2.exec_block(node.body, env)
            except ContinueEx:
                pass
            old = z3.If(z3.IsMember(term, K0), z3.Select(IN0, term), z3.EmptySet(I))
            ctx.prove('C07.termmap.add.iteration', z3.If(term == z3.StringVal(''), z3.And(tm.KEYS == K0, tm.IN == IN0),
                                                         z3.And(tm.KEYS == z3.SetAdd(K0, term), tm.IN == z3.Store(IN0, term, z3.SetAdd(old, x)))),
                      'a non-empty word must become a key whose set gains exactly the item; nothing else may change', use_lemmas=False)
            seen.append(1)
        it.loop_specs[(ADD, 0)] = loop
        try:
            it.call(it.getattr(mgr, '_add_item_to_term_map'), [item], {})
        except PyRaise as pr:
            ctx.fail('C07.termmap.add.no-raise', repr(pr.exc), use_lemmas=False)
            return
        ctx.prove('C07.termmap.add.loops-over-pieces', len(seen) == 1, use_lemmas=False)
    ex.run(add, 'termmap-add')

    def build(ctx: Ctx):
        """_build_term_map(d): _add_item_to_term_map is applied to exactly the items of d"""
        it = mk(src_root, ctx)
        w = World(ctx)
        install(it, ctx, w)
        items = z3.Const('items_d', z3.SetSort(I))
        d = new(it, SMODEL_SHARES, 'SharedDirectory', items=SymSet(items, I))
        calls = []
        it.hooks[ADD] = lambda it2, f, a, k: calls.append(a[1])
        mgr = new(it, MGR, 'SharesManager', _term_map=TermMap(w))
        x = ctx.fresh_int('x')
        ctx.assume(z3.IsMember(x, items))
        seen = []

        def loop(it2, node, env):
            src = it2.eval(node.iter, env)
            ctx.prove('C07.termmap.build.iterates-items', isinstance(src, SymSet) and z3.eq(src.term, items), use_lemmas=False)
            it2.assign(node.target, Item(w, x), env)
            it2.exec_block(node.body, env)
            seen.append(1)
        it.loop_specs[(BUILD, 0)] = loop
        it.call(it.getattr(mgr, '_build_term_map'), [d], {})
        ctx.prove('C07.termmap.build.adds-each-item', len(seen) == 1 and len(calls) == 1 and isinstance(calls[0], Item) and z3.eq(calls[0].pyvc_term, x),
                  'every item of the directory must be added to the term map, exactly it', use_lemmas=False)
    ex.run(build, 'termmap-build')

    def rebuild(ctx: Ctx):
        """rebuild_term_map(): starts from an EMPTY map and applies _build_term_map to exactly the shared directories"""
        it = mk(src_root, ctx)
        w = World(ctx)
        install(it, ctx, w)
        dirs = DirList(ctx)
        calls = []
        it.hooks[BUILD] = lambda it2, f, a, k: calls.append(a[1])
        mgr = new(it, MGR, 'SharesManager', _term_map=TermMap(w), _shared_directories=dirs)
        d = Stub('arbitrary shared directory')
        seen = []

        def loop(it2, node, env):
            src = it2.eval(node.iter, env)
            tmv = mgr.attrs['_term_map']
            ctx.prove('C07.termmap.rebuild.starts-empty', isinstance(tmv, dict) and not tmv, 'the old term map must be discarded', use_lemmas=False)
            ctx.prove('C07.termmap.rebuild.iterates-directories', src is dirs, use_lemmas=False)
            it2.assign(node.target, d, env)
            it2.exec_block(node.body, env)
            seen.append(1)
        it.loop_specs[(REBUILD, 0)] = loop
        it.call(it.getattr(mgr, 'rebuild_term_map'), [], {})
        ctx.prove('C07.termmap.rebuild.builds-each-directory', len(seen) == 1 and calls == [d], use_lemmas=False)
    ex.run(rebuild, 'termmap-rebuild')

    def cleanup(ctx: Ctx):
        """_cleanup_term_map(): drops exactly the keys whose set is empty; the kept entries are unchanged"""
        it = mk(src_root, ctx)
        w = World(ctx)
        install(it, ctx, w)
        tm = TermMap(w)
        mgr = new(it, MGR, 'SharesManager', _term_map=tm)
        seen = []

        def comp(it2, node, env):
            src = it2.eval(node.generators[0].iter, env)
            ctx.prove('C07.termmap.cleanup.iterates-entries', isinstance(src, ItemsView) and src.tm is tm and len(node.generators) == 1, use_lemmas=False)
            t = ctx.fresh_str('term')
            ctx.assume(z3.IsMember(t, tm.KEYS))
            cenv = _child_env(env)
            it2.assign(node.generators[0].target, (Sym(t, 'str'), TermSet(tm, t)), cenv)
            keep = z3.And(*[it2.truth(it2.eval(c, cenv)) for c in node.generators[0].ifs]) if node.generators[0].ifs else z3.BoolVal(True)
            key, val = it2.eval(node.key, cenv), it2.eval(node.value, cenv)
            ctx.prove('C07.termmap.cleanup.entry', z3.And(keep == (z3.Select(tm.IN, t) != z3.EmptySet(I)), z3str(unbox(key)) == t,
                                                          z3.BoolVal(isinstance(val, TermSet) and val.tm is tm and z3.eq(val.k, t))),
                      'an entry must be kept, unchanged, iff its set is not empty', use_lemmas=False)
            seen.append(1)
            return CleanedMap()
        it.comp_specs[(CLEANUP, 0)] = comp
        it.call(it.getattr(mgr, '_cleanup_term_map'), [], {})
        ctx.prove('C07.termmap.cleanup.assigns', len(seen) == 1 and isinstance(mgr.attrs['_term_map'], CleanedMap), use_lemmas=False)
    ex.run(cleanup, 'termmap-cleanup')

    def lemmas(ctx: Ctx):
        """pure lemmas that lift the contracts above to the class invariant TMINV (Z3, E-matching + MBQI)"""
        w = World(ctx)
        mem = z3.IsMember
        x_, t_ = z3.Const('x!L', I), z3.Const('t!L', S)
        # (1) rebuild: from the empty map, adding every live item under every one of its words gives exactly
        #     IN'[t] == {i in LIVE | t in WORDS(i)} and KEYS' == union of WORDS(i): TMINV holds
        KEYS1, IN1 = z3.Const('KEYS1', z3.SetSort(S)), z3.Const('IN1', z3.ArraySort(S, z3.SetSort(I)))
        ctx.lemma(z3.ForAll([t_, x_], mem(x_, z3.Select(IN1, t_)) == z3.And(mem(x_, w.LIVE), mem(t_, w.WORDS(x_))),
                            patterns=[mem(x_, z3.Select(IN1, t_)), mem(t_, w.WORDS(x_))]))
        KW = z3.Function('item_with_word', S, I)
        ctx.lemma(z3.ForAll([t_], z3.Implies(mem(t_, KEYS1), z3.And(mem(KW(t_), w.LIVE), mem(t_, w.WORDS(KW(t_))))), patterns=[mem(t_, KEYS1)]))
        ctx.lemma(z3.ForAll([t_, x_], z3.Implies(z3.And(mem(x_, w.LIVE), mem(t_, w.WORDS(x_))), mem(t_, KEYS1)), patterns=[mem(t_, w.WORDS(x_))]))
        c, s_ = w.tminv(KEYS1, IN1)
        ctx.prove('C07.termmap.lemma.rebuild-establishes-invariant', z3.And(c, s_))
    ex.run(lemmas, 'termmap-lemmas')

    def lemma_cleanup(ctx: Ctx):
        w = World(ctx)
        mem = z3.IsMember
        t_ = z3.Const('t!C', S)
        c, s_ = w.tminv()
        ctx.lemma(c)
        ctx.lemma(s_)
        KEYS2 = z3.Const('KEYS2', z3.SetSort(S))
        ctx.lemma(z3.ForAll([t_], mem(t_, KEYS2) == z3.And(mem(t_, w.KEYS), z3.Select(w.IN, t_) != z3.EmptySet(I)), patterns=[mem(t_, KEYS2), mem(t_, w.KEYS)]))
        c2, s2 = w.tminv(KEYS2, w.IN)
        ctx.prove('C07.termmap.lemma.cleanup-preserves-invariant', z3.And(c2, s2))
    ex.run(lemma_cleanup, 'termmap-lemma-cleanup')

    def lemma_build(ctx: Ctx):
        """_build_term_map(d) after the items of d were replaced by the scan result (A-weak applied to the dropped ones)"""
        w = World(ctx)
        mem = z3.IsMember
        x_, t_ = z3.Const('x!B', I), z3.Const('t!B', S)
        c, s_ = w.tminv()
        ctx.lemma(c)
        ctx.lemma(s_)
        OLD, NEW = z3.Const('items_before', z3.SetSort(I)), z3.Const('items_after', z3.SetSort(I))
        LIVE2 = z3.SetUnion(z3.SetDifference(w.LIVE, OLD), NEW)
        ctx.assume(z3.IsSubset(OLD, w.LIVE))
        # A-weak: the dropped items OLD - NEW left every set; build: the items of NEW are under each of their words
        KEYS2, IN2 = z3.Const('KEYS2', z3.SetSort(S)), z3.Const('IN2', z3.ArraySort(S, z3.SetSort(I)))
        dropped = z3.SetDifference(OLD, NEW)
        ctx.lemma(z3.ForAll([t_, x_], mem(x_, z3.Select(IN2, t_)) == z3.Or(z3.And(mem(x_, z3.Select(w.IN, t_)), z3.Not(mem(x_, dropped))),
                                                                           z3.And(mem(x_, NEW), mem(t_, w.WORDS(x_)))),
                            patterns=[mem(x_, z3.Select(IN2, t_)), mem(x_, z3.Select(w.IN, t_)), z3.MultiPattern(mem(x_, NEW), mem(t_, w.WORDS(x_)))]))
        ctx.lemma(z3.ForAll([t_], z3.Implies(mem(t_, w.KEYS), mem(t_, KEYS2)), patterns=[mem(t_, w.KEYS)]))
        ctx.lemma(z3.ForAll([t_, x_], z3.Implies(z3.And(mem(x_, NEW), mem(t_, w.WORDS(x_))), mem(t_, KEYS2)), patterns=[z3.MultiPattern(mem(x_, NEW), mem(t_, w.WORDS(x_)))]))
        c2, s2 = w.tminv(KEYS2, IN2, LIVE2)
        ctx.prove('C07.termmap.lemma.scan-preserves-invariant', z3.And(c2, s2))
    ex.run(lemma_build, 'termmap-lemma-scan')


class DirList:
    """the list _shared_directories (abstract: unknown length)"""

    def __init__(self, ctx):
        self.ctx = ctx

    def pyvc_iter(self, it, loop):
        raise Unsupported('iteration over the shared directories without a contract')


class CleanedMap:
    pass


# ---------------------------------------------------------------------------
# scan reconciliation, statistics

STATS = f'{MGR}:SharesManager.get_stats'


def prove_scan(src_root, ex: Explorer):
    outcomes = ['scanned', 'scan-raises', 'not-added']

    def scan(ctx: Ctx):
        """scan_directory_files(d): d.items becomes EXACTLY the scan result (for the scan of d without its child shared directories),
        each scanned item is owned by d, then the term map is built for d and cleaned; a failing scan changes nothing"""
        outcome = outcomes[ctx.choose(3, 'outcome')]
        it = mk(src_root, ctx)
        w = World(ctx)
        install(it, ctx, w)
        OLD, SC = z3.Const('items_before', z3.SetSort(I)), z3.Const('scanned', z3.SetSort(I))
        d = new(it, SMODEL_SHARES, 'SharedDirectory', items=SymSet(OLD, I), absolute_path='/music', directory='/music', alias='abcde')
        log = []

        class Dirs(DirList):
            def pyvc_contains(self, it2, item):
                return (item is d) and outcome != 'not-added'
        children = Stub('children of d')
        it.hooks[f'{MGR}:SharesManager._get_child_directories'] = lambda it2, f, a, k: (log.append(('children', a[1])), children)[1]
        it.hooks[BUILD] = lambda it2, f, a, k: log.append(('build', a[1], d.attrs['items'].term))
        it.hooks[CLEANUP] = lambda it2, f, a, k: log.append(('cleanup',))
        scanned = SymSet(SC, I)

        def run_in_executor(it2, a, k):
            log.append(('executor', a))
            if outcome == 'scan-raises':
                it2.throw('OSError', 'scan failed')
            return scanned
        loop_ = Stub('loop', run_in_executor=Recorder('run_in_executor', fn=run_in_executor, is_async=True))
        it.natives['asyncio.get_running_loop'] = Native('asyncio.get_running_loop', lambda it2, a, k: loop_)
        executor = Stub('executor')
        mgr = new(it, MGR, 'SharesManager', _term_map=TermMap(w), _shared_directories=Dirs(ctx), executor=executor)
        owner = []

        class ScannedItem:
            def pyvc_setattr(self, it2, name, value):
                owner.append((name, value))

        def loop(it2, node, env):
            src = it2.eval(node.iter, env)
            ctx.prove('C07.scan.owner.iterates-result', src is scanned, use_lemmas=False)
            it2.assign(node.target, ScannedItem(), env)
            it2.exec_block(node.body, env)
        it.loop_specs[(SCANF, 0)] = loop
        try:
            run(it, it.getattr(mgr, 'scan_directory_files'), d)
        except PyRaise as pr:
            ctx.prove('C07.scan.rejects-unknown-directory', outcome == 'not-added' and pr.exc.cls.name == 'SharedDirectoryError' and not log,
                      f'raises {pr.exc!r}', use_lemmas=False)
            return
        if outcome == 'not-added':
            ctx.fail('C07.scan.rejects-unknown-directory', 'a directory that was not added is scanned', use_lemmas=False)
            return
        ex_calls = [e for e in log if e[0] == 'executor']
        ok_call = False
        if len(ex_calls) == 1:
            a = ex_calls[0][1]
            from pyvc.natives import PartialVal
            from pyvc.values import PyFunc
            ok_call = (len(a) == 2 and a[0] is executor and isinstance(a[1], PartialVal) and isinstance(a[1].fn, PyFunc) and a[1].fn.node.name == 'scan_directory'
                       and a[1].args == [d] and a[1].kwargs == {'children': children})
        ctx.prove('C07.scan.scans-directory-without-children', ok_call and ('children', d) in log,
                  'the files must be scanned for d with the child shared directories of d excluded', use_lemmas=False)
        final = d.attrs['items']
        if outcome == 'scanned':
            ctx.prove('C07.scan.reconcile', isinstance(final, SymSet) and final.term == SC, 'after the scan the items of the directory must be exactly the scan result',
                      use_lemmas=False)
            ctx.prove('C07.scan.owner', owner == [('shared_directory', d)], 'every scanned item must be owned by the scanned directory', use_lemmas=False)
        else:
            ctx.prove('C07.scan.failure-keeps-items', isinstance(final, SymSet) and final.term == OLD, use_lemmas=False)
        tail = [e for e in log if e[0] in ('build', 'cleanup')]
        ctx.prove('C07.scan.updates-term-map', len(tail) == 2 and tail[0][0] == 'build' and tail[0][1] is d and tail[1] == ('cleanup',)
                  and ctx.valid(tail[0][2] == final.term), 'the term map must be built for the reconciled items and then cleaned', use_lemmas=False)
    ex.run(scan, 'scan')

    def stats(ctx: Ctx):
        """get_stats(): file count == sum of |d.items|, folder count == sum of |{subdir of the items of d}| (element-wise contracts of the
        two generator expressions and of the inner set comprehension)"""
        it = mk(src_root, ctx)
        dirs = DirList(ctx)
        mgr = new(it, MGR, 'SharesManager', _shared_directories=dirs)
        NITEMS = z3.Function('n_items', I, I)
        NSUB = z3.Function('n_subdirs', I, I)
        SUB = z3.Function('subdir_of', I, S)
        dn = ctx.fresh_int('d')

        class ItemSet:
            def pyvc_len(self, it2):
                return Sym(NITEMS(dn), 'int')

            def pyvc_iter(self, it2, loop):
                raise Unsupported('iteration over items without a contract')
        items = ItemSet()
        d = Stub('arbitrary shared directory', items=items)
        got = {}

        class Summed:
            def __init__(self, kind):
                self.kind = kind

        def comp_files(it2, node, env):
            src = it2.eval(node.generators[0].iter, env)
            cenv = _child_env(env)
            it2.assign(node.generators[0].target, d, cenv)
            v = it2.eval(node.elt, cenv)
            ctx.prove('C07.stats.files', src is dirs and not node.generators[0].ifs and len(node.generators) == 1 and ctx.valid(z3int(unbox(v)) == NITEMS(dn)),
                      'the file count must add the number of items of every shared directory', use_lemmas=False)
            return Summed('files')

        def comp_dirs(it2, node, env):
            src = it2.eval(node.generators[0].iter, env)
            cenv = _child_env(env)
            it2.assign(node.generators[0].target, d, cenv)
            v = it2.eval(node.elt, cenv)
            ctx.prove('C07.stats.folders', src is dirs and not node.generators[0].ifs and len(node.generators) == 1 and ctx.valid(z3int(unbox(v)) == NSUB(dn)),
                      'the folder count must add the number of distinct sub-directories of every shared directory', use_lemmas=False)
            return Summed('folders')

        class SubdirSet:
            def pyvc_len(self, it2):
                return Sym(NSUB(dn), 'int')

        def comp_subdirs(it2, node, env):
            src = it2.eval(node.generators[0].iter, env)
            x = ctx.fresh_int('x')
            cenv = _child_env(env)

            class AnItem:
                def pyvc_getattr(self, it3, name):
                    if name == 'subdir':
                        return Sym(SUB(x), 'str')
                    return Sym(z3.Function(name + '_of', I, S)(x), 'str')
            it2.assign(node.generators[0].target, AnItem(), cenv)
            v = it2.eval(node.elt, cenv)
            ctx.prove('C07.stats.subdirs', src is items and not node.generators[0].ifs and isinstance(node, (ast.SetComp, ast.GeneratorExp))
                      and ctx.valid(z3str(unbox(v)) == SUB(x)), 'the set of sub-directories of a shared directory is {item.subdir}', use_lemmas=False)
            return SubdirSet()
        orig_set = it.natives['builtins.set']
        it.natives['builtins.set'] = Native('builtins.set', lambda it2, a, k: a[0] if a and isinstance(a[0], SubdirSet) else orig_set.fn(it2, a, k))
        it.natives['builtins.sum'] = Native('builtins.sum', lambda it2, a, k: a[0] if isinstance(a[0], Summed) else (_ for _ in ()).throw(Unsupported('sum')))
        it.comp_specs[(STATS, 0)] = comp_files
        it.comp_specs[(STATS, 1)] = comp_dirs
        it.comp_specs[(STATS, 2)] = comp_subdirs
        r = it.call(it.getattr(mgr, 'get_stats'), [], {})
        ctx.prove('C07.stats.result', isinstance(r, tuple) and len(r) == 2 and isinstance(r[0], Summed) and r[0].kind == 'folders'
                  and isinstance(r[1], Summed) and r[1].kind == 'files', 'get_stats must return (folder count, file count)', use_lemmas=False)
    ex.run(stats, 'stats')


# ---------------------------------------------------------------------------
# SearchQuery.parse / matchers_iter, the patterns, the bounded regex lemma

PARSE = f'{SMODEL}:SearchQuery.parse'
MATCHERS = f'{SMODEL}:SearchQuery.matchers_iter'
HERE = os.path.dirname(os.path.dirname(os.path.abspath(__file__)))


def prove_parse(src_root, ex: Explorer):
    def parse(ctx: Ctx):
        """SearchQuery.parse, one ARBITRARY whitespace-separated term: ignored unless it has a word character; otherwise its lower-cased
        text goes to exactly one of the three sets, chosen by its first character ('*' wildcard, '-' exclude), without that character"""
        it = mk(src_root, ctx)
        HASWORD = z3.Function('has_word_char', S, B)
        q = ctx.fresh_str('query')

        class Terms:
            def pyvc_iter(self, it2, loop):
                raise Unsupported('iteration over query.split() without a contract')
        terms = Terms()
        from pyvc import strings as STR
        orig_method = STR.str_method

        class WordPattern:
            """re.compile(r'[^\\W_]'): search(s) is a match object iff s has a word character"""

            def pyvc_getattr(self, it2, name):
                if name == 'search':
                    return Native('search', lambda it3, a, k: MatchOrNone(HASWORD(z3str(unbox(a[0])))))
                raise Unsupported(f'Pattern.{name}')

        class MatchOrNone:
            def __init__(self, f):
                self.f = f

            def pyvc_truth(self, it2):
                return self.f

            def pyvc_is(self, it2, other):
                if other is None:
                    return z3.Not(self.f)
                return NotImplemented

        def re_search(it2, a, k):
            pat = a[0]
            if isinstance(pat, WordPattern):
                return MatchOrNone(HASWORD(z3str(unbox(a[1]))))
            if unbox(pat) != r'[^\W_]':
                raise Unsupported(f're.search with pattern {a[0]!r}')
            return MatchOrNone(HASWORD(z3str(unbox(a[1]))))
        it.natives['re.search'] = Native('re.search', re_search)
        it.natives['re.compile'] = Native('re.compile', lambda it2, a, k: WordPattern() if unbox(a[0]) == r'[^\W_]' and not k else
                                          (_ for _ in ()).throw(Unsupported(f're.compile({a[0]!r})')))
        INC0, EXC0, WILD0 = (z3.Const(n, z3.SetSort(S)) for n in ('INC0', 'EXC0', 'WILD0'))
        seen = []

        def loop(it2, node, env):
            src = it2.eval(node.iter, env)
            ctx.prove('C07.parse.iterates-terms', src is terms, use_lemmas=False)
            obj = env.lookup('obj')
            ctx.prove('C07.parse.starts-empty', obj.attrs['include_terms'] == set() and obj.attrs['exclude_terms'] == set() and obj.attrs['wildcard_terms'] == set()
                      and ctx.valid(z3str(unbox(obj.attrs['query'])) == q), use_lemmas=False)
            obj.attrs['include_terms'], obj.attrs['exclude_terms'], obj.attrs['wildcard_terms'] = SymSet(INC0, S), SymSet(EXC0, S), SymSet(WILD0, S)
            t = ctx.fresh_str('term')
            ctx.assume(z3.Length(t) >= 1)              # str.split() yields no empty strings
            it2.assign(node.target, Sym(t, 'str'), env)
            try:
                it2.exec_block(node.body, env)
            except ContinueEx:
                pass
            lt = LOWER(t)
            rest = z3.SubString(lt, 1, z3.Length(lt) - 1)
            inc, exc, wild = obj.attrs['include_terms'].term, obj.attrs['exclude_terms'].term, obj.attrs['wildcard_terms'].term
            star, dash = z3.PrefixOf(z3.StringVal('*'), t), z3.PrefixOf(z3.StringVal('-'), t)
            ctx.prove('C07.parse.classify', z3.If(z3.Not(HASWORD(lt)), z3.And(inc == INC0, exc == EXC0, wild == WILD0),
                                             z3.If(star, z3.And(inc == INC0, exc == EXC0, wild == z3.SetAdd(WILD0, rest)),
                                                   z3.If(dash, z3.And(inc == INC0, wild == WILD0, exc == z3.SetAdd(EXC0, rest)),
                                                         z3.And(exc == EXC0, wild == WILD0, inc == z3.SetAdd(INC0, lt))))),
                      'a term must be ignored without a word character and otherwise be added, lower-cased, to exactly the set its prefix selects',
                      use_lemmas=False)
            seen.append(obj)
        it.loop_specs[(PARSE, 0)] = loop

        def split_hook(it2, o, name):
            return None
        # query.split() by contract
        qs = Sym(q, 'str')
        it.str_method_overrides = {'split': lambda it2, o, a, k: terms if (not a and z3.eq(z3str(o), q)) else NotImplemented}
        r = it.call(it.getattr(cls(it, SMODEL, 'SearchQuery'), 'parse'), [qs], {})
        ctx.prove('C07.parse.returns-object', len(seen) == 1 and r is seen[0], use_lemmas=False)
    ex.run(parse, 'parse')

    def matchers(ctx: Ctx):
        """matchers_iter: one matcher per term; include/wildcard matchers accept a path iff the (plain / wildcard) pattern of the term
        matches it, exclude matchers iff the plain pattern does not"""
        it = mk(src_root, ctx)
        w = World(ctx)
        q = new(it, SMODEL, 'SearchQuery', query='q', include_terms=SymSet(w.INC, S), exclude_terms=SymSet(w.EXC, S), wildcard_terms=SymSet(w.WILD, S))
        yielded = []
        it.on_yield_value = lambda it2, v, env: yielded.append(v)

        class Pat:
            def __init__(self, u, wildcard):
                self.u, self.wildcard = u, wildcard

            def pyvc_getattr(self, it2, name):
                if name == 'search':
                    # a match object or None: truth, bool(), `is None` / `is not None` all mean "the pattern matches"
                    return Native('search', lambda it3, a, k: _MatchOrNone((w.MW if self.wildcard else w.MP)(self.u, z3str(unbox(a[0])))))
                raise Unsupported(f'Pattern.{name}')

        def ctp(it2, f, a, k):
            wc = k.get('wildcard', a[1] if len(a) > 1 else False)
            return Pat(z3str(unbox(a[0])), unbox(wc))
        it.hooks[f'{SUTIL}:create_term_pattern'] = ctp
        sets = {0: ('include', w.INC), 1: ('wildcard', w.WILD), 2: ('exclude', w.EXC)}
        seen = []

        def mkloop(ordinal):
            def loop(it2, node, env):
                kind, st = sets[ordinal]
                src = it2.eval(node.iter, env)
                u = ctx.fresh_str('u')
                ctx.assume(z3.IsMember(u, st))
                it2.assign(node.target, Sym(u, 'str'), env)
                n0 = len(yielded)
                it2.exec_block(node.body, env)
                p = ctx.fresh_str('path')
                ok = isinstance(src, SymSet) and z3.eq(src.term, st) and len(yielded) == n0 + 1
                val = None
                if ok:
                    val = it2.truth(it2.call(yielded[-1], [Sym(p, 'str')], {}))
                want = {'include': w.MP(u, p), 'wildcard': w.MW(u, p), 'exclude': z3.Not(w.MP(u, p))}[kind]
                ctx.prove(f'C07.matchers.{kind}', ok and ctx.valid(val == want), f'the {kind} terms must each yield one matcher with the stated meaning', use_lemmas=False)
                seen.append(kind)
            return loop
        for o in range(3):
            it.loop_specs[(MATCHERS, o)] = mkloop(o)
        it.inline(it.class_attr(cls(it, SMODEL, 'SearchQuery'), 'matchers_iter'), [q], {})
        ctx.prove('C07.matchers.all-three-kinds', sorted(seen) == ['exclude', 'include', 'wildcard'], use_lemmas=False)
    ex.run(matchers, 'matchers')


def prove_lemma_bounded(src_root, ex: Explorer, tier):
    def lemma(ctx: Ctx):
        try:
            r = subprocess.run(['/venv/bin/python', os.path.join(HERE, 'tools', 'regex_lemma.py'), tier], capture_output=True, text=True, timeout=3000,
                               env=dict(os.environ, PYTHONPATH=src_root))
            out = json.loads([ln for ln in r.stdout.splitlines() if ln.startswith('{')][-1])
        except Exception as e:       # noqa
            raise Unsupported(f'regex lemma script failed: {e!r}')
        ctx.ghost['lemma'] = out
        ctx.prove('C07.A-re.lemma[bounded]', bool(out.get('ok')), out.get('counterexample') or '', use_lemmas=False)
    ex.run(lemma, 'regex-lemma')


# ---------------------------------------------------------------------------
# nested shared directories: every file is indexed under the innermost shared directory that contains it

PARENTS = f'{MGR}:SharesManager._get_parent_directories'
CHILDREN = f'{MGR}:SharesManager._get_child_directories'
ITEMS_FOR = f'{SMODEL_SHARES}:SharedDirectory.get_items_for_directory'
MOVE = f'{MGR}:SharesManager._move_items'
ADDDIR = f'{MGR}:SharesManager.add_shared_directory'
RMDIR = f'{MGR}:SharesManager.remove_shared_directory'
ANC = z3.Function('is_ancestor_or_self', S, S, B)          # A-ospath: abstract path order on normalised absolute paths
CP = z3.Function('commonpath', S, S, S)


def install_paths(it, ctx):
    """os.path by its contract: commonpath([p, q]) == q  <=>  q is an ancestor-or-self of p (and symmetric in its arguments)"""
    def commonpath(it2, a, k):
        lst = it2.iterate(a[0])
        if len(lst) != 2:
            raise Unsupported('commonpath of other than two paths')
        p, q = z3str(unbox(lst[0])), z3str(unbox(lst[1]))
        r = CP(p, q)
        ctx.assume(z3.And((r == q) == ANC(q, p), (r == p) == ANC(p, q), CP(q, p) == r))
        return Sym(r, 'str')
    it.natives['os.path.commonpath'] = Native('os.path.commonpath', commonpath)


class ADir:
    """an arbitrary SharedDirectory of the list (real class, symbolic fields)"""


def prove_dirs(src_root, ex: Explorer):
    def relations(ctx: Ctx):
        it = mk(src_root, ctx)
        install_paths(it, ctx)
        a, b = ctx.fresh_str('a'), ctx.fresh_str('b')
        d1 = new(it, SMODEL_SHARES, 'SharedDirectory', absolute_path=Sym(a, 'str'))
        d2 = new(it, SMODEL_SHARES, 'SharedDirectory', absolute_path=Sym(b, 'str'))
        as_obj = ctx.choose(2, 'argument') == 0
        arg = d2 if as_obj else Sym(b, 'str')
        r1 = it.truth(it.call(it.getattr(d1, 'is_parent_of'), [arg], {}))
        ctx.prove('C07.dirs.is_parent_of', r1 == ANC(a, b), 'd.is_parent_of(x) must hold iff d is an ancestor-or-self of x', use_lemmas=False)
        r2 = it.truth(it.call(it.getattr(d1, 'is_child_of'), [arg], {}))
        ctx.prove('C07.dirs.is_child_of', r2 == ANC(b, a), 'd.is_child_of(x) must hold iff x is an ancestor-or-self of d', use_lemmas=False)
    ex.run(relations, 'dir-relations')

    def selections(ctx: Ctx):
        """the comprehensions of _get_parent_directories / _get_child_directories / get_items_for_directory, element-wise"""
        it = mk(src_root, ctx)
        install_paths(it, ctx)
        which = ctx.choose(3, 'function')
        a, b = ctx.fresh_str('a'), ctx.fresh_str('b')
        dirs = DirList(ctx)
        given = new(it, SMODEL_SHARES, 'SharedDirectory', absolute_path=Sym(a, 'str'), directory='given', alias='aaaaa')
        other = new(it, SMODEL_SHARES, 'SharedDirectory', absolute_path=Sym(b, 'str'), directory='other', alias='bbbbb')
        same = ctx.choose(2, 'same-object') == 0
        result = []

        class Sel:
            def __init__(self, kind):
                self.kind = kind

        if which < 2:
            fn, name = ((PARENTS, '_get_parent_directories'), (CHILDREN, '_get_child_directories'))[which]
            mgr = new(it, MGR, 'SharesManager', _shared_directories=dirs)

            def comp(it2, node, env):
                src = it2.eval(node.generators[0].iter, env)
                cenv = _child_env(env)
                el = given if same else other
                it2.assign(node.generators[0].target, el, cenv)
                keep = z3.And(*[z3.BoolVal(c) if isinstance(c, bool) else c for c in [it2.truth(it2.eval(c, cenv)) for c in node.generators[0].ifs]])
                elt = it2.eval(node.elt, cenv)
                want = z3.BoolVal(False) if same else (ANC(b, a) if which == 0 else ANC(a, b))
                # dataclass equality of two directories: same (directory, absolute_path, alias); distinct list entries differ in absolute_path
                ctx.prove(f'C07.dirs.{name}', src is dirs and elt is el and len(node.generators) == 1 and ctx.valid(keep == want),
                          'the selection must keep exactly the OTHER shared directories that are ancestors (descendants) of the given one', use_lemmas=False)
                return Sel(name)
            it.comp_specs[(fn, 0)] = comp
            if which == 0:
                def sorted_(it2, a_, k):
                    if a_ and isinstance(a_[0], Sel):
                        keyf = k.get('key')
                        ok = keyf is not None and not k.get('reverse')
                        if ok:
                            v = it2.call(keyf, [other], {})
                            ok = ctx.valid(z3int(unbox(v)) == z3.Length(b))
                        ctx.prove('C07.dirs._get_parent_directories.sorted-by-depth', ok, 'the parents must be sorted by the length of their absolute path, longest last',
                                  use_lemmas=False)
                        return a_[0]
                    raise Unsupported('sorted')
                it.natives['builtins.sorted'] = Native('builtins.sorted', sorted_)
            ctx.assume(z3.BoolVal(True) if same else a != b)
            r = it.call(it.getattr(mgr, name), [given], {})
            ctx.prove(f'C07.dirs.{name}.returns-selection', isinstance(r, Sel), use_lemmas=False)
        else:
            x = ctx.fresh_int('x')
            ABS = z3.Function('absolute_path', I, S)

            class Items:
                def pyvc_iter(self, it2, loop):
                    raise Unsupported('items')
            items = Items()
            owner = new(it, SMODEL_SHARES, 'SharedDirectory', absolute_path=Sym(b, 'str'), items=items)
            w = World(ctx)

            def comp(it2, node, env):
                src = it2.eval(node.generators[0].iter, env)
                cenv = _child_env(env)
                el = Item(w, x)
                it2.assign(node.generators[0].target, el, cenv)
                keep = z3.And(*[it2.truth(it2.eval(c, cenv)) for c in node.generators[0].ifs])
                elt = it2.eval(node.elt, cenv)
                ctx.prove('C07.dirs.get_items_for_directory', src is items and elt is el and isinstance(node, ast.SetComp) and ctx.valid(keep == ANC(a, ABS(x))),
                          'exactly the items whose absolute path lies under the given directory must be selected', use_lemmas=False)
                return Sel('items')
            it.comp_specs[(ITEMS_FOR, 0)] = comp
            r = it.call(it.getattr(owner, 'get_items_for_directory'), [given], {})
            ctx.prove('C07.dirs.get_items_for_directory.returns-selection', isinstance(r, Sel), use_lemmas=False)
    ex.run(selections, 'dir-selections')

    def move(ctx: Ctx):
        """_move_items(items, target), one arbitrary item: the new item is owned by target, has the same file name, modification time and
        attributes, and its subdir is the directory of the old item's absolute path relative to target ('' for target itself)"""
        it = mk(src_root, ctx)
        DIRNAME = z3.Function('dirname', S, S)
        REL = z3.Function('relpath', S, S, S)
        it.natives['os.path.dirname'] = Native('os.path.dirname', lambda it2, a, k: Sym(DIRNAME(z3str(unbox(a[0]))), 'str'))
        it.natives['os.path.relpath'] = Native('os.path.relpath', lambda it2, a, k: Sym(REL(z3str(unbox(a[0])), z3str(unbox(a[1]))), 'str'))
        tabs, iabs, fn = ctx.fresh_str('target_abs'), ctx.fresh_str('item_abs'), ctx.fresh_str('filename')
        target = new(it, SMODEL_SHARES, 'SharedDirectory', absolute_path=Sym(tabs, 'str'), directory='t', alias='ttttt')
        old_owner = new(it, SMODEL_SHARES, 'SharedDirectory', absolute_path='/old', directory='o', alias='ooooo')
        modified = Sym(ctx.fresh_real('modified'), 'real')
        attrs = [(0, 320)] if ctx.choose(2, 'attributes') else None
        old = new(it, SMODEL_SHARES, 'SharedItem', shared_directory=old_owner, subdir='whatever', filename=Sym(fn, 'str'), modified=modified, attributes=attrs)
        it.hooks[f'{SMODEL_SHARES}:SharedItem.get_absolute_path'] = lambda it2, f, a, k: Sym(iabs, 'str') if a[0] is old else (_ for _ in ()).throw(Unsupported('abs'))
        mgr = new(it, MGR, 'SharesManager')
        added = []

        class Acc:
            def pyvc_getattr(self, it2, name):
                if name == 'add':
                    return Native('add', lambda it3, a, k: added.append(a[0]))
                raise Unsupported(name)
        acc = Acc()

        class Given:
            def pyvc_iter(self, it2, loop):
                raise Unsupported('items')
        given = Given()
        seen = []

        def loop(it2, node, env):
            src = it2.eval(node.iter, env)
            accname = [k for k, v in env.vars.items() if isinstance(v, set) and not v]
            ctx.prove('C07.move.iterates-items', src is given and len(accname) == 1, use_lemmas=False)
            if len(accname) != 1:
                raise PathAbort()
            env.vars[accname[0]] = acc
            it2.assign(node.target, old, env)
            it2.exec_block(node.body, env)
            seen.append(accname[0])
        it.loop_specs[(MOVE, 0)] = loop
        r = it.call(it.getattr(mgr, '_move_items'), [given, target], {})
        ok = len(seen) == 1 and r is acc and len(added) == 1 and isinstance(added[0], Obj) and added[0].cls.name == 'SharedItem'
        if ok:
            n = added[0]
            rel = REL(DIRNAME(iabs), tabs)
            ok = (n.attrs.get('shared_directory') is target and ctx.valid(z3str(unbox(n.attrs.get('filename'))) == fn) and n.attrs.get('modified') is modified
                  and n.attrs.get('attributes') == attrs
                  and ctx.valid(z3str(unbox(n.attrs.get('subdir'))) == z3.If(rel == z3.StringVal('.'), z3.StringVal(''), rel)))
        ctx.prove('C07.move.item', ok, 'a moved item must be re-created for the target directory: owner, relative sub-directory, same file', use_lemmas=False)
    ex.run(move, 'move-items')

    def add(ctx: Ctx):
        """add_shared_directory: raises without any change when the path is shared already; otherwise creates the directory object, moves
        exactly the items of the INNERMOST parent that lie under the new directory into it (re-created by _move_items), appends the directory
        once, indexes the moved items and emits the change event"""
        it = mk(src_root, ctx)
        w = World(ctx)
        shared_already = ctx.choose(2, 'already-shared') == 1
        has_parent = ctx.choose(2, 'has-parent') == 1
        log = []

        class Dirs(DirList):
            def pyvc_getattr(self, it2, name):
                if name == 'append':
                    return Native('append', lambda it3, a, k: log.append(('append', a[0])))
                raise Unsupported(name)
        dirs = Dirs(ctx)
        it.hooks[f'{MGR}:SharesManager.is_directory_shared'] = lambda it2, f, a, k: shared_already
        it.natives['os.path.abspath'] = Native('abspath', lambda it2, a, k: ('abspath', a[0]))
        it.natives['os.path.normpath'] = Native('normpath', lambda it2, a, k: ('normpath', a[0]))
        it.hooks[f'{MGR}:SharesManager.generate_alias'] = lambda it2, f, a, k: ('alias-of', a[1])
        PI, CH, MV = (z3.Const(n, z3.SetSort(I)) for n in ('parent_items', 'children', 'moved'))
        inner = new(it, SMODEL_SHARES, 'SharedDirectory', items=SymSet(PI, I), absolute_path='/p', directory='/p', alias='ppppp')

        class Parents:
            def pyvc_truth(self, it2):
                return has_parent

            def pyvc_getitem(self, it2, idx):
                if unbox(idx) == 0 and has_parent:
                    return outer            # the list may hold several parents: the first one is the OUTERMOST
                if unbox(idx) != -1 or not has_parent:
                    raise Unsupported('parents[...] other than the first or last one')
                return inner
        outer = new(it, SMODEL_SHARES, 'SharedDirectory', items=SymSet(z3.Const('outer_items', z3.SetSort(I)), I), absolute_path='/', directory='/', alias='rrrrr')
        it.hooks[PARENTS] = lambda it2, f, a, k: (log.append(('parents-of', a[1])), Parents())[1]
        it.hooks[ITEMS_FOR] = lambda it2, f, a, k: (log.append(('items-for', a[0], a[1])), SymSet(CH, I))[1]
        it.hooks[MOVE] = lambda it2, f, a, k: (log.append(('move', a[1].term if isinstance(a[1], SymSet) else a[1], a[2])), SymSet(MV, I))[1]
        it.hooks[REBUILD] = lambda it2, f, a, k: log.append(('rebuild', [e for e in log if e[0] == 'append'], inner.attrs['items'].term))
        bus = Stub('bus', emit_sync=Recorder('emit_sync', fn=lambda it2, a, k: log.append(('event', a[0]))))
        mgr = new(it, MGR, 'SharesManager', _shared_directories=dirs, _event_bus=bus, _term_map=TermMap(w))
        users = ['alice']
        mode = cls(it, SMODEL_SHARES, 'DirectoryShareMode').enum_members[1]
        it.sym_containers = False
        try:
            r = it.call(it.getattr(mgr, 'add_shared_directory'), ['music/new'], {'share_mode': mode, 'users': users})
        except PyRaise as pr:
            ctx.prove('C07.add.rejects-shared', shared_already and pr.exc.cls.name == 'SharedDirectoryError' and not log,
                      f'raises {pr.exc!r}', use_lemmas=False)
            return
        if shared_already:
            ctx.fail('C07.add.rejects-shared', 'a path that is shared already is added again', use_lemmas=False)
            return
        ok = isinstance(r, Obj) and r.cls.name == 'SharedDirectory'
        ctx.prove('C07.add.object', ok and r.attrs['directory'] == 'music/new' and r.attrs['absolute_path'] == ('normpath', ('abspath', 'music/new'))
                  and r.attrs['alias'] == ('alias-of', r.attrs['absolute_path']) and r.attrs['share_mode'] is mode and r.attrs['users'] == users,
                  'the directory object must carry the normalised absolute path, its alias, the share mode and the users', use_lemmas=False)
        if not ok:
            return
        appended = [e for e in log if e[0] == 'append']
        ctx.prove('C07.add.appended-once', appended == [('append', r)] and ('parents-of', r) in log, use_lemmas=False)
        items = r.attrs['items']
        if has_parent:
            ctx.prove('C07.add.moves-children', ('items-for', inner, r) in log and any(e[0] == 'move' and e[2] is r and ctx.valid(e[1] == CH) for e in log)
                      and isinstance(items, SymSet) and ctx.valid(items.term == MV) and ctx.valid(inner.attrs['items'].term == z3.SetDifference(PI, CH)),
                      'the items of the innermost parent that lie under the new directory must be moved into it, and only they', use_lemmas=False)
        else:
            ctx.prove('C07.add.no-parent-no-items', (items == set() or (isinstance(items, SymSet) and ctx.valid(items.term == z3.EmptySet(I))))
                      and not any(e[0] in ('move', 'items-for') for e in log), use_lemmas=False)
        order = [e[0] for e in log if e[0] in ('append', 'rebuild', 'event')]
        rb = [e for e in log if e[0] == 'rebuild']
        ctx.prove('C07.add.rebuilds-term-map', order == ['append', 'rebuild', 'event'] and rb[0][1] == [('append', r)]
                  and (not has_parent or ctx.valid(rb[0][2] == z3.SetDifference(PI, CH))),
                  'the moved items are new objects and the old ones may still be referenced: the term map must be rebuilt from the updated '
                  'directories before the change is announced', use_lemmas=False)
        ev = [e for e in log if e[0] == 'event']
        ctx.prove('C07.add.event', len(ev) == 1 and isinstance(ev[0][1], Obj) and ev[0][1].cls.name == 'SharedDirectoryChangeEvent', use_lemmas=False)
    ex.run(add, 'add-directory')

    def remove(ctx: Ctx):
        """remove_shared_directory: unknown directory -> error, nothing changed; otherwise the directory leaves the list, its items are
        re-created for the innermost parent (if any) and the term map is REBUILT from the remaining directories"""
        it = mk(src_root, ctx)
        w = World(ctx)
        known = ctx.choose(2, 'known') == 1
        by_path = ctx.choose(2, 'by-path') == 1
        has_parent = ctx.choose(2, 'has-parent') == 1
        log = []
        DI, PI, MV = (z3.Const(n, z3.SetSort(I)) for n in ('removed_items', 'parent_items', 'moved'))
        d = new(it, SMODEL_SHARES, 'SharedDirectory', items=SymSet(DI, I), absolute_path='/p/d', directory='/p/d', alias='ddddd')
        inner = new(it, SMODEL_SHARES, 'SharedDirectory', items=SymSet(PI, I), absolute_path='/p', directory='/p', alias='ppppp')

        class Dirs(DirList):
            def pyvc_contains(self, it2, item):
                return known and item is d

            def pyvc_getattr(self, it2, name):
                if name == 'remove':
                    return Native('remove', lambda it3, a, k: log.append(('remove', a[0])))
                raise Unsupported(name)

        def get_sd(it2, f, a, k):
            if not known:
                it2.throw(cls(it2, 'exceptions', 'SharedDirectoryError'), 'not found')
            return d
        it.hooks[f'{MGR}:SharesManager.get_shared_directory'] = get_sd

        class Parents:
            def pyvc_truth(self, it2):
                return has_parent

            def pyvc_getitem(self, it2, idx):
                if unbox(idx) == 0 and has_parent:
                    return outer
                if unbox(idx) != -1 or not has_parent:
                    raise Unsupported('parents[...] other than the first or last one')
                return inner
        outer = new(it, SMODEL_SHARES, 'SharedDirectory', items=SymSet(z3.Const('outer_items', z3.SetSort(I)), I), absolute_path='/', directory='/', alias='rrrrr')
        it.hooks[PARENTS] = lambda it2, f, a, k: (log.append(('parents-of', a[1], [e[0] for e in log])), Parents())[1]
        it.hooks[MOVE] = lambda it2, f, a, k: (log.append(('move', a[1].term if isinstance(a[1], SymSet) else a[1], a[2])), SymSet(MV, I))[1]
        it.hooks[REBUILD] = lambda it2, f, a, k: log.append(('rebuild', inner.attrs['items'].term))
        it.hooks[CLEANUP] = lambda it2, f, a, k: log.append(('cleanup',))
        bus = Stub('bus', emit_sync=Recorder('emit_sync', fn=lambda it2, a, k: log.append(('event', a[0]))))
        mgr = new(it, MGR, 'SharesManager', _shared_directories=Dirs(ctx), _event_bus=bus, _term_map=TermMap(w))
        try:
            r = it.call(it.getattr(mgr, 'remove_shared_directory'), ['/p/d' if by_path else d], {})
        except PyRaise as pr:
            ctx.prove('C07.remove.rejects-unknown', (not known) and pr.exc.cls.name == 'SharedDirectoryError' and not log, f'raises {pr.exc!r}', use_lemmas=False)
            return
        if not known:
            ctx.fail('C07.remove.rejects-unknown', 'a directory that is not shared is removed', use_lemmas=False)
            return
        ctx.prove('C07.remove.leaves-list', r is d and [e for e in log if e[0] == 'remove'] == [('remove', d)], use_lemmas=False)
        par = [e for e in log if e[0] == 'parents-of']
        ctx.prove('C07.remove.parents-after-removal', len(par) == 1 and par[0][1] is d and 'remove' in par[0][2],
                  'the parents must be looked up among the REMAINING directories', use_lemmas=False)
        if has_parent:
            ctx.prove('C07.remove.moves-items-to-parent', any(e[0] == 'move' and e[2] is inner and ctx.valid(e[1] == DI) for e in log)
                      and ctx.valid(inner.attrs['items'].term == z3.SetUnion(PI, MV)), 'the items must be re-created for the innermost parent', use_lemmas=False)
        else:
            ctx.prove('C07.remove.no-parent-drops-items', not any(e[0] == 'move' for e in log) and ctx.valid(inner.attrs['items'].term == PI), use_lemmas=False)
        rb = [e for e in log if e[0] == 'rebuild']
        order = [e[0] for e in log]
        ctx.prove('C07.remove.rebuilds-term-map', len(rb) == 1 and order.index('rebuild') > order.index('remove') and ctx.valid(rb[0][1] == inner.attrs['items'].term)
                  and order.index('rebuild') < order.index('event'),
                  'the removed directory keeps its items alive: the term map must be rebuilt from the remaining directories (after the move)', use_lemmas=False)
    ex.run(remove, 'remove-directory')

    def partition(ctx: Ctx):
        """pure lemma (Z3): with the contracts above, add_shared_directory preserves
             PINV  every item lies under its owner, and every shared directory containing it is an ancestor of its owner (innermost owner)
             UNIQ  no two live items have the same absolute path"""
        P = z3.DeclareSort('Path')
        D = I
        anc = z3.Function('anc', P, P, B)
        dabs = z3.Function('dir_path', D, P)
        iabs = z3.Function('item_path', I, P)
        own = z3.Function('owner', I, D)                  # ghost: the directory whose items set holds the item (before)
        live = z3.Const('live', z3.SetSort(I))
        dirs = z3.Const('dirs', z3.SetSort(D))
        mem = z3.IsMember
        a, b, c = z3.Const('a', P), z3.Const('b', P), z3.Const('c', P)
        d_, e_ = z3.Const('d', D), z3.Const('e', D)
        i_, j_ = z3.Const('i', I), z3.Const('j', I)
        ctx.lemma(z3.ForAll([a], anc(a, a)))
        ctx.lemma(z3.ForAll([a, b, c], z3.Implies(z3.And(anc(a, b), anc(b, c)), anc(a, c))))
        ctx.lemma(z3.ForAll([a, b], z3.Implies(z3.And(anc(a, b), anc(b, a)), a == b)))
        ctx.lemma(z3.ForAll([a, b, c], z3.Implies(z3.And(anc(a, c), anc(b, c)), z3.Or(anc(a, b), anc(b, a)))))      # ancestors of a path form a chain
        ctx.lemma(z3.ForAll([d_, e_], z3.Implies(z3.And(mem(d_, dirs), mem(e_, dirs), dabs(d_) == dabs(e_)), d_ == e_)))
        # before: PINV and UNIQ
        ctx.lemma(z3.ForAll([i_], z3.Implies(mem(i_, live), z3.And(mem(own(i_), dirs), anc(dabs(own(i_)), iabs(i_))))))
        ctx.lemma(z3.ForAll([i_, e_], z3.Implies(z3.And(mem(i_, live), mem(e_, dirs), anc(dabs(e_), iabs(i_))), anc(dabs(e_), dabs(own(i_))))))
        ctx.lemma(z3.ForAll([i_, j_], z3.Implies(z3.And(mem(i_, live), mem(j_, live), iabs(i_) == iabs(j_)), i_ == j_)))
        new = z3.Const('new', D)
        ctx.assume(z3.Not(mem(new, dirs)))
        ctx.lemma(z3.ForAll([e_], z3.Implies(mem(e_, dirs), dabs(e_) != dabs(new))))                                 # C07.add.rejects-shared
        has_parent = z3.Const('has_parent', B)
        par = z3.Const('parent', D)
        # C07.dirs._get_parent_directories + sorted-by-depth + A-ospath (a longer ancestor of the same path is deeper): parents[-1] is the innermost one
        ctx.lemma(z3.Implies(has_parent, z3.And(mem(par, dirs), anc(dabs(par), dabs(new)),
                                                z3.ForAll([e_], z3.Implies(z3.And(mem(e_, dirs), anc(dabs(e_), dabs(new))), anc(dabs(e_), dabs(par)))))))
        ctx.lemma(z3.Implies(z3.Not(has_parent), z3.ForAll([e_], z3.Implies(mem(e_, dirs), z3.Not(anc(dabs(e_), dabs(new)))))))
        # after: children = {i in items(par) | new contains i} are replaced by mv(i) (C07.move.item + A-ospath: same absolute path), owned by new
        mv = z3.Function('moved', I, I)
        pre = z3.Function('moved_from', I, I)
        child = lambda x: z3.And(has_parent, mem(x, live), own(x) == par, anc(dabs(new), iabs(x)))      # noqa
        live2 = z3.Const('live2', z3.SetSort(I))
        own2 = z3.Function('owner2', I, D)
        ctx.lemma(z3.ForAll([i_], z3.Implies(mem(i_, live2), z3.Or(z3.And(mem(i_, live), z3.Not(child(i_)), own2(i_) == own(i_)),
                                                                   z3.And(child(pre(i_)), i_ == mv(pre(i_)), own2(i_) == new, z3.Not(mem(i_, live)))))))
        ctx.lemma(z3.ForAll([i_], z3.Implies(child(i_), z3.And(iabs(mv(i_)) == iabs(i_)))))
        dirs2 = z3.SetAdd(dirs, new)
        x, y = z3.Const('x', I), z3.Const('y', I)
        e0 = z3.Const('e0', D)
        ctx.assume(z3.And(mem(x, live2), mem(y, live2), mem(e0, dirs2)))
        ctx.prove('C07.partition.add.vacuity-guard', ctx.consistent(), 'the hypotheses of the partition lemma are contradictory', use_lemmas=False)
        ctx.prove('C07.partition.add.owner-contains', z3.And(mem(own2(x), dirs2), anc(dabs(own2(x)), iabs(x))), 'after add_shared_directory an item does not lie under its owner')
        ctx.prove('C07.partition.add.owner-innermost', z3.Implies(anc(dabs(e0), iabs(x)), anc(dabs(e0), dabs(own2(x)))),
                  'after add_shared_directory an item is not owned by the innermost shared directory containing it')
        ctx.prove('C07.partition.add.unique', z3.Implies(iabs(x) == iabs(y), x == y), 'after add_shared_directory a file is indexed twice')
    ex.run(partition, 'partition-add')

    def partition_remove(ctx: Ctx):
        """pure lemma (Z3): remove_shared_directory preserves PINV and UNIQ (items of the removed directory are re-created for the innermost
        remaining parent, or leave the index when there is none)"""
        P = z3.DeclareSort('Path')
        D = I
        anc = z3.Function('anc', P, P, B)
        dabs = z3.Function('dir_path', D, P)
        iabs = z3.Function('item_path', I, P)
        own = z3.Function('owner', I, D)
        live = z3.Const('live', z3.SetSort(I))
        dirs = z3.Const('dirs', z3.SetSort(D))
        mem = z3.IsMember
        a, b, c = z3.Const('a', P), z3.Const('b', P), z3.Const('c', P)
        d_, e_ = z3.Const('d', D), z3.Const('e', D)
        i_, j_ = z3.Const('i', I), z3.Const('j', I)
        ctx.lemma(z3.ForAll([a], anc(a, a)))
        ctx.lemma(z3.ForAll([a, b, c], z3.Implies(z3.And(anc(a, b), anc(b, c)), anc(a, c))))
        ctx.lemma(z3.ForAll([a, b], z3.Implies(z3.And(anc(a, b), anc(b, a)), a == b)))
        ctx.lemma(z3.ForAll([a, b, c], z3.Implies(z3.And(anc(a, c), anc(b, c)), z3.Or(anc(a, b), anc(b, a)))))
        ctx.lemma(z3.ForAll([d_, e_], z3.Implies(z3.And(mem(d_, dirs), mem(e_, dirs), dabs(d_) == dabs(e_)), d_ == e_)))
        ctx.lemma(z3.ForAll([i_], z3.Implies(mem(i_, live), z3.And(mem(own(i_), dirs), anc(dabs(own(i_)), iabs(i_))))))
        ctx.lemma(z3.ForAll([i_, e_], z3.Implies(z3.And(mem(i_, live), mem(e_, dirs), anc(dabs(e_), iabs(i_))), anc(dabs(e_), dabs(own(i_))))))
        ctx.lemma(z3.ForAll([i_, j_], z3.Implies(z3.And(mem(i_, live), mem(j_, live), iabs(i_) == iabs(j_)), i_ == j_)))
        gone = z3.Const('removed', D)
        ctx.assume(mem(gone, dirs))
        dirs2 = z3.SetDel(dirs, gone)
        has_parent = z3.Const('has_parent', B)
        par = z3.Const('parent', D)
        ctx.lemma(z3.Implies(has_parent, z3.And(mem(par, dirs2), anc(dabs(par), dabs(gone)),
                                                z3.ForAll([e_], z3.Implies(z3.And(mem(e_, dirs2), anc(dabs(e_), dabs(gone))), anc(dabs(e_), dabs(par)))))))
        ctx.lemma(z3.Implies(z3.Not(has_parent), z3.ForAll([e_], z3.Implies(mem(e_, dirs2), z3.Not(anc(dabs(e_), dabs(gone)))))))
        mv = z3.Function('moved', I, I)
        pre = z3.Function('moved_from', I, I)
        moved = lambda x: z3.And(mem(x, live), own(x) == gone)      # noqa
        live2 = z3.Const('live2', z3.SetSort(I))
        own2 = z3.Function('owner2', I, D)
        ctx.lemma(z3.ForAll([i_], z3.Implies(mem(i_, live2), z3.Or(z3.And(mem(i_, live), z3.Not(moved(i_)), own2(i_) == own(i_)),
                                                                   z3.And(has_parent, moved(pre(i_)), i_ == mv(pre(i_)), own2(i_) == par, z3.Not(mem(i_, live)))))))
        ctx.lemma(z3.ForAll([i_], z3.Implies(moved(i_), iabs(mv(i_)) == iabs(i_))))
        x, y = z3.Const('x', I), z3.Const('y', I)
        e0 = z3.Const('e0', D)
        ctx.assume(z3.And(mem(x, live2), mem(y, live2), mem(e0, dirs2)))
        ctx.prove('C07.partition.remove.vacuity-guard', ctx.consistent(), 'the hypotheses of the partition lemma are contradictory', use_lemmas=False)
        ctx.prove('C07.partition.remove.owner-contains', z3.And(mem(own2(x), dirs2), anc(dabs(own2(x)), iabs(x))))
        ctx.prove('C07.partition.remove.owner-innermost', z3.Implies(anc(dabs(e0), iabs(x)), anc(dabs(e0), dabs(own2(x)))))
        ctx.prove('C07.partition.remove.unique', z3.Implies(iabs(x) == iabs(y), x == y))
    ex.run(partition_remove, 'partition-remove')


# ---------------------------------------------------------------------------
# scan_directory: the walk over the file system

SCAND = f'{MGR}:scan_directory'


def prove_scan_directory(src_root, ex: Explorer):
    def walk(ctx: Ctx):
        """scan_directory(d, children), one ARBITRARY directory of the walk: it is skipped iff some child shared directory is an
        ancestor-or-self of its normalised absolute path; otherwise every file whose modification time can be read becomes an item owned
        by d with subdir = relpath(directory, d) ('' for d itself), and nothing else is added"""
        it = mk(src_root, ctx)
        install_paths(it, ctx)
        ABSN = z3.Function('normalised_absolute', S, S)
        REL = z3.Function('relpath', S, S, S)
        MTIME = z3.Function('mtime', S, z3.RealSort())
        it.natives['os.path.abspath'] = Native('abspath', lambda it2, a, k: ('abspath', a[0]))
        it.natives['os.path.normpath'] = Native('normpath', lambda it2, a, k: Sym(ABSN(z3str(unbox(a[0][1]))), 'str') if isinstance(a[0], tuple) and a[0][0] == 'abspath'
                                                else (_ for _ in ()).throw(Unsupported('normpath of something else')))
        it.natives['os.path.relpath'] = Native('relpath', lambda it2, a, k: Sym(REL(z3str(unbox(a[0])), z3str(unbox(a[1]))), 'str'))
        fails = ctx.choose(2, 'getmtime-fails') == 1

        def getmtime(it2, a, k):
            if fails:
                it2.throw('OSError', 'gone')
            return Sym(MTIME(z3str(unbox(a[0]))), 'real')
        it.natives['os.path.getmtime'] = Native('getmtime', getmtime)
        it.natives['os.path.join'] = Native('join', lambda it2, a, k: Sym(z3.Concat(z3str(unbox(a[0])), z3.StringVal('/'), z3str(unbox(a[1]))), 'str'))
        dabs = ctx.fresh_str('shared_abs')
        d = new(it, SMODEL_SHARES, 'SharedDirectory', absolute_path=Sym(dabs, 'str'), directory='d', alias='ddddd')
        cabs = ctx.fresh_str('child_abs')
        child = new(it, SMODEL_SHARES, 'SharedDirectory', absolute_path=Sym(cabs, 'str'), directory='c', alias='ccccc')

        class Children:
            def pyvc_truth(self, it2):
                return True

            def pyvc_iter(self, it2, loop):
                raise Unsupported('iteration over the child directories without a contract')
        children = Children()
        UNDER = z3.Function('under_a_child_shared_directory', S, B)
        directory, filename = ctx.fresh_str('directory'), ctx.fresh_str('filename')

        class Walk:
            def pyvc_iter(self, it2, loop):
                raise Unsupported('os.walk without a contract')
        walked = []
        it.natives['os.walk'] = Native('os.walk', lambda it2, a, k: (walked.append(a[0]), Walk())[1])

        class Files:
            def pyvc_iter(self, it2, loop):
                raise Unsupported('files without a contract')
        files = Files()
        added = []

        class Acc:
            def pyvc_getattr(self, it2, name):
                if name == 'add':
                    return Native('add', lambda it3, a, k: added.append(a[0]))
                raise Unsupported(name)

        def comp_any(it2, node, env):
            src = it2.eval(node.generators[0].iter, env)
            cenv = _child_env(env)
            it2.assign(node.generators[0].target, child, cenv)
            v = it2.truth(it2.eval(node.elt, cenv))
            ctx.prove('C07.scan_directory.child-test', src is children and not node.generators[0].ifs and ctx.valid(v == ANC(cabs, ABSN(directory))),
                      'a walked directory must be tested against every child shared directory by ANCESTRY of its normalised absolute path', use_lemmas=False)
            return SkipTest()

        class SkipTest:
            pass
        orig_any = it.natives['builtins.any']
        it.natives['builtins.any'] = Native('builtins.any', lambda it2, a, k: Sym(UNDER(ABSN(directory)), 'bool') if isinstance(a[0], SkipTest) else orig_any.fn(it2, a, k))
        it.comp_specs[(SCAND, 0)] = comp_any
        state = {}

        def outer(it2, node, env):
            it2.eval(node.iter, env)
            acc = [k for k, v in env.vars.items() if isinstance(v, set) and not v]
            ctx.prove('C07.scan_directory.walks-directory', len(walked) == 1 and ctx.valid(z3str(unbox(walked[0])) == dabs) and len(acc) == 1, use_lemmas=False)
            if len(acc) != 1:
                raise PathAbort()
            env.vars[acc[0]] = Acc()
            state['acc'] = env.vars[acc[0]]
            it2.assign(node.target, (Sym(directory, 'str'), Stub('subdirs'), files), env)
            try:
                it2.exec_block(node.body, env)
            except ContinueEx:
                state['skipped'] = True

        def inner(it2, node, env):
            if it2.eval(node.iter, env) is not files:
                raise Unsupported('inner loop: iteration space')
            it2.assign(node.target, Sym(filename, 'str'), env)
            try:
                it2.exec_block(node.body, env)
            except ContinueEx:
                pass
            state['inner'] = True
        it.loop_specs[(SCAND, 0)] = outer
        it.loop_specs[(SCAND, 1)] = inner
        r = it.call(func(it, MGR, 'scan_directory'), [d], {'children': children})
        ctx.prove('C07.scan_directory.returns-items', r is state.get('acc'), use_lemmas=False)
        under = UNDER(ABSN(directory))
        if state.get('skipped'):
            ctx.prove('C07.scan_directory.skips-only-children', ctx.valid(under) and not added,
                      'only directories under a child shared directory may be skipped', use_lemmas=False)
            return
        ctx.prove('C07.scan_directory.children-excluded', ctx.valid(z3.Not(under)),
                  'the files of a directory that lies under a child shared directory are indexed for the parent as well', use_lemmas=False)
        if fails:
            ctx.prove('C07.scan_directory.unreadable-skipped', state.get('inner') and not added, use_lemmas=False)
            return
        ok = state.get('inner') and len(added) == 1 and isinstance(added[0], Obj) and added[0].cls.name == 'SharedItem'
        if ok:
            n = added[0]
            rel = REL(directory, dabs)
            ok = (n.attrs['shared_directory'] is d and ctx.valid(z3str(unbox(n.attrs['filename'])) == filename)
                  and ctx.valid(z3str(unbox(n.attrs['subdir'])) == z3.If(rel == z3.StringVal('.'), z3.StringVal(''), rel))
                  and ctx.valid(unbox_real(n.attrs['modified']) == MTIME(z3.Concat(directory, z3.StringVal('/'), filename))))
        ctx.prove('C07.scan_directory.item', ok, 'each readable file must become one item owned by the scanned directory with its relative sub-directory, '
                  'name and modification time', use_lemmas=False)
    ex.run(walk, 'scan-directory')


def unbox_real(v):
    from pyvc.values import z3real
    return z3real(unbox(v))


class _MatchOrNone:
    """result of Pattern.search: a match object (truthy) or None, decided by the formula f"""

    def __init__(self, f):
        self.f = f

    def pyvc_truth(self, it2):
        return self.f

    def pyvc_is(self, it2, other):
        if other is None:
            return z3.Not(self.f)
        return NotImplemented


def prove_item_identity(src_root, ex: Explorer):
    """A-item: the index, the term map and the result sets are Python sets / dict values of SharedItem objects; the contracts identify an
    item with the file it denotes.  That is sound only if equality (and the hash) of SharedItem separates different files: the fields that
    take part in the comparison must determine the absolute path - the owning shared directory (whose own comparison includes its
    absolute path), the sub directory and the file name.  Read from the dataclass declarations; a hand-written __eq__ / __hash__ is outside
    this reading (undecided)."""
    import ast
    from contracts.common import source
    src, _ = source(src_root)
    mod = src.module('shares.model')

    def compare_fields(cname):
        c = [n for n in mod.tree.body if isinstance(n, ast.ClassDef) and n.name == cname]
        if not c:
            raise Unsupported(f'class {cname} not found')
        c = c[0]
        if any(isinstance(n, ast.FunctionDef) and n.name in ('__eq__', '__hash__') for n in c.body):
            raise Unsupported(f'{cname} defines its own __eq__ / __hash__')
        deco = [d for d in c.decorator_list if 'dataclass' in ast.unparse(d)]
        if not deco:
            raise Unsupported(f'{cname} is not a dataclass')
        dkw = {k.arg: ast.unparse(k.value) for k in deco[0].keywords} if isinstance(deco[0], ast.Call) else {}
        if dkw.get('eq') == 'False':
            return None
        out = set()
        for st in c.body:
            if isinstance(st, ast.AnnAssign) and isinstance(st.target, ast.Name) and 'ClassVar' not in ast.unparse(st.annotation):
                cmp_ = True
                if isinstance(st.value, ast.Call) and ast.unparse(st.value.func) in ('field', 'dataclasses.field'):
                    for k in st.value.keywords:
                        if k.arg == 'compare' and ast.unparse(k.value) == 'False':
                            cmp_ = False
                        if k.arg == 'hash' and ast.unparse(k.value) == 'False' and not any(k2.arg == 'compare' for k2 in st.value.keywords):
                            pass
                if cmp_:
                    out.add(st.target.id)
        return out

    def path(ctx: Ctx):
        item_f, dir_f = compare_fields('SharedItem'), compare_fields('SharedDirectory')
        ctx.prove('C07.item.equality-separates-files', item_f is not None and {'shared_directory', 'subdir', 'filename'} <= item_f
                  and dir_f is not None and 'absolute_path' in dir_f,
                  f'SharedItem compares {sorted(item_f or [])}, SharedDirectory compares {sorted(dir_f or [])}: two different files (same relative '
                  'path in two shared directories) can be equal, so sets and the term map keep only one of them')
    ex.run(path, 'item-identity')


def items(src_root, tier):
    return [('identity', None), ('query', None), ('termmap', None), ('scan', None), ('parse', None), ('dirs', None), ('scan-directory', None), ('lemma', None)]


def run_item(src_root, item, tier):
    res = std_result('C07')
    ex = Explorer()
    kind, arg = item
    try:
        if kind == 'lemma':
            prove_lemma_bounded(src_root, ex, tier)
        else:
            {'query': prove_query, 'termmap': prove_termmap, 'scan': prove_scan, 'parse': prove_parse, 'dirs': prove_dirs, 'scan-directory': prove_scan_directory,
             'identity': prove_item_identity}[kind](src_root, ex)
    except Unsupported as e:
        res.errors.append(f'{kind}: unsupported: {e}')
    collect(res, ex)
    res.functions.update([QUERY])
    return res
