"""C16 -- session life cycle: login advertises settings, loss resets, stop is final.  DESIGN.md section 4 / C16."""
from __future__ import annotations
import ast

import z3

from pyvc.ctx import Ctx, Explorer, Unsupported, PathAbort
from pyvc.interp import Interp, CoroVal
from pyvc.values import (Sym, Obj, PyRaise, Native, Bound, ExcVal, EnumMember, Opaque, unbox, z3int, z3str, BUILTIN_CLASSES)
from pyvc import natives as N
from pyvc import aio as A
from contracts.common import (source, mk, cls, func, new, run, enum, Recorder, Stub, collect, std_result)

CLIENT = 'client'
NET = 'network.network'
CONN = 'network.connection'
MSG = 'protocol.messages'

ASSUMPTIONS = [
    'the ghost trace sent[server] (messages handed to send_server_messages) is the hand-over point',
    'list-valued settings (friends, interests, favourites) are enumerated with 0..2 entries (obligations labelled [bounded]); scalar settings are symbolic / enumerated exhaustively',
    'A-asyncio, A-atomic; BackgroundTask.cancel cancels its task (C16.BackgroundTask.*)',
    'C15 turns a TRACK(FRIEND) request into AddUser; C13 covers the distributed handler of SessionInitialized',
]
TRUSTED_BASE = ['pyvc engine', 'abstract asyncio model', 'static enumeration of task-creation sites by AST scan']
NOT_DECIDED = ['"an unrequested loss LEADS TO a new connection and login" (liveness of the watchdog)',
               'garbled login replies beyond "an exception is raised and no session exists"',
               'the untracked task asyncio.create_task(self.shares.scan()) started by start() when scan_on_start is set',
               'peer-connection tasks cancelled by Network.disconnect are not awaited by stop() (they finish their cancellation in the next loop iterations)']


def server_world(it, ctx):
    sent = []
    net = Stub('network', send_server_messages=Recorder('send_server_messages', fn=lambda it2, a, k: sent.extend(a), is_async=True))
    return net, sent


def quals(msgs):
    return [m.cls.qual for m in msgs]


# ---------------------------------------------------------------------------

def prove_login(src_root, ex: Explorer):
    outcomes = ['success', 'rejected', 'not-a-login-response', 'eof']

    def path(ctx: Ctx):
        it = mk(src_root, ctx)
        oc = outcomes[ctx.choose(len(outcomes), 'reply')]
        order = []
        resp = new(it, MSG, 'Login.Response', success=(oc == 'success'), greeting='hi', ip='1.2.3.4', md5hash='x', privileged=False,
                   reason=None if oc == 'success' else 'INVALIDPASS')
        reply = {'success': resp, 'rejected': resp, 'not-a-login-response': new(it, MSG, 'Ping.Response'), 'eof': None}[oc]
        sc = Stub('server_connection', receive_message_object=Recorder('receive', fn=lambda it2, a, k: order.append('receive') or reply, is_async=True),
                  start_reader_task=Recorder('start_reader', fn=lambda it2, a, k: order.append('start-reader')))
        sent = []
        net = Stub('network', server_connection=sc,
                   send_server_messages=Recorder('send', fn=lambda it2, a, k: (sent.extend(a), order.append('send'))[0], is_async=True))
        user = Stub('user', name='me')
        client = new(it, CLIENT, 'SoulSeekClient', network=net, session=None,
                     settings=Stub('settings', credentials=Stub('credentials', username='me', password='pw')),
                     users=Stub('users', get_user_object=Recorder('get_user_object', ret=user)))
        emitted = []
        client.attrs['events'] = Stub('events', emit=Recorder('emit', fn=lambda it2, a, k: (emitted.append((a[0], client.attrs['session'])), order.append('emit'))[0], is_async=True))
        it.hooks['protocol.primitives:calc_md5'] = lambda it2, f, a, k: 'MD5'
        it.natives['datetime.datetime.now'] = Native('now', lambda it2, a, k: Opaque('now'))
        try:
            run(it, it.getattr(client, 'login'))
            raised = None
        except PyRaise as pr:
            raised = pr.exc.cls.name
        ctx.prove(f'C16.login.request[{oc}]', quals(sent) == ['Login.Request'] and sent[0].attrs['username'] == 'me' and order[:2] == ['send', 'receive'])
        if oc == 'success':
            s = client.attrs['session']
            ok = raised is None and isinstance(s, Obj) and s.attrs['user'] is user and len(emitted) == 1 and emitted[0][0].cls.name == 'SessionInitializedEvent' \
                and emitted[0][0].attrs['session'] is s and emitted[0][1] is s
            ctx.prove('C16.login.session', ok, 'a session exists and exactly one SessionInitializedEvent carries it')
            ctx.prove('C16.login.order', order == ['send', 'receive', 'emit', 'start-reader'], f'{order}: the reader starts only after the session event was delivered')
        else:
            want = 'AuthenticationError' if oc == 'rejected' else 'AioSlskException'
            ctx.prove(f'C16.login.refused[{oc}]', raised == want and client.attrs['session'] is None and not emitted and 'start-reader' not in order, f'raised {raised}')
    ex.run(path, 'login')


def prove_network_ports(src_root, ex: Explorer):
    states = ['none', 'CONNECTED', 'CLOSED']

    def path(ctx: Ctx):
        it = mk(src_root, ctx)
        a, b = states[ctx.choose(3, 'clear')], states[ctx.choose(3, 'obfuscated')]

        def lc(st, port):
            if st == 'none':
                return None
            return new(it, CONN, 'ListeningConnection', port=port, state=enum(it, CONN, 'ConnectionState', st))
        sent = []
        net = new(it, NET, 'Network', listening_connections=(lc(a, 1000), lc(b, 1001)))
        it.hooks[f'{NET}:Network.send_server_messages'] = lambda it2, f, aa, k: A.SimpleAwaitable(it2.aio, 'send', lambda it3: sent.extend(aa[1:]))
        run(it, it.getattr(net, '_on_session_initialized'), Stub('event'))
        p = 1000 if a == 'CONNECTED' else 0
        o = 1001 if b == 'CONNECTED' else 0
        ok = quals(sent) == ['SetListenPort.Request'] and sent[0].attrs['port'] == p and sent[0].attrs['obfuscated_port'] == o \
            and sent[0].attrs['obfuscated_port_amount'] == (1 if o else 0)
        ctx.prove(f'C16.login.told#SetListenPort[clear={a},obfuscated={b}]', ok, f'{[(m.cls.qual, m.attrs) for m in sent]}')
    ex.run(path, 'ports')


def prove_user_session(src_root, ex: Explorer):
    def path(ctx: Ctx):
        it = mk(src_root, ctx)
        net, sent = server_world(it, ctx)
        n = ctx.choose(3, 'friends')
        friends = ['f0', 'f1'][:n]
        tracked = []
        me = new(it, 'user.model', 'User', name='me', status=enum(it, 'user.model', 'UserStatus', 'UNKNOWN'))
        um = new(it, 'user.manager', 'UserManager', _network=net, _settings=Stub('settings', users=Stub('users', friends=friends)), _session=None)
        it.hooks['user.manager:UserManager.track_user'] = lambda it2, f, a, k: A.SimpleAwaitable(it2.aio, 'track', lambda it3: tracked.append((a[1], a[2].name if len(a) > 2 else k.get('flag').name)))
        it.hooks['user.manager:UserManager.get_self'] = lambda it2, f, a, k: me
        sess = Stub('session', user=me)
        run(it, it.getattr(um, '_on_session_initialized'), Stub('event', session=sess))
        ok = quals(sent) == ['CheckPrivileges.Request', 'SetStatus.Request'] and sent[1].attrs['status'] == 2 and um.attrs['_session'] is sess \
            and me.attrs['status'].name == 'ONLINE'
        ctx.prove('C16.login.told#status', ok, f'{quals(sent)}')
        ctx.prove('C16.login.told#friends[bounded]', sorted(tracked) == sorted([('me', 'FRIEND')] + [(f, 'FRIEND') for f in friends]), f'{tracked}')
    ex.run(path, 'user-session')


def prove_room_session(src_root, ex: Explorer):
    def path(ctx: Ctx):
        it = mk(src_root, ctx)
        net, sent = server_world(it, ctx)
        auto = ctx.choose(2, 'auto_join') == 1
        invites = ctx.choose(2, 'invites') == 1
        n = ctx.choose(3, 'favorites')
        favs = ['jazz', 'rock'][:n]
        rm = new(it, 'room.manager', 'RoomManager', _network=net,
                 _settings=Stub('settings', rooms=Stub('rooms', auto_join=auto, private_room_invites=invites, favorites=favs)))
        run(it, it.getattr(rm, '_on_session_initialized'), Stub('event'))
        tg = [m for m in sent if m.cls.qual == 'TogglePrivateRoomInvites.Request']
        joins = [m.attrs['room'] for m in sent if m.cls.qual == 'JoinRoom.Request']
        ctx.prove(f'C16.login.told#invites[{invites}]', len(tg) == 1 and tg[0].attrs['enable'] is invites)
        ctx.prove(f'C16.login.told#JoinRoom[auto_join={auto},favorites={n}][bounded]' if n else f'C16.login.told#JoinRoom[auto_join={auto},favorites=0]',
                  joins == (favs if auto else []),
                  f'auto_join={auto}: JoinRoom sent for {joins}, favourites {favs}: the favourite rooms are rejoined iff automatic rejoin is enabled')
    ex.run(path, 'room-session')


def prove_interest_session(src_root, ex: Explorer):
    def path(ctx: Ctx):
        it = mk(src_root, ctx)
        net, sent = server_world(it, ctx)
        nl, nh = ctx.choose(3, 'liked'), ctx.choose(3, 'hated')
        liked, hated = ['l0', 'l1'][:nl], ['h0', 'h1'][:nh]
        im = new(it, 'interest.manager', 'InterestManager', _network=net, _settings=Stub('settings', interests=Stub('interests', liked=liked, hated=hated)))
        run(it, it.getattr(im, '_on_session_initialized'), Stub('event'))
        l = [m.attrs['interest'] for m in sent if m.cls.qual == 'AddInterest.Request']
        h = [m.attrs['hated_interest'] for m in sent if m.cls.qual == 'AddHatedInterest.Request']
        ctx.prove('C16.login.told#interests[bounded]', l == liked and h == hated and len(sent) == nl + nh, f'{quals(sent)}')
    ex.run(path, 'interest-session')


def prove_shares_session(src_root, ex: Explorer):
    def path(ctx: Ctx):
        it = mk(src_root, ctx)
        net, sent = server_world(it, ctx)
        fo, fi = Sym(ctx.fresh_int('folders'), 'int'), Sym(ctx.fresh_int('files'), 'int')
        sm = new(it, 'shares.manager', 'SharesManager', _network=net, _session=None)
        it.hooks['shares.manager:SharesManager.get_stats'] = lambda it2, f, a, k: (fo, fi)
        sess = Stub('session')
        run(it, it.getattr(sm, '_on_session_initialized'), Stub('event', session=sess))
        ok = quals(sent) == ['SharedFoldersFiles.Request'] and sent[0].attrs['shared_folder_count'] is fo and sent[0].attrs['shared_file_count'] is fi
        ctx.prove('C16.login.told#shares', ok)
    ex.run(path, 'shares-session')


def prove_destroy(src_root, ex: Explorer):
    def path(ctx: Ctx):
        it = mk(src_root, ctx)
        server = ctx.choose(2, 'server') == 1
        st = ['CLOSED', 'CLOSING', 'CONNECTED'][ctx.choose(3, 'state')]
        has = ctx.choose(2, 'session') == 1
        sess = Stub('session')
        client = new(it, CLIENT, 'SoulSeekClient', session=sess if has else None)
        emitted = []
        client.attrs['events'] = Stub('events', emit=Recorder('emit', fn=lambda it2, a, k: emitted.append((a[0], client.attrs['session'])), is_async=True))
        conn = Obj(cls(it, CONN, 'ServerConnection' if server else 'PeerConnection'))
        ev = Stub('event', connection=conn, state=enum(it, CONN, 'ConnectionState', st))
        run(it, it.getattr(client, '_on_connection_state_changed'), ev)
        run(it, it.getattr(client, '_on_connection_state_changed'), ev)        # a second report of the same state
        tag = f'{"server" if server else "peer"},{st},{"session" if has else "no-session"}'
        if server and st == 'CLOSED' and has:
            ok = len(emitted) == 1 and emitted[0][0].cls.name == 'SessionDestroyedEvent' and emitted[0][0].attrs['session'] is sess \
                and emitted[0][1] is None and client.attrs['session'] is None
            ctx.prove(f'C16.destroy.once[{tag}]', ok, 'read-and-clear of the session in one atomic section: exactly one SessionDestroyedEvent per session')
        else:
            ctx.prove(f'C16.destroy.once[{tag}]', not emitted and client.attrs['session'] is (sess if has else None))
    ex.run(path, 'destroy')

    def resets(ctx: Ctx):
        it = mk(src_root, ctx)
        closed = Stub('event', connection=Obj(cls(it, CONN, 'ServerConnection')), state=enum(it, CONN, 'ConnectionState', 'CLOSED'))
        um = new(it, 'user.manager', 'UserManager', _users={'x': 1}, _privileged_users={'x'})
        it.natives['weakref.WeakValueDictionary'] = Native('WVD', lambda it2, a, k: {})
        run(it, it.getattr(um, '_on_state_changed'), closed)
        ctx.prove('C16.reset.users', len(um.attrs['_users']) == 0 and len(um.attrs['_privileged_users']) == 0)
        rm = new(it, 'room.manager', 'RoomManager', _rooms={'r': 1})
        run(it, it.getattr(rm, '_on_state_changed'), closed)
        ctx.prove('C16.reset.rooms', rm.attrs['_rooms'] == {})
        dn = new(it, 'distributed', 'DistributedNetwork', parent_min_speed=1, parent_speed_ratio=2, distributed_alive_interval=3,
                 min_parents_in_cache=4, parent_inactivity_timeout=5)
        run(it, it.getattr(dn, '_on_state_changed'), closed)
        ctx.prove('C16.reset.distributed', all(dn.attrs[k] is None for k in ('parent_min_speed', 'parent_speed_ratio', 'distributed_alive_interval',
                                                                             'min_parents_in_cache', 'parent_inactivity_timeout')))
    ex.run(resets, 'resets')


class BT:
    """recording stand-in for a BackgroundTask"""

    def __init__(self, name):
        self.name = name
        self.started = 0
        self.cancelled = 0

    def pyvc_getattr(self, it, name):
        if name == 'start':
            return Native('start', lambda it2, a, k: setattr(self, 'started', self.started + 1))
        if name == 'cancel':
            return Native('cancel', lambda it2, a, k: setattr(self, 'cancelled', self.cancelled + 1))
        raise Unsupported(f'BackgroundTask.{name}')


def prove_watchdog(src_root, ex: Explorer):
    reasons = ['UNKNOWN', 'CONNECT_FAILED', 'REQUESTED', 'READ_ERROR', 'WRITE_ERROR', 'TIMEOUT', 'EOF']

    def table(ctx: Ctx):
        it = mk(src_root, ctx)
        auto, upnp = ctx.choose(2, 'auto') == 1, ctx.choose(2, 'upnp') == 1
        st = ['CONNECTING', 'CONNECTED', 'CLOSING', 'CLOSED'][ctx.choose(4, 'state')]
        reason = reasons[ctx.choose(len(reasons), 'reason')]
        wd, up = BT('watchdog'), BT('upnp')
        net = new(it, NET, 'Network', _connection_watchdog_task=wd, _upnp_task=up,
                  _settings=Stub('settings', network=Stub('network', upnp=Stub('upnp', enabled=upnp),
                                                          server=Stub('server', reconnect=Stub('reconnect', auto=auto)))))
        run(it, it.getattr(net, '_on_server_connection_state_changed'), enum(it, CONN, 'ConnectionState', st), Obj(cls(it, CONN, 'ServerConnection')),
            close_reason=enum(it, CONN, 'CloseReason', reason))
        tag = f'{st},{reason},auto={auto}'
        want_start = 1 if (st == 'CONNECTED' and auto) else 0
        want_cancel = 1 if (st == 'CLOSING' and reason in ('REQUESTED', 'EOF')) else 0
        ctx.prove(f'C16.watchdog.table[{tag}]', wd.started == want_start and wd.cancelled == want_cancel,
                  f'started {wd.started} cancelled {wd.cancelled}: started on CONNECTED iff auto-reconnect; stopped on a requested disconnect or a server-side EOF, never otherwise')
    ex.run(table, 'watchdog-table')

    def job(ctx: Ctx):
        it = mk(src_root, ctx)
        st = ['CLOSED', 'CONNECTED', 'CONNECTING', 'CLOSING'][ctx.choose(4, 'state')]
        creds = ctx.choose(2, 'credentials') == 1
        fails = ctx.choose(2, 'connect-fails') == 1
        sc = Stub('server_connection', state=enum(it, CONN, 'ConnectionState', st))
        connects, emitted = [], []

        def connect(it2, f, a, k):
            def body(it3):
                connects.append(1)
                if fails:
                    raise PyRaise(ExcVal(cls(it3, 'exceptions', 'ConnectionFailedError'), ('x',)))
            return A.SimpleAwaitable(it2.aio, 'connect_server', body)
        it.hooks[f'{NET}:Network.connect_server'] = connect
        net = new(it, NET, 'Network', server_connection=sc,
                  _event_bus=Stub('bus', emit=Recorder('emit', fn=lambda it2, a, k: emitted.append(a[0].cls.name), is_async=True)),
                  _settings=Stub('settings', credentials=Stub('credentials', are_configured=Recorder('are_configured', ret=creds)),
                                 network=Stub('network', server=Stub('server', reconnect=Stub('reconnect', timeout=5)))))
        # the state the previous run of the job saw: nothing yet, the same state (e.g. CLOSED again after a FAILED reconnect attempt:
        # the job must try again, for ever) or another one
        last = ['none', 'same', 'other'][ctx.choose(3, 'last-seen-state')]
        last_state = {'none': None, 'same': sc.attrs['state'], 'other': enum(it, CONN, 'ConnectionState', 'CONNECTED' if st != 'CONNECTED' else 'CLOSED')}[last]
        ctxo = Stub('context', last_state=last_state)
        run(it, it.getattr(net, '_server_connection_watchdog_job'), ctxo)
        should = st == 'CLOSED' and creds
        tag = f'{st},credentials={creds},{"fails" if fails else "ok"},last={last}'
        ctx.prove(f'C16.watchdog.job[{tag}]', len(connects) == (1 if should else 0) and emitted == (['ServerReconnectedEvent'] if should and not fails else []),
                  'the watchdog reconnects only from CLOSED and only with credentials; a successful reconnect is announced once')
    ex.run(job, 'watchdog-job')

    def relogin(ctx: Ctx):
        it = mk(src_root, ctx)
        auto = ctx.choose(2, 'auto') == 1
        logins = []
        it.hooks[f'{CLIENT}:SoulSeekClient.login'] = lambda it2, f, a, k: A.SimpleAwaitable(it2.aio, 'login', lambda it3: logins.append(1))
        client = new(it, CLIENT, 'SoulSeekClient', settings=Stub('settings', network=Stub('network', server=Stub('server', reconnect=Stub('reconnect', auto=auto)))))
        run(it, it.getattr(client, '_on_server_reconnected'), Stub('event'))
        ctx.prove(f'C16.watchdog.relogin[auto={auto}]', len(logins) == (1 if auto else 0))
    ex.run(relogin, 'relogin')


def prove_stop(src_root, ex: Explorer, res):
    src, _ = source(src_root)

    # (1) every manager constructed by the client is stopped by stop()
    def services(ctx: Ctx):
        mod = src.module(CLIENT)
        init = [n for n in ast.walk(mod.tree) if isinstance(n, ast.FunctionDef) and n.name == '__init__'][0]
        created, listed = [], []
        for st in ast.walk(init):
            if isinstance(st, (ast.Assign, ast.AnnAssign)):
                tg = st.targets[0] if isinstance(st, ast.Assign) else st.target
                val = st.value
                if isinstance(tg, ast.Attribute) and isinstance(val, ast.Call) and isinstance(val.func, ast.Attribute) and val.func.attr.startswith('create_'):
                    created.append(tg.attr)
                if isinstance(tg, ast.Attribute) and tg.attr == 'services' and isinstance(val, ast.List):
                    listed = [e.attr for e in val.elts if isinstance(e, ast.Attribute)]
        # which created attributes are BaseManager subclasses?  (the network is disconnected separately)
        it = mk(src_root, ctx)
        base = cls(it, 'base_manager', 'BaseManager')
        ccls = cls(it, CLIENT, 'SoulSeekClient')
        for attr in created:
            ann = None
            for st in ast.walk(init):
                if isinstance(st, ast.AnnAssign) and isinstance(st.target, ast.Attribute) and st.target.attr == attr:
                    ann = ast.unparse(st.annotation)
            if ann is None:
                continue
            try:
                c = it.module_global(mod, ann)
            except Unsupported:
                continue
            if it.is_subclass(c, base):
                ctx.prove(f'C16.stop.covers#services[{attr}]', attr in listed,
                          f'{ann} (self.{attr}) is constructed by the client but not in self.services: stop() never calls its stop(), its pending tasks survive stop()')
    ex.run(services, 'stop-services')

    # (2) Network.disconnect cancels every BackgroundTask the Network owns
    def network_tasks(ctx: Ctx):
        it = mk(src_root, ctx)
        mod = src.module(NET)
        ncls = [n for n in mod.tree.body if isinstance(n, ast.ClassDef) and n.name == 'Network'][0]
        init = [n for n in ncls.body if isinstance(n, ast.FunctionDef) and n.name == '__init__'][0]
        attrs = []
        for st in ast.walk(init):
            if isinstance(st, (ast.Assign, ast.AnnAssign)):
                tg = st.targets[0] if isinstance(st, ast.Assign) else st.target
                if isinstance(tg, ast.Attribute) and isinstance(st.value, ast.Call) and ast.unparse(st.value.func) == 'BackgroundTask':
                    attrs.append(tg.attr)
        bts = {a: BT(a) for a in attrs}
        t1 = A.TaskVal(it.aio, None, 'connect-to-peer-1')
        net = new(it, NET, 'Network', _create_peer_connection_tasks=[t1], **bts)
        it.call(it.getattr(net, '_cancel_all_tasks'), [], {})
        for a in attrs:
            ctx.prove(f'C16.stop.covers#Network.{a}', bts[a].cancelled >= 1,
                      f'Network.disconnect() (called by stop()) does not cancel {a}: it keeps running after stop() returned')
        ctx.prove('C16.stop.covers#Network._create_peer_connection_tasks', t1.cancel_requested)
        ctx.prove('C16.stop.covers#Network.scan-nonempty', len(attrs) >= 3)
    ex.run(network_tasks, 'stop-network')

    def network_disconnect(ctx: Ctx):
        it = mk(src_root, ctx)
        disc = []

        def mkc(label):
            return Stub(label, disconnect=Recorder('disconnect', fn=lambda it2, a, k: disc.append((label, a[0].name)), is_async=True))
        lcs = (mkc('listen-clear'), None) if ctx.choose(2, 'obf') == 0 else (mkc('listen-clear'), mkc('listen-obf'))
        peers = [mkc('peer0'), mkc('peer1')]
        cancelled = []
        net = new(it, NET, 'Network', server_connection=mkc('server'), peer_connections=peers, listening_connections=lcs)
        it.hooks[f'{NET}:Network._cancel_all_tasks'] = lambda it2, f, a, k: cancelled.append(1)
        run(it, it.getattr(net, 'disconnect'))
        want = {'server', 'peer0', 'peer1'} | {c._name for c in lcs if c}
        ctx.prove('C16.stop.network-disconnect', {d[0] for d in disc} == want and len(disc) == len(want) and all(d[1] == 'REQUESTED' for d in disc) and cancelled == [1],
                  f'{disc}')
    ex.run(network_disconnect, 'stop-network-disconnect')

    # (3) client.stop: network first, every service's stop, gathered
    def client_stop(ctx: Ctx):
        it = mk(src_root, ctx)
        order = []
        tasks = [A.TaskVal(it.aio, None, 't0'), A.TaskVal(it.aio, None, 't1')]
        for t in tasks:
            t.cancel_requested = True

        def svc(i):
            return Stub(f'svc{i}', stop=Recorder('stop', fn=lambda it2, a, k: order.append(f'stop{i}') or [tasks[i]], is_async=True),
                        store_data=Recorder('store', fn=lambda it2, a, k: order.append(f'store{i}'), is_async=True))
        client = new(it, CLIENT, 'SoulSeekClient', _stop_event=A.EventVal(it.aio), services=[svc(0), svc(1)],
                     network=Stub('network', disconnect=Recorder('disconnect', fn=lambda it2, a, k: order.append('disconnect'), is_async=True)))
        run(it, it.getattr(client, 'stop'))
        ctx.prove('C16.stop.client', order[:3] == ['disconnect', 'stop0', 'stop1'] and all(t.awaited for t in tasks) and {'store0', 'store1'} <= set(order),
                  f'{order}')
    ex.run(client_stop, 'client-stop')

    # (4) managers cancel the handles they own
    def search_stop(ctx: Ctx):
        it = mk(src_root, ctx)
        reply = A.TaskVal(it.aio, None, 'search-reply-1')
        wl = BT('wishlist')
        wl_task = A.TaskVal(it.aio, None, 'wishlist')

        class WL(BT):
            def pyvc_getattr(self2, it2, name):
                if name == 'cancel':
                    return Native('cancel', lambda it3, a, k: (setattr(self2, 'cancelled', 1), wl_task)[1])
                return BT.pyvc_getattr(self2, it2, name)
        wlt = WL('wishlist')
        timer_task = A.TaskVal(it.aio, None, 'request-timer')
        tcancel = []
        timer = Stub('timer', cancel=Recorder('cancel', fn=lambda it2, a, k: tcancel.append(1) or timer_task))
        req1 = new(it, 'search.model', 'SearchRequest', ticket=1, query='q', timer=timer, results=[])
        req2 = new(it, 'search.model', 'SearchRequest', ticket=2, query='q', timer=None, results=[])
        sm = new(it, 'search.manager', 'SearchManager', _search_reply_tasks=[reply], _wishlist_task=wlt, requests={1: req1, 2: req2})
        r = run(it, it.getattr(sm, 'stop'))
        ctx.prove('C16.stop.covers#SearchManager._search_reply_tasks', reply.cancel_requested and reply in r)
        ctx.prove('C16.stop.covers#SearchManager._wishlist_task', wlt.cancelled == 1 and wl_task in r)
        ctx.prove('C16.stop.covers#SearchManager.request-timers', tcancel == [1] and timer_task in r,
                  'stop() leaves the timeout timers of pending search requests armed: their tasks are still pending after stop() returned and fire later')
    ex.run(search_stop, 'search-stop')

    def transfer_stop(ctx: Ctx):
        it = mk(src_root, ctx)
        tt = A.TaskVal(it.aio, None, 'transfer-task')
        t = new(it, 'transfer.model', 'Transfer', _remotely_queue_task=None, _transfer_task=tt)
        pr_t, mg_t = A.TaskVal(it.aio, None, 'progress'), A.TaskVal(it.aio, None, 'management')

        class B(BT):
            def __init__(self2, name, task):
                BT.__init__(self2, name)
                self2.task = task

            def pyvc_getattr(self2, it2, name):
                if name == 'cancel':
                    return Native('cancel', lambda it3, a, k: (setattr(self2, 'cancelled', 1), self2.task)[1])
                return BT.pyvc_getattr(self2, it2, name)
        it.natives['asyncio.Queue'] = Native('Queue', lambda it2, a, k: Opaque('queue'))
        tm = new(it, 'transfer.manager', 'TransferManager', _transfers=[t], _progress_reporting_task=B('p', pr_t), _management_task=B('m', mg_t),
                 _management_queue=Opaque('q'))
        r = run(it, it.getattr(tm, 'stop'))
        ctx.prove('C16.stop.covers#TransferManager', tt.cancel_requested and all(x in r for x in (tt, pr_t, mg_t)), f'{r!r}')
    ex.run(transfer_stop, 'transfer-stop')

    def distributed_stop(ctx: Ctx):
        it = mk(src_root, ctx)
        pp = A.TaskVal(it.aio, None, 'potential-parent-1')
        dn = new(it, 'distributed', 'DistributedNetwork', _potential_parent_tasks=[pp])
        r = run(it, it.getattr(dn, 'stop'))
        ctx.prove('C16.stop.covers#DistributedNetwork._potential_parent_tasks', pp.cancel_requested and pp in r)
    ex.run(distributed_stop, 'distributed-stop')

    def background_task(ctx: Ctx):
        it = mk(src_root, ctx)
        bt = it.call(cls(it, 'tasks', 'BackgroundTask'), [1.0, Recorder('job', is_async=True)], {'name': 'x'})
        it.call(it.getattr(bt, 'start'), [], {})
        it.call(it.getattr(bt, 'start'), [], {})
        t = it.aio.tasks
        ok = len(t) == 1 and bt.attrs['_task'] is t[0]
        r = it.call(it.getattr(bt, 'cancel'), [], {})
        r2 = it.call(it.getattr(bt, 'cancel'), [], {})
        ctx.prove('C16.BackgroundTask.start-cancel', ok and r is t[0] and t[0].cancel_requested and bt.attrs['_task'] is None and r2 is None,
                  'start creates one task; cancel cancels it, returns it and clears the handle; both idempotent')
    ex.run(background_task, 'background-task')


def prove_task_bookkeeping(src_root, ex: Explorer):
    """stop() cancels what the task lists hold (C16.stop.covers#*): the lists must hold every task that is still pending.  For each of the
    three lists: the creating handler, run with an EARLIER pending task in the list, keeps that task and adds every task it creates; the
    done-callback it installs removes the finished task and nothing else."""
    def check(ctx, it, tag, owner, attr, old, before_tasks):
        now = owner.attrs[attr]
        lst = list(now) if isinstance(now, list) else None
        created = [t for t in it.aio.tasks if not any(t is b for b in before_tasks)]
        ctx.prove(f'C16.tasks.tracked#{tag}.keeps-pending', lst is not None and any(x is old for x in lst),
                  f'a task that is still pending dropped out of {attr} when new tasks were started: stop() neither cancels nor awaits it')
        ctx.prove(f'C16.tasks.tracked#{tag}.registers-new', lst is not None and bool(created) and all(any(x is t for x in lst) for t in created),
                  f'{len(created)} task(s) created, {0 if lst is None else len(lst) - 1} registered in {attr}')
        if lst is None or not created:
            return
        t = created[0]
        ok = len(t.callbacks) == 1
        if ok:
            t.done = True
            try:
                it.call(t.callbacks[0], [t], {})
            except PyRaise as pr:
                ok = False
            after = owner.attrs[attr]
            after = list(after) if isinstance(after, list) else []
            ok = ok and not any(x is t for x in after) and any(x is old for x in after) and all(any(x is c for x in after) for c in created[1:])
        ctx.prove(f'C16.tasks.tracked#{tag}.callback-removes-the-finished-task-only', ok,
                  'the done-callback must take the finished task out of the list and leave the pending ones in it')

    def distributed(ctx: Ctx):
        it = mk(src_root, ctx)
        old = A.TaskVal(it.aio, None, 'potential-parent-earlier')
        entries = [Stub('entry', username='p0', ip='1.2.3.4', port=1), Stub('entry', username='p1', ip='1.2.3.5', port=2)]
        msg = Stub('PotentialParents.Response', entries=entries)
        settings = Stub('settings', debug=Stub('debug', search_for_parent=True))
        net = Stub('network', create_peer_connection=Recorder('create_peer_connection', is_async=True))
        dn = new(it, 'distributed', 'DistributedNetwork', _settings=settings, _network=net, potential_parents=[], _potential_parent_tasks=[old])
        it.natives['aioslsk.utils.task_counter'] = Native('task_counter', lambda it2, a, k: 1)
        before = list(it.aio.tasks)
        run(it, it.getattr(dn, '_on_potential_parents'), msg, Opaque('server'))
        check(ctx, it, 'DistributedNetwork._potential_parent_tasks', dn, '_potential_parent_tasks', old, before + [old])
    ex.run(distributed, 'tasks-distributed')

    def network(ctx: Ctx):
        it = mk(src_root, ctx)
        old = A.TaskVal(it.aio, None, 'connect-to-peer-earlier')
        net = new(it, NET, 'Network', _create_peer_connection_tasks=[old])
        it.natives['aioslsk.utils.task_counter'] = Native('task_counter', lambda it2, a, k: 1)
        before = list(it.aio.tasks)
        run(it, it.getattr(net, '_on_connect_to_peer'), Opaque('ConnectToPeer.Response'), Opaque('server'))
        check(ctx, it, 'Network._create_peer_connection_tasks', net, '_create_peer_connection_tasks', old, before + [old])
    ex.run(network, 'tasks-network')

    def search(ctx: Ctx):
        from contracts.C14 import mk_search_manager
        it = mk(src_root, ctx)
        w = mk_search_manager(it, ctx)
        ctx.assume(z3.And(z3.Not(w['blocked']), w['nv'] > 0))
        old = A.TaskVal(it.aio, None, 'search-reply-earlier')
        w['mgr'].attrs['_search_reply_tasks'] = [old]
        before = list(it.aio.tasks)
        run(it, it.getattr(w['mgr'], '_query_shares_and_reply'), 7, 'asker', 'query')
        check(ctx, it, 'SearchManager._search_reply_tasks', w['mgr'], '_search_reply_tasks', old, before + [old])
    ex.run(search, 'tasks-search')


def prove_disconnect_relies(src_root, ex: Explorer):
    """The decision not to reconnect is the cancellation of the watchdog task at CLOSING (C16.watchdog.*).  When the connection is lost from
    within that task (re-login answered with a close), the CancelledError arrives at the next suspension, inside disconnect(): disconnect
    must finish the close AND let the cancellation through, otherwise the watchdog outlives its cancellation and stop().  This is the C10
    contract of disconnect (all start states x all outcomes of wait_closed), discharged here as well."""
    from contracts import C10
    C10.prove_disconnect(src_root, ex)
    # stop() closes what is REGISTERED (C16.stop.network-disconnect): an accepted connection must be registered before its handler first
    # suspends, otherwise a peer that connects and stays silent keeps its socket and its accept task beyond stop()
    C10.prove_accepted_registered(src_root, ex)
    for ob in ex.obligations:
        if ob.name.startswith('C10.disconnect.'):
            ob.name = 'C16.watchdog.cancellation-passes-disconnect.' + ob.name[len('C10.disconnect.'):]
        elif ob.name.startswith('C10.accepted.'):
            ob.name = 'C16.stop.closes-accepted.' + ob.name[len('C10.accepted.'):]


def prove_stats_and_ping(src_root, ex: Explorer):
    """(a) what login tells the server about the shares (SharedFoldersFiles, C16.login.told): get_stats counts the folders PER shared
    directory (two shared directories that both have a sub folder 'cd1' share four folders, not two) and every file once.
    (b) the server ping task lives with the server CONNECTION (started at CONNECTED, cancelled at CLOSING), not with the session: a loss
    between connect and login would otherwise leave a ping task that no later event - and no stop() - cancels."""
    def stats(ctx: Ctx):
        it = mk(src_root, ctx)

        def d(*subdirs):
            return Stub('shared directory', items=[Stub('item', subdir=sd) for sd in subdirs])
        sm = new(it, 'shares.manager', 'SharesManager', _shared_directories=[d('', 'cd1', 'cd1'), d('', 'cd1')])
        r = it.call(it.getattr(sm, 'get_stats'), [], {})
        ctx.prove('C16.login.share-counts', tuple(unbox(x) for x in r) == (4, 5), f'two shared directories with folders {{"", cd1}} each and 3 + 2 files: get_stats() == {tuple(unbox(x) for x in r)}')
    ex.run(stats, 'share-stats')

    def ping(ctx: Ctx):
        it = mk(src_root, ctx)
        registered = []
        bus = Stub('bus', register=Recorder('register', fn=lambda it2, a, k: registered.append((a[0], a[1]))))
        pt = BT('ping')
        sm = new(it, 'server', 'ServerManager', _event_bus=bus, _ping_task=pt, _network=Stub('network'), _settings=Stub('settings'))
        it.call(it.getattr(sm, 'register_listeners'), [], {})
        handlers = [h for c, h in registered if getattr(c, 'name', None) == 'ConnectionStateChangedEvent']
        if len(handlers) != 1:
            ctx.fail('C16.ping.follows-the-connection', f'{len(handlers)} listeners for ConnectionStateChangedEvent registered by the server manager '
                     f'({[getattr(c, "name", c) for c, _ in registered]}): the ping task is not tied to the state of the server connection')
            return
        sc = Obj(cls(it, CONN, 'ServerConnection'))
        st = ['CONNECTED', 'CLOSING'][ctx.choose(2, 'state')]
        ev = Stub('event', connection=sc, state=enum(it, CONN, 'ConnectionState', st), close_reason=enum(it, CONN, 'CloseReason', 'READ_ERROR'))
        run(it, handlers[0], ev)
        ctx.prove(f'C16.ping.follows-the-connection[{st}]', (pt.started, pt.cancelled) == ((1, 0) if st == 'CONNECTED' else (0, 1)),
                  f'server connection {st}: ping task started {pt.started}x, cancelled {pt.cancelled}x')
    ex.run(ping, 'ping')


def prove_tree_relies(src_root, ex: Explorer):
    """What a (re-)login tells the server about the place in the distributed tree is computed from DistributedNetwork.parent at that
    moment (C13.told._on_session_initialized).  It is the truth only if a parent that was lost - also while there was NO session - is
    forgotten: the C13 obligations about the CLOSED handler (with and without a session) and about the session start are discharged
    here as well."""
    from contracts import C13
    C13.prove_unset_parent(src_root, ex)
    C13.prove_session_initialized(src_root, ex)
    for ob in ex.obligations:
        if ob.name.startswith('C13.'):
            ob.name = 'C16.login.tree-position.' + ob.name[4:]


def items(src_root, tier):
    return [('stats-ping', None), ('tree-relies', None), ('disconnect-relies', None), ('login', None), ('ports', None), ('user', None), ('room', None), ('interest', None), ('shares', None), ('destroy', None),
            ('watchdog', None), ('stop', None), ('tasks', None)]


def run_item(src_root, item, tier):
    res = std_result('C16')
    ex = Explorer()
    kind, arg = item
    try:
        if kind == 'stop':
            prove_stop(src_root, ex, res)
        else:
            {'login': prove_login, 'ports': prove_network_ports, 'user': prove_user_session, 'room': prove_room_session,
             'interest': prove_interest_session, 'shares': prove_shares_session, 'destroy': prove_destroy, 'watchdog': prove_watchdog,
             'tasks': prove_task_bookkeeping, 'disconnect-relies': prove_disconnect_relies, 'tree-relies': prove_tree_relies, 'stats-ping': prove_stats_and_ping}[kind](src_root, ex)
    except Unsupported as e:
        res.errors.append(f'{kind}: unsupported: {e}')
    collect(res, ex)
    res.bounded.append({'obligations': '*[bounded]', 'bound': 'list-valued settings with 0..2 entries', 'counted_as_proved': False})
    res.functions.update([f'{CLIENT}:SoulSeekClient.{m}' for m in ('login', 'stop', '_on_connection_state_changed', '_on_server_reconnected')])
    res.functions.update([f'{NET}:Network.{m}' for m in ('_on_session_initialized', 'advertise_listening_ports', 'get_listening_ports', 'disconnect',
                                                        '_cancel_all_tasks', '_on_server_connection_state_changed', '_server_connection_watchdog_job')])
    res.functions.update(['user.manager:UserManager._on_session_initialized', 'user.manager:UserManager._on_state_changed', 'room.manager:RoomManager._on_session_initialized',
                          'room.manager:RoomManager.auto_join_rooms', 'interest.manager:InterestManager.advertise_interests',
                          'shares.manager:SharesManager.report_shares', 'search.manager:SearchManager.stop', 'transfer.manager:TransferManager.stop',
                          'distributed:DistributedNetwork.stop', 'tasks:BackgroundTask.start', 'tasks:BackgroundTask.cancel'])
    return res
